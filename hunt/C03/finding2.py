"""C03 finding 2: a rejected `Address.line` assignment leaves type and network out of step.

AddressBase._line__host() (also _line__wildcard/_line__prefix) stores the new `_type`
(and clears `_addrgroup`) before the Wildcard object is built.  When the address text is
rejected (ValueError) the object keeps the NEW type with the OLD network: the entry
renders `host 10.0.0.0` while ipnets() is still 10.0.0.0/24.  Ace.shadow_of() then
reports entries as covered by an entry that, as rendered, matches one host only.
"""
import sys

from cisco_acl import Ace

errors = []

for platform, first, bad, probe in [
    ("ios", "permit ip 10.0.0.0 0.0.0.255 any", "host 10.0.0.300", "permit ip host 10.0.0.7 any"),
    ("ios", "permit ip any any", "host 10.0.0.300", "permit ip host 10.0.0.7 any"),
    ("nxos", "permit ip 10.0.0.0/24 any", "host 10.0.0.300", "permit ip 10.0.0.7/32 any"),
    # _line__wildcard: non-contiguous wildcard over the max_ncwb limit
    ("ios", "permit ip host 10.0.0.1 any", "10.0.0.0 255.255.255.0", "permit ip host 10.0.0.7 any"),
    # _line__prefix: invalid prefix length
    ("nxos", "permit ip addrgroup G any", "10.0.0.0/33", "permit ip 10.0.0.7/32 any"),
]:
    top = Ace(first, platform=platform)
    before = top.line
    try:
        top.srcaddr.line = bad
    except ValueError:
        pass
    else:
        errors.append(f"{bad!r} was expected to be rejected")
        continue
    if top.line != before:
        errors.append(f"[{platform}] rejected srcaddr.line={bad!r} changed the entry: "
                      f"{before!r} -> {top.line!r} (type={top.srcaddr.type!r}, "
                      f"ipnets={[str(o) for o in top.srcaddr.ipnets()]})")
    bottom = Ace(probe, platform=platform)
    reported = bottom.shadow_of(top)
    try:
        fresh = bottom.shadow_of(Ace(top.line, platform=platform))
    except ValueError:
        errors.append(f"[{platform}] after the rejected assignment the entry renders {top.line!r}, "
                      f"which the library itself does not accept")
        continue
    if reported and not fresh:
        errors.append(f"[{platform}] {bottom.line!r} reported in the shadow of {top.line!r}, "
                      f"which does not match it")

if errors:
    print("FAIL")
    for e in errors:
        print(" -", e)
    sys.exit(1)
print("PASS")
