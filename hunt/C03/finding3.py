"""C03 finding 3: members of address group A stay attached when the entry is pointed at group B.

Address keeps `_items` (the members of the group it names) across `line` assignments, and
Ace.line setter hands the old source/destination members to whatever address the new
text names (`items=self._srcaddr.items`).  After `ace.line = "... object-group B ..."` or
`ace.srcaddr.line = "object-group B"` (even with a plain address in between) the entry
names group B but is compared with the members of group A, so shadow_of() reports the
entry as covered on the strength of addresses that belong to another group.
"""
import sys

from cisco_acl import Ace

errors = []


def check(tag, ace, name):
    items = [o.line for o in ace.srcaddr.items]
    if ace.srcaddr.addrgroup == name and items:
        errors.append(f"{tag}: entry {ace.line!r} names group {name!r} whose members were never "
                      f"given, but carries members {items} of the group it named before")
    top = Ace("permit ip 10.0.0.0 0.0.0.255 any", platform=ace.platform)
    if ace.shadow_of(top):
        errors.append(f"{tag}: {ace.line!r} (members of {name!r} unknown) reported in the shadow "
                      f"of {top.line!r}")


# members of A attached the way cisco_acl.acls() attaches them
def make(platform="ios"):
    kw = "addrgroup" if platform == "nxos" else "object-group"
    ace = Ace(f"permit ip {kw} A any", platform=platform)
    ace.srcaddr.items = ["10.0.0.0 0.0.0.3"]
    assert ace.shadow_of(Ace("permit ip 10.0.0.0 0.0.0.255 any", platform=platform))
    return ace, kw


ace, kw = make()
ace.line = f"permit ip {kw} B any"
check("Ace.line", ace, "B")

ace, kw = make()
ace.srcaddr.line = f"{kw} B"
check("Address.line", ace, "B")

ace, kw = make()
ace.srcaddr.line = "any"
ace.srcaddr.line = f"{kw} C"
check("Address.line via any", ace, "C")

ace, kw = make("nxos")
ace.line = f"20 permit ip {kw} B any"
check("Ace.line nxos", ace, "B")

# control: re-writing the same group (new sequence number, platform switch) keeps the members
ace, kw = make()
ace.line = f"30 permit ip {kw} A any log"
if [o.line for o in ace.srcaddr.items] != ["10.0.0.0 0.0.0.3"]:
    errors.append("control: members of A lost when the same group is written again")
ace.platform = "nxos"
if len(ace.srcaddr.items) != 1:
    errors.append("control: members of A lost on platform switch")

if errors:
    print("FAIL")
    for e in errors:
        print(" -", e)
    sys.exit(1)
print("PASS")
