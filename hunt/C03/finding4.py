"""C03 finding 4: a rejected `Option.line` assignment leaves text and flags out of step.

Option.line setter stores `_line` before the tokens are validated.  When a token is
rejected (ValueError) the object keeps the NEW text with the OLD flags/logs: the entry
renders `... ack time-range WORK` while `flags` is still [].  Ace.shadow_of() compares
the flags, so an entry restricted to `ack` is treated as unrestricted.
"""
import sys

from cisco_acl import Ace

errors = []

top = Ace("permit tcp any any")
before = top.line
try:
    top.option.line = "ack time-range WORK"  # rejected: token does not start with a lowercase letter
except ValueError:
    pass
else:
    errors.append("option was expected to be rejected")

if top.line != before:
    errors.append(f"rejected assignment changed the entry: {before!r} -> {top.line!r}, "
                  f"flags={top.option.flags!r}")
tokens = [s for s in top.option.line.split() if s not in ("log", "log-input")]
if tokens != top.option.flags:
    errors.append(f"option text {top.option.line!r} and flags {top.option.flags!r} disagree")

bottom = Ace("permit tcp any any syn")
if bottom.shadow_of(top) and "ack" in top.line.split():
    errors.append(f"{bottom.line!r} reported in the shadow of {top.line!r} (which matches ack only)")

# the other way round: flags survive, text is replaced
top = Ace("permit tcp any any syn")
try:
    top.option.line = "ack 1"
except ValueError:
    pass
bottom = Ace("permit tcp any any syn")
if bottom.shadow_of(top) and "syn" not in top.line.split():
    errors.append(f"{bottom.line!r} reported in the shadow of {top.line!r}")

if errors:
    print("FAIL")
    for e in errors:
        print(" -", e)
    sys.exit(1)
print("PASS")
