"""C03 finding 5: ipnets() of a non-contiguous wildcard hands out the internal memo list.

Wildcard.ipnets() memoises its result and returns the memo list itself; Address.ipnets()
passes it on.  For a contiguous address or an address group the caller gets a fresh list,
for a non-contiguous wildcard the caller gets the cache: collecting the networks of an
entry with `nets = ace.srcaddr.ipnets(); nets += ace.dstaddr.ipnets()` silently adds the
destination networks to the source address.  The rendered entry is unchanged, but
shadow_of() now compares a wider source and reports shadows that do not exist.
"""
import sys

from cisco_acl import Ace

errors = []

for src in ["10.0.0.0 0.0.0.255", "10.0.0.0 0.0.1.3"]:  # contiguous, non-contiguous
    top = Ace(f"permit ip {src} host 1.1.1.1")
    bottom = Ace("permit ip host 1.1.1.1 host 1.1.1.1")
    before = bottom.shadow_of(top)

    nets = top.srcaddr.ipnets()  # a read-only question
    nets += top.dstaddr.ipnets()  # the caller's own list ... or is it?

    after = bottom.shadow_of(top)
    fresh = bottom.shadow_of(Ace(top.line))
    if (before, after, fresh) != (False, False, False):
        errors.append(f"top={top.line!r} bottom={bottom.line!r}: shadow_of before={before}, "
                      f"after reading ipnets()={after}, fresh parse of the same text={fresh}; "
                      f"srcaddr.ipnets()={[str(o) for o in top.srcaddr.ipnets()]}")

if errors:
    print("FAIL")
    for e in errors:
        print(" -", e)
    sys.exit(1)
print("PASS")
