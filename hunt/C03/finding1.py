"""C03 finding 1: a rejected `Port.line` assignment leaves operator and port set out of step.

Port.line setter stores the new operator before the operands are validated.  When the
operands are rejected (ValueError) the object keeps the NEW operator with the OLD
items/ports: the entry renders `lt www` (ports 1..79) while `ports` is still [80].
Ace.shadow_of() then reports shadows that the rendered entries do not have.
"""
import sys

from cisco_acl import Ace

errors = []

top = Ace("permit tcp any any eq 80")
before = top.line
try:
    top.dstport.line = "lt 80 443"  # invalid: "lt" takes one port
except ValueError:
    pass
else:
    errors.append("'lt 80 443' was expected to be rejected")

# 1) a rejected assignment must not change the object
if top.line != before:
    errors.append(f"rejected assignment changed the entry: {before!r} -> {top.line!r}, "
                  f"operator={top.dstport.operator!r} ports={top.dstport.ports!r}")

# 2) whatever the entry renders, shadow_of must agree with an entry parsed from that text
bottom = Ace("permit tcp any any eq 80")
reported = bottom.shadow_of(top)
fresh = bottom.shadow_of(Ace(top.line))
if reported and not fresh:
    errors.append(f"{bottom.line!r} reported in the shadow of {top.line!r}, "
                  f"but {top.line!r} does not match port 80 (fresh parse says {fresh})")

# same with an unknown port name
top = Ace("permit udp any eq 53 any")
try:
    top.srcport.line = "neq nosuchname"
except ValueError:
    pass
bottom = Ace("permit udp any eq 53 any")
if bottom.shadow_of(top) and not bottom.shadow_of(Ace(top.line)):
    errors.append(f"{bottom.line!r} reported in the shadow of {top.line!r}")

if errors:
    print("FAIL")
    for e in errors:
        print(" -", e)
    sys.exit(1)
print("PASS")
