"""C13 finding 3: `address in AddrGroup` depends on the ORDER of the group members.

AddrGroup.__contains__ asks the members one after another (`other in item`) and lets
the TypeError of the first member that cannot be asked (a non-contiguous wildcard on
nxos, a nested `group-object` on ios) escape, although a later member contains the
address.  With the members in the other order the answer is True.
"""
import logging
import sys

logging.disable(logging.CRITICAL)

from cisco_acl import AddrGroup, AddressAg


def ask(func):
    try:
        return func()
    except Exception as ex:  # pylint: disable=broad-except
        return f"{type(ex).__name__}"


errors = []
CASES = [
    # platform, containing member, member that cannot be asked, address, subgroup member
    ("nxos", "10.0.0.0/8", "20.0.0.0 0.0.3.3", "host 10.0.0.1", "10.1.0.0/16"),
    ("ios", "10.0.0.0 255.0.0.0", "group-object X", "host 10.0.0.1", "10.1.0.0 255.255.0.0"),
]
for platform, top, opaque, host, sub in CASES:
    host_o = AddressAg(host, platform=platform)
    sub_o = AddrGroup(name="SUB", items=[sub], platform=platform)
    group1 = AddrGroup(name="G", items=[top, opaque], platform=platform)
    group2 = AddrGroup(name="G", items=[opaque, top], platform=platform)  # same members
    for descr, other in [(host, host_o), (f"AddrGroup[{sub}]", sub_o)]:
        result1 = ask(lambda: other in group1)
        result2 = ask(lambda: other in group2)
        if result1 is not True or result2 is not True:
            errors.append(
                f"{platform}: {descr!r} in group [{top!r}, {opaque!r}] -> {result1}, "
                f"in group [{opaque!r}, {top!r}] -> {result2}; member {top!r} contains it: expected True, True"
            )

if errors:
    print("FAIL")
    for error in errors:
        print(" -", error)
    sys.exit(1)
print("PASS")
