"""C13 finding 5: AddrGroup built from TEXT silently omits the members it cannot represent.

AddrGroup.line (the text constructor) swallows every ValueError of a member line
(logging.debug + continue): a wildcard with more non-contiguous bits than max_ncwb,
an IOS `range A B` member, a subnet with host bits.  The group object is then a
proper subset of the configured group and `group in X` answers True although the
configured group is not contained in X.  The same members given through `items=`
(and through addrgroups()/acls(), which use `items=`) raise ValueError.
"""
import logging
import sys

logging.disable(logging.CRITICAL)

from cisco_acl import AddrGroup, AddressAg

errors = []
CASES = [
    # platform, head, members, top
    ("nxos", "object-group ip address G", ["10.0.0.0/24", "0.0.0.0 255.255.2.255"], "10.0.0.0/8"),
    ("ios", "object-group network G", ["host 10.0.0.1", "range 20.0.0.1 20.0.0.9"], "10.0.0.0 255.0.0.0"),
]
for platform, head, members, top in CASES:
    text = "\n".join([head, *[f" {s}" for s in members]])
    top_o = AddressAg(top, platform=platform)

    # items=: the member that cannot be represented is refused
    try:
        AddrGroup(name="G", items=list(members), platform=platform)
        by_items = "accepted"
    except ValueError as ex:
        by_items = type(ex).__name__

    # text: must not give a positive answer for a group that has a member outside `top`
    try:
        group = AddrGroup(text, platform=platform)
    except ValueError:
        continue  # refused, like items=: no answer, no wrong answer
    answer = group in top_o
    if answer:
        kept = [o.line for o in group.items]
        errors.append(
            f"{platform}: group configured as {members} is built as {kept} (items= -> {by_items}); "
            f"`group in {top!r}` -> True although member {members[1]!r} is outside {top!r}"
        )

if errors:
    print("FAIL")
    for error in errors:
        print(" -", error)
    sys.exit(1)
print("PASS")
