"""C13 finding 1: Ace.line keeps the members of the PREVIOUS address group.

After an ACE line is reassigned, the new source/destination address object
inherits the `items` (resolved members) of whatever address stood at that
position before, even when the group name is different.  Containment answers
about the grouped address are then positive for addresses the group does not
contain.
"""
import logging
import sys

logging.disable(logging.CRITICAL)

from cisco_acl import Address, acls

CONFIG = """
object-group network G
 10.0.0.0 255.255.0.0
object-group network H
 host 20.0.0.1
ip access-list extended A
 permit ip object-group G object-group H
"""

errors = []
ace = acls(CONFIG, platform="ios")[0].items[0]
assert ace.srcaddr.prefixes() == ["10.0.0.0/16"], ace.srcaddr.prefixes()
assert ace.dstaddr.prefixes() == ["20.0.0.1/32"], ace.dstaddr.prefixes()

in_g = Address("host 10.0.0.5")  # member of G, not of H
in_h = Address("host 20.0.0.1")  # member of H, not of G

# 1) source and destination swapped
ace.line = "permit ip object-group H object-group G"
if in_g.subnet_of(ace.srcaddr):
    errors.append(
        f"after swap srcaddr={ace.srcaddr.line!r} has members {ace.srcaddr.prefixes()} (those of G): "
        f"'host 10.0.0.5' is reported as a subnet of object-group H = {{20.0.0.1}}"
    )
if in_h.subnet_of(ace.dstaddr):
    errors.append(
        f"after swap dstaddr={ace.dstaddr.line!r} has members {ace.dstaddr.prefixes()} (those of H): "
        f"'host 20.0.0.1' is reported as a subnet of object-group G = {{10.0.0.0/16}}"
    )

# 2) another group name at the same position
ace.line = "permit ip object-group OTHER any"
if in_g.subnet_of(ace.srcaddr) or in_h.subnet_of(ace.srcaddr):
    errors.append(
        f"srcaddr={ace.srcaddr.line!r} (never resolved) has members {ace.srcaddr.prefixes()}: "
        f"a positive containment answer is given for a group whose content is unknown"
    )

# 3) the same at the level of one address object (Address and AddressAg)
from cisco_acl import AddressAg

addr = Address("object-group G", items=["10.0.0.0 0.0.255.255"])
addr.line = "object-group H"
if in_g.subnet_of(addr):
    errors.append(f"Address renamed to {addr.line!r} still has members {addr.prefixes()} of object-group G")
addr_ag = AddressAg("group-object G", items=["host 10.0.0.5"])
addr_ag.line = "group-object H"
if AddressAg("host 10.0.0.5").subnet_of(addr_ag):
    errors.append(f"AddressAg renamed to {addr_ag.line!r} still has members {addr_ag.prefixes()} of group-object G")

if errors:
    print("FAIL")
    for error in errors:
        print(" -", error)
    sys.exit(1)
print("PASS")
