"""C13 finding 4: ipnets() of a non-contiguous wildcard hands out its internal memo list.

Wildcard.ipnets() memoises the expanded prefixes and returns the memo list ITSELF;
Address.ipnets() / AddressAg.ipnets() pass it on.  A caller that extends, sorts or
filters the returned list (a plain `list`, documented as "List of IPv4Network")
silently changes what the address "is" for every later containment answer.
For a contiguous address a fresh list is returned, so the same code is harmless there.
"""
import logging
import sys

logging.disable(logging.CRITICAL)

from cisco_acl import Address, AddressAg

errors = []
for cls, platform in [(Address, "ios"), (Address, "nxos"), (AddressAg, "nxos")]:
    top = cls("10.0.0.0 0.0.3.3", platform=platform)  # 10.0.{0..3}.{0..3}
    other = cls("20.0.0.0 0.0.0.255", platform=platform)
    probe = cls("host 20.0.0.9", platform=platform)
    inside = cls("host 10.0.3.1", platform=platform)
    assert probe.subnet_of(top) is False
    assert inside.subnet_of(top) is True

    # the user collects the networks of two addresses
    networks = top.ipnets()
    networks.extend(other.ipnets())
    if probe.subnet_of(top):
        errors.append(
            f"{cls.__name__}/{platform}: after `nets = top.ipnets(); nets.extend(...)` "
            f"'host 20.0.0.9' is a subnet of {top.line!r}; top.prefixes() = {top.prefixes()}"
        )

    # the user keeps only some of the networks
    top = cls("10.0.0.0 0.0.3.3", platform=platform)
    networks = top.ipnets()
    del networks[1:]
    if not inside.subnet_of(top):
        errors.append(
            f"{cls.__name__}/{platform}: after `nets = top.ipnets(); del nets[1:]` "
            f"'host 10.0.3.1' is no longer a subnet of {top.line!r}; top.prefixes() = {top.prefixes()}"
        )
    # ... and the truncated address is now "inside" a smaller one
    small = cls("10.0.0.0 0.0.0.3", platform=platform)
    if top.subnet_of(small):
        errors.append(
            f"{cls.__name__}/{platform}: {top.line!r} (16 addresses) is reported as a subnet of {small.line!r} (4 addresses)"
        )

if errors:
    print("FAIL")
    for error in errors:
        print(" -", error)
    sys.exit(1)
print("PASS")
