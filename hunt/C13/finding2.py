"""C13 finding 2: on platform "asa" acls() reads the mask of an object-group member as a wildcard.

AddressAg reads "A.B.C.D A.B.C.D" as subnet + MASK on every platform except nxos
(ios and asa).  functions._convert_ios_addr(), which turns a group member into the
Address stored in Ace.srcaddr.items / Ace.dstaddr.items, converts the mask to a
wildcard only when platform == "ios".  On "asa" the text "10.0.0.0 255.255.0.0" is
handed to Address unchanged, and Address reads the second quad as a WILDCARD.
"""
import logging
import sys

logging.disable(logging.CRITICAL)

from cisco_acl import Address, AddrGroup, AddressAg, acls

CONFIG = """
object-group network G
 10.0.0.0 255.255.0.0
ip access-list extended A
 permit ip object-group G any
"""
errors = []
results = {}
for platform in ("ios", "asa"):
    group = AddrGroup(name="G", items=["10.0.0.0 255.255.0.0"], platform=platform)
    assert group.prefixes() == ["10.0.0.0/16"], group.prefixes()  # both platforms: 10.0.0.0/16

    ace = acls(CONFIG, platform=platform)[0].items[0]
    inside = Address("host 10.0.7.7", platform=platform)  # belongs to 10.0.0.0/16
    outside = Address("host 20.5.0.0", platform=platform)  # does not
    results[platform] = (inside.subnet_of(ace.srcaddr), outside.subnet_of(ace.srcaddr))
    members = [o.line for o in ace.srcaddr.items]
    if outside.subnet_of(ace.srcaddr):
        errors.append(
            f"{platform}: 'host 20.5.0.0' is reported as a subnet of object-group G = {{10.0.0.0/16}}, "
            f"resolved members are {members}"
        )
    if not inside.subnet_of(ace.srcaddr):
        errors.append(
            f"{platform}: 'host 10.0.7.7' is reported as NOT a subnet of object-group G = {{10.0.0.0/16}}, "
            f"resolved members are {members}"
        )
    # the group member and the resolved ACE member must be the same set of addresses
    if set(ace.srcaddr.ipnets()) != set(group.ipnets()):
        errors.append(
            f"{platform}: AddrGroup G is {group.prefixes()} but Ace.srcaddr of 'object-group G' "
            f"expands to {len(ace.srcaddr.ipnets())} networks starting {ace.srcaddr.prefixes()[:3]}"
        )

if errors:
    print("FAIL", results)
    for error in errors:
        print(" -", error)
    sys.exit(1)
print("PASS", results)
