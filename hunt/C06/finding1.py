"""C06 finding 1: a grouped ACL loses its software version in Acl.group().

Clause: "Text the library renders for an object built from its platform's native syntax
parses back, with the same platform, version and switches, into an object that renders the
identical text ... for ... ACE groups, whole ACLs".

IOS 15 does not know the TCP port name "msrpc" (135), IOS 16 does; the library models this
with the `version` switch.  Acl.group() builds the AceGroup blocks without `version`, so the
blocks and (through AceGroup.items) their ACEs fall back to version "0".  The next operation
that rebuilds an ACE from its own data (Acl.ungroup_ports(), a block level setter, ...)
renders names of the wrong version, and the text the ACL renders is no longer accepted by the
parser that is called with the very same switches: the ACE is dropped with a logged warning.
"""
import logging
import sys

from cisco_acl import Acl

logging.disable(logging.CRITICAL)

TEXT = """ip access-list extended A
  remark = WEB
  permit tcp any any eq 135 136
"""
errors = []
for group_by in ["", "= "]:
    kwargs = dict(platform="ios", version="15", group_by=group_by)
    acl = Acl(TEXT, **kwargs)

    # the version given to the ACL has to reach every object the ACL is made of
    for item in acl.items:
        for obj in [item, *getattr(item, "items", [])]:
            if str(obj.version) != "15":
                errors.append(f"{group_by=!r}: {obj!r} has version={str(obj.version)!r}, ACL has '15'")

    acl.ungroup_ports()  # public Acl method, must not change the spelling rules
    text1 = acl.line
    again = Acl(text1, **kwargs)  # same platform, version and switches
    text2 = again.line
    if text1 != text2:
        errors.append(f"{group_by=!r}: rendered text is not a fixed point\n--- rendered\n{text1}\n--- re-parsed\n{text2}")

if errors:
    print("FAIL")
    print("\n".join(errors))
    sys.exit(1)
print("PASS")
