"""C06 finding 2: range_ports() / range_protocols() ignore the documented `version` switch.

Clause: "Text the library renders ... parses back, with the same platform, version and
switches, into an object that renders the identical text ... for ... ACEs ... and the
config-level functions".

README.rst documents `version` ("Software version, default is "0"") as a parameter of
range_ports() and range_protocols().  Both functions swallow it in **kwargs and build their
Ace/Port objects without it, so the ACE lines are spelled with the port names of the default
version.  On IOS 15 the names msrpc (135), onep-plain (15001), onep-tls (15002) do not exist:
the lines the functions render for version="15" are rejected by Ace(..., version="15").
"""
import logging
import sys

from cisco_acl import Ace, range_ports, range_protocols

logging.disable(logging.CRITICAL)

errors = []
kwargs = dict(platform="ios", version="15")

cases = [
    ("range_ports(dstports='80,135,15001-15002')",
     lambda: range_ports(dstports="80,135,15001-15002", **kwargs)),
    ("range_ports(srcports='135', line='permit tcp any any log')",
     lambda: range_ports(srcports="135", line="permit tcp any any log", **kwargs)),
    ("range_protocols(protocols='6', line='permit tcp any any eq 135')",
     lambda: range_protocols(protocols="6", line="permit tcp any any eq 135", **kwargs)),
]
for title, func in cases:
    for line in func():
        try:
            line2 = Ace(line, **kwargs).line  # same platform and version
        except ValueError as ex:
            errors.append(f"{title}: rendered {line!r} is rejected with the same switches: {str(ex)[:60]}...")
            continue
        if line2 != line:
            errors.append(f"{title}: rendered {line!r} re-parsed as {line2!r}")

if errors:
    print("FAIL")
    print("\n".join(errors))
    sys.exit(1)
print("PASS")
