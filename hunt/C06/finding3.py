"""C06 finding 3: an IOS address-group member "A.B.C.D 0.0.0.0" renders text the parser refuses.

Clause: "Text the library renders for an object built from its platform's native syntax parses
back ... into an object that renders the identical text and exports identical data - for ...
address-group members, address groups".

On IOS a member line is "A.B.C.D A.B.C.D  Network subnet and mask bits" (docs/objects.rst).
AddressAg("10.1.2.3 0.0.0.0", platform="ios") is accepted: Wildcard.fsubnet() reads the mask
0.0.0.0 as "every address", the object becomes ipnet 0.0.0.0/0, type "subnet" and renders
"0.0.0.0 0.0.0.0".  But AddressAg._line__subnet() refuses exactly this text
("'0.0.0.0 0.0.0.0' is denied for platform='ios'"): the check compares the raw input line, not
the network that was parsed.  So the text (and the data) of the member, and of every group that
holds it, cannot be read back: AddressAg(line), AddressAg(**data()), .copy(), AddrGroup(line),
AddrGroup(**data()) all raise ValueError.
"""
import logging
import sys

from cisco_acl import AddrGroup
from cisco_acl.address_ag import AddressAg

logging.disable(logging.CRITICAL)

errors = []


def fixed_point(title, cls, text, **kwargs):
    """Text rendered by an accepted object has to be accepted and rendered identically."""
    try:
        obj = cls(text, **kwargs)
    except ValueError:
        return  # a refused input is consistent, nothing is rendered
    text1 = obj.line
    try:
        text2 = cls(text1, **kwargs).line
    except ValueError as ex:
        errors.append(f"{title}: accepted {text!r}, rendered {text1!r}, re-parse raises ValueError: {ex}")
        return
    if text1 != text2:
        errors.append(f"{title}: {text1!r} re-parsed as {text2!r}")
    try:
        if obj.copy().data() != obj.data():
            errors.append(f"{title}: copy().data() differs")
    except ValueError as ex:
        errors.append(f"{title}: accepted {text!r}, but copy() raises ValueError: {ex}")


for line in ["10.1.2.3 0.0.0.0", "10.0.0.0 0.0.0.0", "0.0.0.0 0.0.0.0"]:
    fixed_point("AddressAg", AddressAg, line, platform="ios")
    fixed_point("AddrGroup", AddrGroup, f"object-group network NAME\n {line}\n host 10.0.0.1", platform="ios")
    fixed_point("AddrGroup", AddrGroup, f"object-group network NAME\n {line}", platform="ios")

if errors:
    print("FAIL")
    print("\n".join(errors))
    sys.exit(1)
print("PASS")
