"""C10: an ACL / address group that holds the SAME object at two positions is not numbered s, s+d, ...

Acl(items=[a, a]), acl.append(a) twice, acl.insert(0, acl[2]) ... are all accepted by the public API
(items: "string, Ace, AceGroup, Remark objects"; "implements most of the Python list methods").
resequence() writes the number into the object, so the second visit overwrites the first one.
"""
import re
import sys

from cisco_acl import Ace, AceGroup, Acl, AddrGroup, AddressAg, Remark

errors = []


def numbers(line):
    """Numbers of the rendered body lines (0 = no number)."""
    result = []
    for row in line.split("\n")[1:]:
        m = re.match(r"^\s*(\d+) (?:permit|deny|remark|host|\d+\.)", row)
        result.append(int(m.group(1)) if m else 0)
    return result


def check(title, obj, start, step, count):
    ret = obj.resequence(start=start, step=step)
    want = [start + i * step for i in range(count)]
    got = numbers(obj.line)
    if got != want or ret != want[-1]:
        errors.append(f"{title}: rendered numbers {got}, returned {ret}; expected {want}, {want[-1]}")


# 1. the same Ace twice, by the constructor
ace = Ace("permit ip any any")
check("Acl(items=[a, a])", Acl(name="A", items=[ace, ace]), 10, 10, 2)

# 2. the same Remark twice, by the list methods (a separator line reused)
sep = Remark("remark ----")
acl = Acl("ip access-list extended A\n permit icmp any any\n deny ip any any")
acl.insert(0, sep)
acl.insert(2, sep)
check("acl.insert(sep) twice", acl, 10, 10, 4)

# 3. the same AceGroup twice, nxos
grp = AceGroup("permit tcp any any eq 80\ndeny tcp any any", platform="nxos")
check("Acl(items=[g, x, g]) nxos", Acl(name="A", platform="nxos", items=[grp, "permit udp any any", grp]), 5, 5, 5)

# 4. address group
host = AddressAg("host 10.0.0.1", platform="nxos")
check("AddrGroup(items=[h, h])", AddrGroup(name="G", platform="nxos", items=[host, host]), 10, 10, 2)

# control: equal but distinct objects are numbered properly
check("control", Acl(name="A", items=["permit ip any any", "permit ip any any"]), 10, 10, 2)

if errors:
    print("FAIL: the entries in rendered order do not carry start, start+step, ...")
    for error in errors:
        print("  -", error)
    sys.exit(1)
print("PASS")
