"""C09 finding 2: range_ports() / range_protocols() ignore their documented `version` parameter.

Property clause: "On every platform, software version and protocol ... the name chosen when a
number is rendered is accepted back by the parser for the same platform and maps to the same
number".

README.rst documents `version` ("Software version, default is "0"") for range_ports() and
range_protocols().  IOS 15 has no TCP name "msrpc" (135), "onep-plain" (15001), "onep-tls" (15002)
and no UDP name "ripv6" (521): the library's IOS-15 tables do not contain them and the version-15
parser rejects them.  The generated lines must be readable by the parser of the SAME platform and
version and give the same number.
"""
import logging
import sys

from cisco_acl import Ace, range_ports, range_protocols

logging.disable(logging.CRITICAL)
errors = []


def check(tag, lines, platform, version, expected):
    for line, (src, dst) in zip(lines, expected):
        try:
            ace = Ace(line, platform=platform, version=version)
        except ValueError as ex:
            errors.append(f"{tag}: generated {line!r} is refused by the {platform} {version} parser "
                          f"({str(ex)[:40]}...)")
            continue
        if (ace.srcport.items, ace.dstport.items) != (src, dst):
            errors.append(f"{tag}: {line!r} ports {(ace.srcport.items, ace.dstport.items)}")


VERSION = "15.2(02)SY"  # the version named in cisco_acl/port_name.py for the IOS-15 tables
lines_ = range_ports(dstports="135,15001,15002", platform="ios", version=VERSION)
check("range_ports(dstports, tcp)", lines_, "ios", VERSION, [([], [135]), ([], [15001]), ([], [15002])])

lines_ = range_ports(srcports="520-521", line="permit udp any any", platform="ios", version=VERSION,
                     port_range=False)
check("range_ports(srcports, udp)", lines_, "ios", VERSION, [([520], []), ([521], [])])

lines_ = range_protocols(protocols="6", line="permit tcp any any eq 135", platform="ios",
                         version=VERSION)
check("range_protocols(tcp)", lines_, "ios", VERSION, [([], [135])])

# control: default version (IOS 16 tables) is consistent
lines_ = range_ports(dstports="135", platform="ios")
check("range_ports(default version)", lines_, "ios", "", [([], [135])])

if errors:
    print("FAIL")
    for error in errors:
        print(" -", error)
    sys.exit(1)
print("PASS")
