"""C09 finding 3: a container adopts an Ace object by relabelling it, its ports keep the old tables.

Property clause: "the name chosen when a number is rendered is accepted back by the parser for
the same platform and maps to the same number" (on every platform and software version).

Acl(items=[Ace, ...]) / AceGroup(items=[...]) / `.items = [...]` take Ace objects (docs/objects.rst:
"items: ACEs items: str, Ace, AceGroup, Remark objects") and make them members of the container's
platform and version: afterwards `ace.platform` / `ace.version` report the container's values.
The text of the container must then be readable by the parser of the container's platform and
version, and give the same port numbers.
"""
import logging
import sys

from cisco_acl import Ace, AceGroup, Acl

logging.disable(logging.CRITICAL)
errors = []


def ports_of(acl_o):
    return [o.dstport.items for o in acl_o.items if isinstance(o, Ace)]


def check(tag, acl_o, expected):
    ace = acl_o.items[0]
    if isinstance(ace, AceGroup):
        ace = ace.items[0]
    labels = (ace.platform, str(ace.version))
    if labels != (acl_o.platform, str(acl_o.version)):
        errors.append(f"{tag}: member is labelled {labels}")
    again = Acl(acl_o.line, platform=acl_o.platform, version=str(acl_o.version))
    if ports_of(again) != expected:
        errors.append(f"{tag}: the member says platform={ace.platform!r} version={str(ace.version)!r}, "
                      f"text {acl_o.line!r} read back with these settings gives ports "
                      f"{ports_of(again)}, expected {expected} "
                      f"(its port object still has platform={ace.dstport.platform!r} "
                      f"version={str(ace.dstport.version)!r})")


# tcp/514 is "cmd" on ios/nxos but "rsh" on asa ("cmd" is not an asa name)
acl = Acl(name="A", platform="asa", items=[Ace("permit tcp any any eq 514")])
check("Acl(platform='asa', items=[ios Ace tcp/514])", acl, [[514]])

# tcp/135 is "msrpc" on ios 16 only
acl = Acl(name="A", platform="nxos", items=[Ace("permit tcp any any eq 135")])
check("Acl(platform='nxos', items=[ios Ace tcp/135])", acl, [[135]])

acl = Acl(name="A", platform="nxos")
acl.items = [Ace("permit udp any any eq 521")]
check("nxos Acl.items = [ios Ace udp/521]", acl, [[521]])

# asa tcp/22 is "ssh", not a name on ios
acl = Acl(name="A", platform="ios", items=[Ace("permit tcp any any eq 22", platform="asa")])
check("Acl(platform='ios', items=[asa Ace tcp/22])", acl, [[22]])

# the version is relabelled the same way
acl = Acl(name="A", platform="ios", version="15", items=[Ace("permit tcp any any eq 135")])
check("Acl(version='15', items=[ios-16 Ace tcp/135])", acl, [[135]])

# AceGroup
aceg = AceGroup(platform="asa", items=[Ace("permit tcp any any eq 514")])
acl = Acl(name="A", platform="asa", items=[aceg])
check("AceGroup(platform='asa', items=[ios Ace tcp/514])", acl, [[514]])

if errors:
    print("FAIL")
    for error in errors:
        print(" -", error)
    sys.exit(1)
print("PASS")
