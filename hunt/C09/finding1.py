"""C09 finding 1: a grouped ACL loses its software version (Acl.group builds the blocks without it).

Property clause: "On every platform, software version and protocol ... the name chosen when a
number is rendered is accepted back by the parser for the same platform and maps to the same
number, and the numeric/name switches change text only".

IOS 15 does not know the TCP name "msrpc" (135) nor the UDP name "ripv6" (521); the library's own
IOS-15 tables (TCP_NAME_PORT__IOS_15 / UDP_NAME_PORT__IOS_15) do not contain them, and a flat
version-15 ACL keeps these ports numeric (tests/test__acl.py, "# version").
"""
import logging
import sys

from cisco_acl import Acl, acls

logging.disable(logging.CRITICAL)

CONFIG = """
ip access-list extended A
  remark =G
  permit tcp any any eq 135
  permit udp any any eq 521
"""
EXPECTED = "ip access-list extended A\n  remark =G\n  permit tcp any any eq 135\n  permit udp any any eq 521"
errors = []


def numbers(acl_o):
    acl_o = acl_o.copy()
    acl_o.ungroup()
    return [o.dstport.items for o in acl_o.items if hasattr(o, "dstport")]


def check(tag, acl_o):
    """The text of a version-15 ACL has to be readable by the version-15 parser, same numbers."""
    line = acl_o.line
    if line != EXPECTED:
        errors.append(f"{tag}: version-15 ACL renders {line!r}")
    again = Acl(line, platform="ios", version="15")
    if numbers(again) != [[135], [521]]:
        errors.append(f"{tag}: rendered text read back by the version-15 parser gives ports "
                      f"{numbers(again)}, expected [[135], [521]]")


# 1. flat ACL (control): fine
acl = acls(config=CONFIG, platform="ios", version="15")[0]
acl.platform = "ios"
check("flat, platform='ios'", acl)

# 2. grouped ACL, the blocks have version 0
acl = acls(config=CONFIG, platform="ios", version="15", group_by="=")[0]
versions = [str(o.version) for o in acl.items]
if versions != ["15"]:
    errors.append(f"grouped: acl.version={str(acl.version)!r} but the blocks have version {versions}")
check("grouped, untouched", acl)

# 3. any setter that rebuilds a block/an entry from its data() now renders IOS-16 names
acl = acls(config=CONFIG, platform="ios", version="15", group_by="=")[0]
acl.platform = "ios"  # no-op conversion
check("grouped, platform='ios'", acl)

acl = acls(config=CONFIG, platform="ios", version="15", group_by="=")[0]
acl.items[0].port_nr = False  # numeric/name switch of the block (already False)
check("grouped, block.port_nr=False", acl)

# 4. and a plain switch on the ACL itself is refused
acl = Acl(EXPECTED, platform="ios", version="15", group_by="=")
try:
    acl.type = "extended"  # already extended
    check("grouped, type='extended'", acl)
except ValueError as ex:
    errors.append(f"grouped, acl.type='extended' raised ValueError: {str(ex)[:60]}...")

if errors:
    print("FAIL")
    for error in errors:
        print(" -", error)
    sys.exit(1)
print("PASS")
