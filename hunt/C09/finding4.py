"""C09 finding 4: after the protocol of an ACE is changed, its ports are spelled with the names of
the OLD protocol, which the parser of the new protocol does not accept.

Property clause: "each accepted TCP/UDP port name ... denotes its standard number, the name chosen
when a number is rendered is accepted back by the parser for the same platform and maps to the
same number" (for tcp AND udp: the two protocols have different name tables).

The history is the one of the library's own example (examples/examples_ace.py):
    ace.protocol.name = "udp"
    ace.srcport.line = "eq 179"
    ace.dstport.ports = [80]
    print(ace.line)
    # 20 permit udp 10.0.0.0 0.0.0.255 eq 179 object-group NAME eq 80      <- what the example promises
but the entry renders "... udp ... eq bgp ... eq www": "bgp" and "www" are TCP names, UDP has no
name for 179 and 80, and Ace() refuses that text.
"""
import logging
import sys

from cisco_acl import Ace

logging.disable(logging.CRITICAL)
errors = []


def check(tag, ace, src, dst):
    line = ace.line
    try:
        again = Ace(line, platform=ace.platform)
    except ValueError as ex:
        errors.append(f"{tag}: rendered {line!r} is refused by the {ace.platform} parser "
                      f"({str(ex)[:45]}...)")
        return
    if (again.protocol.number, again.srcport.items, again.dstport.items) != (ace.protocol.number, src, dst):
        errors.append(f"{tag}: rendered {line!r} reads back as {again.line!r}")


# 1. the example of the library
ace = Ace("10 permit tcp host 10.0.0.1 range 21 23 10.0.0.0 0.0.0.3 eq 80 443 log", platform="ios")
ace.protocol.name = "udp"
ace.srcport.line = "eq 179"
ace.dstport.ports = [80]
ace.option.line = ""
check("examples_ace.py (tcp -> udp, 179/80)", ace, [179], [80])

# 2. shortest history, by name and by number, every platform
for platform in ["ios", "nxos", "asa"]:
    ace = Ace("permit tcp any eq 179 any eq 80", platform=platform)
    ace.protocol.number = 17
    check(f"{platform}: tcp eq bgp/www -> protocol.number = 17", ace, [179], [80])

    ace = Ace("permit udp any eq 69 any eq 161", platform=platform)
    ace.protocol.line = "tcp"
    check(f"{platform}: udp eq tftp/snmp -> protocol.line = 'tcp'", ace, [69], [161])

# 3. a number with a name in both tables is spelled with the wrong one: tcp/514 cmd, udp/514 syslog
ace = Ace("permit tcp any any eq 514", platform="nxos")  # nxos: tcp has no "syslog"
ace.protocol.name = "udp"
check("nxos: tcp eq cmd -> udp", ace, [], [514])

if errors:
    print("FAIL")
    for error in errors:
        print(" -", error)
    sys.exit(1)
print("PASS")
