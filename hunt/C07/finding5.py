"""C07 finding 5: acls(config, max_ncwb=N) does not apply N to the address groups of the configuration.

Statement clause: "for entries that reference an address group defined in the configuration - exactly
that group's member networks"; `max_ncwb` is a documented parameter of acls() (README: "Max count of
non-contiguous wildcard bits"), honoured by addrgroups() for the same configuration.
"""
import logging
import sys

from cisco_acl import acls, addrgroups

logging.disable(logging.CRITICAL)

# wildcard 1.255.255.1 has 17 non-contiguous bits, the default limit is 16
CONFIG = """
object-group ip address GROUP1
  10 10.0.0.0 1.255.255.1
ip access-list ACL1
  10 permit ip addrgroup GROUP1 any
  20 permit ip 10.0.0.0 1.255.255.1 any
interface Ethernet1/1
  ip access-group ACL1 in
"""


def main() -> int:
    groups = addrgroups(CONFIG, platform="nxos", max_ncwb=17)
    assert [o.items[0].wildcard for o in groups] == ["10.0.0.0 1.255.255.1"]
    try:
        acls_ = acls(CONFIG, platform="nxos", max_ncwb=17)
    except Exception as ex:  # pylint: disable=broad-except
        print(f"FAIL: acls(config, platform='nxos', max_ncwb=17) raised {type(ex).__name__}: {ex}\n"
              "      the limit given by the user is applied to the ACE in line 20 but not to the member of GROUP1\n"
              "      (addrgroups(config, platform='nxos', max_ncwb=17) returns the group)")
        return 1
    addr_o = acls_[0].items[0].srcaddr
    members = [o.line for o in addr_o.items]
    if members != ["10.0.0.0 1.255.255.1"] or [o.max_ncwb for o in addr_o.items] != [17]:
        print(f"FAIL: {members=} max_ncwb={[o.max_ncwb for o in addr_o.items]}")
        return 1
    print("PASS")
    return 0


if __name__ == "__main__":
    sys.exit(main())
