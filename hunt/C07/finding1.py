"""C07 finding 1: an ACE that references an address group with a nested group (group-object).

Statement clause: "for entries that reference an address group defined in the configuration -
exactly that group's member networks (IOS group members are read as subnet masks, ACE addresses
as wildcards)".  (The task explicitly quantifies over nested address groups.)
"""
import logging
import sys

from cisco_acl import acls

logging.disable(logging.CRITICAL)

CONFIG = """
object-group network INNER
 host 10.1.1.1
 10.2.0.0 255.255.0.0
object-group network OUTER
 10.0.0.0 255.255.255.0
 group-object INNER
ip access-list extended ACL1
 permit ip object-group OUTER any
 permit ip any object-group INNER
interface Ethernet1
 ip access-group ACL1 in
"""
EXPECTED_OUTER = ["10.0.0.0/24", "10.1.1.1/32", "10.2.0.0/16"]
EXPECTED_INNER = ["10.1.1.1/32", "10.2.0.0/16"]


def main() -> int:
    try:
        acls_ = acls(CONFIG, platform="ios")
    except Exception as ex:  # pylint: disable=broad-except
        print(f"FAIL: acls() raised {type(ex).__name__}: {ex}\n"
              "      for a configuration where group OUTER nests group INNER (group-object INNER);\n"
              f"      expected the members of OUTER to be {EXPECTED_OUTER}")
        return 1
    if len(acls_) != 1:
        print(f"FAIL: expected 1 ACL, got {len(acls_)}")
        return 1
    ace_outer, ace_inner = acls_[0].items
    outer = sorted(ace_outer.srcaddr.prefixes())
    inner = sorted(ace_inner.dstaddr.prefixes())
    wildcards = [o.line for o in ace_outer.srcaddr.items]
    if outer != EXPECTED_OUTER or inner != EXPECTED_INNER:
        print(f"FAIL: members OUTER={outer} expected {EXPECTED_OUTER}; INNER={inner} expected {EXPECTED_INNER}")
        return 1
    if "10.0.0.0 0.0.0.255" not in wildcards or "10.2.0.0 0.0.255.255" not in wildcards:
        print(f"FAIL: members are not rendered as ACE wildcards: {wildcards}")
        return 1
    print("PASS")
    return 0


if __name__ == "__main__":
    sys.exit(main())
