"""C07 finding 2: the text "ip access-group" in an unrelated section / line aborts acls().

Statement clause: "Unrelated sections, comment lines and the indentation width do not change the result".
"""
import logging
import sys

from cisco_acl import acls

logging.disable(logging.CRITICAL)

BASE = """
ip access-list extended ACL1
 permit ip any any
interface Ethernet1
 ip access-group ACL1 in
interface Ethernet2
 ip access-group ACL1 out
"""
# unrelated sections / lines that only mention the words "ip access-group"
NOISE_D = {
    "interface template (IOS-XE `template`)": "template TEMPLATE1\n ip access-group ACL1 in\n",
    "description of an unrelated interface": "interface Ethernet3\n description old ip access-group ACL1 removed\n",
    "banner text": "banner motd ^C\n do not remove ip access-group from uplinks\n^C\n",
}


def summary(config: str) -> list:
    return [(o.name, o.type, [i.line for i in o.items], o.input, o.output) for o in acls(config)]


def main() -> int:
    expected = summary(BASE)
    failed = []
    for title, noise in NOISE_D.items():
        for config in (noise + BASE, BASE + noise):
            try:
                result = summary(config)
            except Exception as ex:  # pylint: disable=broad-except
                failed.append(f"{title}: acls() raised {type(ex).__name__}: {ex}")
                break
            if result != expected:
                failed.append(f"{title}: {result=} {expected=}")
                break
    if failed:
        print("FAIL: an unrelated section changes the result of acls()")
        for line in failed:
            print("  -", line)
        return 1
    print("PASS")
    return 0


if __name__ == "__main__":
    sys.exit(main())
