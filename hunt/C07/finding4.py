"""C07 finding 4: one line that is not an address in ANY object-group section aborts acls()/addrgroups().

Statement clause: "Unrelated sections, comment lines and the indentation width do not change the result".
"""
import logging
import sys

from cisco_acl import acls, addrgroups

logging.disable(logging.CRITICAL)

BASE = """
object-group network GROUP1
 host 10.0.0.1
 10.1.0.0 255.255.0.0
ip access-list extended ACL1
 permit ip object-group GROUP1 any
interface Ethernet1
 ip access-group ACL1 in
"""
NOISE_D = {
    # group that no ACE references, with a member form that IOS has and the library does not know
    "unrelated (not referenced) group with a 'range' member":
        "object-group network UNRELATED\n range 10.9.0.1 10.9.0.9\n host 10.9.0.10\n",
    # indented comment line inside the referenced group
    "comment line inside the group section":
        "object-group network GROUP1\n ! first site\n",
}


def summary(config: str) -> list:
    result = []
    for acl_o in acls(config):
        members = [o.srcaddr.prefixes() for o in acl_o.items]
        result.append((acl_o.name, acl_o.type, [o.line for o in acl_o.items], members, acl_o.input, acl_o.output))
    return result


def main() -> int:
    expected = summary(BASE)
    assert expected[0][3] == [["10.0.0.1/32", "10.1.0.0/16"]], expected
    failed = []
    for title, noise in NOISE_D.items():
        config = noise + BASE
        try:
            result = summary(config)
            if result != expected:
                failed.append(f"{title}: acls() {result=} {expected=}")
        except Exception as ex:  # pylint: disable=broad-except
            failed.append(f"{title}: acls() raised {type(ex).__name__}: {ex}")
        try:
            names = [o.name for o in addrgroups(config)]
            if "GROUP1" not in names:
                failed.append(f"{title}: addrgroups() {names=}")
        except Exception as ex:  # pylint: disable=broad-except
            failed.append(f"{title}: addrgroups() raised {type(ex).__name__}: {ex}")
    if failed:
        print("FAIL: a line that is not an address in an object-group section changes the result")
        for line in failed:
            print("  -", line)
        return 1
    print("PASS")
    return 0


if __name__ == "__main__":
    sys.exit(main())
