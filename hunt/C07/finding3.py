"""C07 finding 3: an access list without entries is not returned by acls().

Statement clause: "From a device configuration the config-level functions return every access list
exactly once with its name, type, ... the interfaces where it is applied inbound and outbound".
"""
import logging
import sys

from cisco_acl import acls

logging.disable(logging.CRITICAL)

IOS = """
hostname R1
ip access-list extended EMPTY1
ip access-list standard EMPTY2
ip access-list extended ACL3
 permit ip any any
interface Ethernet1
 ip access-group EMPTY1 in
 ip access-group ACL3 out
ip access-list logging interval 10
ip access-list extended EMPTY4
"""
IOS_EXPECTED = [
    ("EMPTY1", "extended", [], ["interface Ethernet1"], []),
    ("EMPTY2", "standard", [], [], []),
    ("ACL3", "extended", ["permit ip any any"], [], ["interface Ethernet1"]),
    ("EMPTY4", "extended", [], [], []),
]
NXOS = """
hostname N1
ip access-list EMPTY1
ip access-list ACL2
  10 permit ip any any
ip access-list match-local-traffic
interface Ethernet1/1
  ip access-group EMPTY1 in
"""
NXOS_EXPECTED = [
    ("EMPTY1", "extended", [], ["interface Ethernet1/1"], []),
    ("ACL2", "extended", ["10 permit ip any any"], [], []),
]


def summary(config: str, platform: str) -> list:
    acls_ = acls(config, platform=platform)
    return [(o.name, o.type, [i.line for i in o.items], o.input, o.output) for o in acls_]


def main() -> int:
    failed = []
    for platform, config, expected in [("ios", IOS, IOS_EXPECTED), ("nxos", NXOS, NXOS_EXPECTED)]:
        try:
            result = summary(config, platform)
        except Exception as ex:  # pylint: disable=broad-except
            failed.append(f"{platform}: {type(ex).__name__}: {ex}")
            continue
        if sorted(result) != sorted(expected):
            names = [t[0] for t in result]
            missing = [t[0] for t in expected if t[0] not in names]
            failed.append(f"{platform}: returned ACLs {names}, missing {missing}")
    if failed:
        print("FAIL: access lists without entries (bound to an interface or not) are not returned")
        for line in failed:
            print("  -", line)
        return 1
    print("PASS")
    return 0


if __name__ == "__main__":
    sys.exit(main())
