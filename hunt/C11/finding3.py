"""Finding 3: Acl.shading()/shadow_of() are computed on a copy of the ACL that is re-rendered with the
ACL's own port_nr/protocol_nr/platform; when an ACE of the ACL renders differently (its own
port_nr / protocol_nr, or an Ace object handed over in items=), the report names entries that are not
in the ACL and does not name the ACE that is shadowed."""
import sys
from cisco_acl import Ace, Acl


def check(name, acl):
    own = [o.line for o in acl.items if isinstance(o, Ace)]  # the entries, as acl.line shows them
    # expected by the statement, with the library's own pairwise answers
    expected = {}
    listed = set()
    aces = [o for o in acl.items if isinstance(o, Ace)]
    for j, bottom in enumerate(aces):
        for top in aces[:j]:
            if bottom.shadow_of(top):
                if bottom.line not in listed:
                    expected.setdefault(top.line, []).append(bottom.line)
                listed.add(bottom.line)
                break
    got = acl.shading()
    flat = list(got) + [s for ls in got.values() for s in ls]
    foreign = [s for s in flat if s not in own]
    if got != expected or foreign or acl.shadow_of() != [s for ls in expected.values() for s in ls]:
        return [f"{name}:\n    entries of the ACL: {own}\n    expected report   : {expected}\n"
                f"    Acl.shading()     : {got}\n    Acl.shadow_of()   : {acl.shadow_of()}\n"
                f"    not entries of this ACL: {foreign}"]
    return []


fails = []

# 1. public setter Ace.port_nr on the entries of an ACL
acl = Acl("ip access-list extended A\n permit tcp any any eq 80\n permit tcp host 10.0.0.1 any eq 80\n permit udp any any")
for ace in acl.items:
    ace.port_nr = True
fails += check("Ace.port_nr = True", acl)

# 2. public setter Ace.protocol_nr
acl = Acl("ip access-list extended A\n permit tcp any any\n permit tcp host 10.0.0.1 any")
for ace in acl.items:
    ace.protocol_nr = True
fails += check("Ace.protocol_nr = True", acl)

# 3. Ace objects in items=
acl = Acl(name="A", items=[Ace("permit tcp any any eq 80", port_nr=True), Ace("permit tcp host 10.0.0.1 any eq 80", port_nr=True)])
fails += check("items=[Ace(port_nr=True), ...]", acl)

# 4. ios Ace objects in an nxos ACL
acl = Acl(name="A", platform="nxos", items=[Ace("permit ip 10.0.0.0 0.0.0.255 any"), Ace("permit ip host 10.0.0.1 any")])
fails += check("items=[Ace(platform='ios'), ...] in Acl(platform='nxos')", acl)

if fails:
    print("FAIL: the report lists text that is no entry of the ACL and omits the shadowed entry")
    for s in fails:
        print("  " + s)
    sys.exit(1)
print("PASS")
