"""Finding 2: an entry without a port operator (every port) is never reported in the shadow of
an entry whose port operator covers every port the library knows ('range 1 65535')."""
import sys
from cisco_acl import Ace, Acl

fails = []
for platform in ("ios", "nxos", "asa"):
    for proto in ("tcp", "udp"):
        for tmpl_top, tmpl_bot in [
            ("permit {p} any range 1 65535 any", "permit {p} any any"),
            ("permit {p} any any range 1 65535", "permit {p} any any"),
            ("permit {p} any range 1 65535 any range 1 65535", "permit {p} host 10.0.0.1 any"),
            ("permit {p} any any range 1 65535", "permit {p} any eq 80 any"),
        ]:
            top = Ace(tmpl_top.format(p=proto), platform=platform)
            bottom = Ace(tmpl_bot.format(p=proto), platform=platform)
            # the port set of `top` is the whole universe of the library (what 'neq N' is cut from)
            universe = set(Ace(f"permit {proto} any any neq 1", platform=platform).dstport.ports) | {1}
            for port_o in (top.srcport, top.dstport):
                if port_o.operator:
                    assert set(port_o.ports) == universe
            # control: every restricted bottom is (correctly) reported
            ctrl = Ace(f"permit {proto} any neq 7 any neq 7", platform=platform)
            assert ctrl.shadow_of(top) is True
            got = bottom.shadow_of(top)
            acl = Acl(name="A", items=[top.line, bottom.line], platform=platform)
            listed = bottom.line in acl.shadow_of()
            if not (got and listed):
                fails.append(f"{platform}: top={top.line!r} bottom={bottom.line!r} Ace.shadow_of={got} listed by Acl.shadow_of()={listed}")

if fails:
    print("FAIL: same action, bottom's packet set is contained in top's (top's ports are all 65535 ports), but no shadow is reported")
    for s in fails:
        print("  " + s)
    sys.exit(1)
print("PASS")
