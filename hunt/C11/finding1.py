"""Finding 1: port operands given with a protocol other than tcp/udp are dropped from the
entry text but still decide Ace.shadow_of(): two entries with the same text (same packet set)
are reported as NOT shadowing each other, and Ace-level and ACL-level answers disagree."""
import sys
from cisco_acl import Ace, Acl

fails = []
for platform in ("ios", "nxos", "asa"):
    for proto in ("icmp", "gre", "47", "ospf"):
        try:
            top = Ace(f"permit {proto} any any eq 80", platform=platform)
        except ValueError:
            continue  # rejecting ports without tcp/udp would be a legitimate repair too
        bottom = Ace(f"permit {proto} any any", platform=platform)
        same_text = top.line == bottom.line
        # the entry the library itself renders (and re-reads) for `top`
        top_reread = Ace(top.line, platform=platform)
        pair = bottom.shadow_of(top)
        pair_reread = bottom.shadow_of(top_reread)
        acl = Acl(name="A", items=[top, bottom], platform=platform)
        in_report = bottom.line in acl.shadow_of()
        if same_text and not (pair is True and pair == pair_reread == in_report):
            fails.append(
                f"{platform}: top={top.line!r} (built from 'permit {proto} any any eq 80') "
                f"bottom={bottom.line!r}: Ace.shadow_of={pair}, with top re-read from its own line={pair_reread}, "
                f"listed by Acl.shadow_of()={in_report}"
            )

if fails:
    print("FAIL: entries with identical text (identical packet set, same action) are not reported as shadowed")
    for s in fails:
        print("  " + s)
    sys.exit(1)
print("PASS")
