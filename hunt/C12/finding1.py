"""C12 finding 1: a group remark whose text repeats an earlier group remark is dropped
without any trace and the entries that follow it are moved in front of earlier lines,
when an ACL is built from text with `group_by`."""
import logging
import sys

from cisco_acl import Acl, AceGroup, acls


class Collect(logging.Handler):
    def __init__(self):
        super().__init__(level=0)
        self.records = []

    def emit(self, record):
        self.records.append(record)


handler = Collect()
logging.getLogger().addHandler(handler)
logging.getLogger().setLevel(0)

BODY = [
    "remark === A",
    "permit tcp any any eq 1",
    "remark === B",
    "permit tcp any any eq 2",
    "remark === A",
    "permit tcp any any eq 3",
]
HEADER = {"ios": "ip access-list extended NAME", "nxos": "ip access-list NAME"}


def flat(items):
    for item in items:
        if isinstance(item, AceGroup):
            yield from flat(item.items)
        else:
            yield item


problems = []
for platform in ("ios", "nxos"):
    text = "\n".join([HEADER[platform], *[f"  {s}" for s in BODY]])

    # every single body line is valid on its own: one item, no log record
    for line in BODY:
        handler.records.clear()
        one = Acl(f"{HEADER[platform]}\n  {line}", platform=platform, group_by="=== ")
        assert [o.line for o in flat(one.items)] == [line], line
        assert not handler.records, line

    builders = {
        "Acl(text, group_by='=== ')": lambda: Acl(text, platform=platform, group_by="=== "),
        "acls(config, group_by='=== ')[0]": lambda: acls(text, platform=platform, group_by="=== ")[0],
    }
    for title, build in builders.items():
        handler.records.clear()
        acl = build()
        got = [o.line for o in flat(acl.items)]
        reported = [r.getMessage() for r in handler.records]
        if got != BODY:
            lost = [s for s in BODY if BODY.count(s) > got.count(s)]
            problems.append(
                f"{platform}: {title}\n"
                f"    body lines : {BODY}\n"
                f"    items      : {got}\n"
                f"    lost lines : {sorted(set(lost))}  log records: {reported}"
            )

if problems:
    print("FAIL: valid body lines are dropped without a log record and item order differs from line order")
    print("\n".join(problems))
    sys.exit(1)
print("PASS")
