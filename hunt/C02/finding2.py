"""C02 finding 2: a numbered multi-port entry is split into entries that all carry ITS number.

ios -> nxos turns "10 permit tcp any any eq 80 443" into two lines that both start with "10".
A sequence number identifies one entry of an ACL: a device (IOS and NX-OS alike) refuses the
second line ("Duplicate sequence number"), so the text that is produced is not a valid NX-OS
ACL and, when it is applied, the entry for port 443 is lost.
"""
import logging
import sys
from collections import Counter

from cisco_acl import Acl

logging.disable(logging.CRITICAL)

IOS = """ip access-list extended A
  10 permit tcp any any eq 80 443
  20 deny tcp any any
"""


def numbers(acl):
    items = []
    for item in acl.items:
        items.extend(getattr(item, "items", None) or [item])
    return [o.sequence for o in items if o.sequence]


errors = []
for kwargs in [dict(), dict(group_by="== ")]:
    acl = Acl(IOS, **kwargs)
    acl.platform = "nxos"
    dupl = {n: c for n, c in Counter(numbers(acl)).items() if c > 1}
    if dupl:
        errors.append(f"Acl({kwargs}) after platform='nxos': sequence numbers used more than once "
                      f"{dupl}\n{acl.line}")
        continue
    nums = numbers(acl)
    if nums != sorted(nums):
        errors.append(f"Acl({kwargs}): numbers are not ascending {nums}\n{acl.line}")

if errors:
    print("FAIL: the NX-OS text has several entries under one sequence number")
    for error in errors:
        print(error)
    sys.exit(1)
print("PASS")
