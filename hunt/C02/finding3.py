"""C02 finding 3: a REJECTED platform change is not rolled back - the object is left half converted.

The setters store the new platform first and convert the parts afterwards. When one part cannot be
converted (documented ValueError) the object keeps the new platform name together with text that
is not valid there; some members are converted, others are not.
"""
import logging
import sys

from cisco_acl import Ace, AddrGroup, AddressAg

logging.disable(logging.CRITICAL)
errors = []


def rejected(obj, platform):
    try:
        obj.platform = platform
    except ValueError:
        return True
    return False


# 1) address group, NX-OS member with a non-contiguous wildcard has no IOS spelling
NXOS = "object-group ip address G\n  10 host 1.1.1.1\n  20 10.0.0.0 0.0.1.3\n  30 10.0.0.0/24"
group = AddrGroup(NXOS, platform="nxos")
if rejected(group, "ios"):
    state = (group.platform, group.line, [o.platform for o in group.items])
    expected = ("nxos", NXOS, ["nxos", "nxos", "nxos"])
    if state != expected:
        errors.append(f"AddrGroup after the rejected change: {state}\n      expected {expected}")

# 2) the member on its own
addr = AddressAg("20 10.0.0.0 0.0.1.3", platform="nxos")
if rejected(addr, "ios"):
    state = (addr.platform, addr.line)
    expected = ("nxos", "20 10.0.0.0 0.0.1.3")
    if state != expected:
        errors.append(f"AddressAg after the rejected change: {state}, expected {expected}")

# 3) single ACE with several ports (must be split first), the refusal leaves an "nxos" ACE
#    with IOS-only syntax, which cannot even be split any more
ace = Ace("10 permit tcp 10.0.0.0 0.0.0.255 any eq 80 443")
if rejected(ace, "nxos"):
    state = (ace.platform, ace.line, ace.srcaddr.platform, ace.dstport.platform)
    expected = ("ios", "10 permit tcp 10.0.0.0 0.0.0.255 any eq www 443", "ios", "ios")
    if state != expected:
        errors.append(f"Ace after the rejected change: {state}\n      expected {expected}")
    try:
        lines = [o.line for o in ace.ungroup_ports()]
        if len(lines) != 2:
            errors.append(f"Ace.ungroup_ports() after the rejected change: {lines}")
    except ValueError as ex:
        errors.append(f"Ace.ungroup_ports() after the rejected change raised ValueError: {ex}")

if errors:
    print("FAIL: a refused conversion leaves a half converted object")
    for error in errors:
        print("  -", error)
    sys.exit(1)
print("PASS")
