"""C02 finding 1: a block (AceGroup) with more than one entry cannot be converted ios -> nxos.

AceGroup.platform (also reached from Acl.platform for every grouped ACL) stamps the new
platform on all entries before it has converted them, so the 2nd and later entries are
re-parsed as NX-OS text while their fields are still spelled for IOS.
"""
import logging
import sys

from cisco_acl import Ace, Acl, AceGroup

logging.disable(logging.CRITICAL)
errors = []


def check(title, build, expected_line):
    obj = build()
    try:
        obj.platform = "nxos"
    except Exception as ex:  # pylint: disable=broad-except
        errors.append(f"{title}: platform='nxos' raised {type(ex).__name__}: {ex}\n"
                      f"      object left as platform={obj.platform!r} line={obj.line!r}")
        return
    if obj.line != expected_line:
        errors.append(f"{title}: line={obj.line!r}, expected {expected_line!r}")
        return
    # there and back and there again
    obj.platform = "ios"
    obj.platform = "nxos"
    if obj.line != expected_line:
        errors.append(f"{title}: round trip line={obj.line!r}, expected {expected_line!r}")


# 1) grouped ACL, heading remark + an entry that refers to an address group
check(
    "grouped Acl with object-group",
    lambda: Acl("ip access-list extended A\n"
                " remark == web\n"
                " permit ip object-group G any\n", group_by="== "),
    "ip access-list A\n  remark == web\n  permit ip addrgroup G any",
)
# 2) the same ACL not grouped is converted (control, passes on the current code)
check(
    "flat Acl with object-group (control)",
    lambda: Acl("ip access-list extended A\n"
                " remark == web\n"
                " permit ip object-group G any\n"),
    "ip access-list A\n  remark == web\n  permit ip addrgroup G any",
)
# 3) standalone AceGroup, 2nd entry uses a port name that only IOS knows (tcp 135)
check(
    "AceGroup with IOS-only port name",
    lambda: AceGroup("permit ip any any\npermit tcp any any eq msrpc"),
    "permit ip any any\npermit tcp any any eq 135",
)
# 4) standalone AceGroup, 2nd entry with an address group
check(
    "AceGroup with object-group in 2nd entry",
    lambda: AceGroup("10 permit ip 10.0.0.0 0.0.0.255 any\n20 deny ip object-group G any"),
    "10 permit ip 10.0.0.0/24 any\n20 deny ip addrgroup G any",
)
# 5) Acl made of an AceGroup object (no group_by)
check(
    "Acl(items=[AceGroup])",
    lambda: Acl(name="A", items=[AceGroup(items=[Ace("permit icmp any any"),
                                                 Ace("permit udp object-group G any eq ripv6")])]),
    "ip access-list A\n  permit icmp any any\n  permit udp addrgroup G any eq 521",
)

if errors:
    print("FAIL: ios -> nxos conversion of a block with several entries is rejected")
    for error in errors:
        print("  -", error)
    sys.exit(1)
print("PASS")
