"""finding4: port conditions of an entry whose protocol is not tcp/udp are silently dropped
from the rendered line (the entry matches more packets than the text that was read).

Clause: "... the parsed entry's ... source/destination port sets ... equal the Cisco meaning of the
input text. The line the library renders for that entry ... matches exactly the same packets with
the same action." / "any accepted spelling (port/protocol names or numbers ...)".
`permit sctp any any eq 80` is a valid entry (NX-OS, IOS-XE); `permit ip any any eq 1` is refused with
ValueError, the same protocol spelled `0` is accepted and the ports vanish.
PASS = the ports are kept in the rendered line, or the line is refused (ValueError): never widened.
"""
import sys
from cisco_acl import Ace

CASES = [
    ("nxos", "permit sctp any any eq 80"),
    ("nxos", "10 deny 132 any range 1 1023 10.0.0.0/8"),
    ("ios", "deny sctp any host 10.0.0.1 eq 2905"),
    ("ios", "permit 0 any any eq 1"),  # "permit ip any any eq 1" raises ValueError
    ("ios", "permit icmp any eq 5 any"),
]
errors = []
for platform, line in CASES:
    try:
        ace = Ace(line, platform=platform)
    except ValueError:
        continue  # refused: nothing is widened
    ports_in = [s for s in line.split() if s in ("eq", "range")]
    ports_out = [s for s in ace.line.split() if s in ("eq", "range")]
    if ports_in != ports_out:
        errors.append(f"{platform} {line!r} -> {ace.line!r} "
                      f"(fields: srcport={ace.srcport.sport!r} dstport={ace.dstport.sport!r})")

# tcp/udp spelled as numbers keep working
assert Ace("permit 6 any any eq 80").line == "permit tcp any any eq www"
assert Ace("permit 17 any eq 53 any", platform="nxos").line == "permit udp any eq domain any"

if errors:
    print("FAIL: the port condition is accepted, kept in the fields and dropped from the rendered line:")
    for error in errors:
        print("  -", error)
    sys.exit(1)
print("PASS")
