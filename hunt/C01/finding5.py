"""finding5: with protocol_nr=True an entry that carries protocol-specific tokens (tcp flags,
"established", icmp/igmp message names) is rendered with the protocol NUMBER.

Clause: "The line the library renders for that entry, read by an independent reader of Cisco syntax,
matches exactly the same packets with the same action. This holds ... for every setting of the
names-as-numbers switches."
In the Cisco grammar (IOS and NX-OS command references) a numbered protocol takes only the general
options; ports, tcp flags / established and icmp / igmp messages exist only behind the keywords
tcp, udp, icmp, igmp.  The library knows that for ports (Protocol.has_port keeps "tcp" in
"permit tcp any any eq 80" when protocol_nr=True) but not for the other protocol-specific tokens.
"""
import sys
from cisco_acl import Ace

GENERAL = {"dscp", "fragments", "log", "log-input", "option", "precedence", "time-range", "tos", "ttl",
           "packet-length"}
CASES = [
    ("ios", "permit tcp any any established"),
    ("ios", "permit tcp any host 10.0.0.1 ack rst log"),
    ("ios", "deny icmp any any echo"),
    ("ios", "permit igmp any any host-query"),
    ("nxos", "permit tcp any any established"),
    ("nxos", "10 permit icmp 10.0.0.0/8 any echo-reply"),
]
errors = []
for platform, line in CASES:
    for setter in (False, True):
        if setter:
            ace = Ace(line, platform=platform)
            ace.protocol_nr = True
        else:
            ace = Ace(line, platform=platform, protocol_nr=True)
        items = ace.line.split()
        if items[0].isdigit():
            items = items[1:]
        protocol = items[1]
        specific = [s for s in ace.option.flags if s not in GENERAL]
        if protocol.isdigit() and specific:
            errors.append(f"{platform} {line!r} -> {ace.line!r}: protocol-specific {specific} "
                          f"behind the numbered protocol {protocol}")

# the switch still works where a number is readable
assert Ace("permit tcp any any", protocol_nr=True).line == "permit 6 any any"
assert Ace("permit icmp any any log", protocol_nr=True).line == "permit 1 any any log"
assert Ace("permit tcp any any eq 80", protocol_nr=True).line == "permit tcp any any eq www"

if errors:
    print("FAIL: rendered line is not readable as Cisco syntax (numbered protocol + tcp/icmp/igmp tokens):")
    for error in sorted(set(errors)):
        print("  -", error)
    sys.exit(1)
print("PASS")
