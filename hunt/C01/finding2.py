"""finding2: after the documented edits of an entry's field objects the rendered line no longer
says what the fields say (ports named from the table of the OLD protocol, or not rendered at all).

Clause: "The line the library renders for that entry, read by an independent reader of Cisco syntax,
matches exactly the same packets with the same action."  (for every object history)
The histories are the ones of examples/examples_ace.py and examples/functions_acls.py.
"""
import sys
from cisco_acl import Ace


def check(title, ace, errors):
    """Rendered line must read back to the same protocol and the same port sets as the fields."""
    want = (ace.protocol.number, ace.srcport.sport, ace.dstport.sport)
    line = ace.line
    try:
        back = Ace(line, platform=ace.platform)
    except Exception as ex:  # pylint: disable=broad-except
        errors.append(f"{title}: rendered {line!r} cannot be read: {type(ex).__name__}: {str(ex)[:70]}")
        return
    got = (back.protocol.number, back.srcport.sport, back.dstport.sport)
    if got != want:
        errors.append(f"{title}: rendered {line!r} reads as (protocol, sports, dports)={got}, "
                      f"fields say {want}")


errors = []

# 1. examples/examples_ace.py (the comment there promises "20 permit udp ... eq 179 ... eq 80")
ace = Ace("10 permit tcp host 10.0.0.1 range 21 23 10.0.0.0 0.0.0.3 eq 80 443 log")
ace.sequence = 20
ace.protocol.name = "udp"
ace.srcport.line = "eq 179"
ace.dstport.ports = [80]
ace.option.line = ""
check("examples_ace.py", ace, errors)

# 2. protocol changed through the field object, 514 is "cmd" for tcp and "syslog" for udp
ace = Ace("permit tcp any any eq 514")
ace.protocol.name = "udp"
check("tcp->udp eq 514", ace, errors)

# 3. ports given to an entry that was parsed without ports
ace = Ace("permit tcp any any")
ace.dstport.line = "eq 80"
check("ports added", ace, errors)

ace = Ace("permit tcp any any", protocol_nr=True, port_nr=True)
ace.srcport.line = "range 1 1023"
check("ports added, numbers", ace, errors)

ace = Ace("permit udp any any", platform="nxos")
ace.dstport.line = "eq 53"
check("ports added, nxos", ace, errors)

if errors:
    print("FAIL: the rendered line does not match the entry's fields after field-object edits:")
    for error in errors:
        print("  -", error)
    sys.exit(1)
print("PASS")
