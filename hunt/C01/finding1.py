"""finding1: a destination address group whose name reads like an address is not accepted.

Clause: "For every valid ACE line in any accepted spelling ... the parsed entry's ... source/destination
address sets ... equal the Cisco meaning of the input text."
The same group name is accepted as SOURCE address, and the Address object itself accepts it.
"""
import sys
from cisco_acl import Ace, Address

CASES = [
    # platform, line, expected (srcaddr.line, srcport.line, dstaddr.line, dstport.line, option.line)
    ("ios", "permit ip any object-group 10.0.0.0/8", ("any", "", "object-group 10.0.0.0/8", "", "")),
    ("ios", "permit ip any object-group any", ("any", "", "object-group any", "", "")),
    ("ios", "permit tcp host 1.1.1.1 eq 80 object-group 10.0.0.0/8 eq 443 log",
     ("host 1.1.1.1", "eq www", "object-group 10.0.0.0/8", "eq 443", "log")),
    ("ios", "permit ip object-group 10.0.0.0/8 object-group 10.0.0.0/8",
     ("object-group 10.0.0.0/8", "", "object-group 10.0.0.0/8", "", "")),
    ("nxos", "10 deny udp 10.0.0.0/24 addrgroup 10.1.0.0/16 eq 53",
     ("10.0.0.0/24", "", "addrgroup 10.1.0.0/16", "eq domain", "")),
    ("nxos", "permit ip any addrgroup any", ("any", "", "addrgroup any", "", "")),
]

errors = []
# the name is accepted by the address object and as a source address
assert Address("object-group 10.0.0.0/8").addrgroup == "10.0.0.0/8"
assert Ace("permit ip object-group 10.0.0.0/8 any").srcaddr.addrgroup == "10.0.0.0/8"
assert Ace("permit ip object-group any any").srcaddr.addrgroup == "any"

for platform, line, req in CASES:
    try:
        ace = Ace(line, platform=platform)
    except Exception as ex:  # pylint: disable=broad-except
        errors.append(f"{platform} {line!r}: {type(ex).__name__}: {str(ex)[:90]}")
        continue
    got = (ace.srcaddr.line, ace.srcport.line, ace.dstaddr.line, ace.dstport.line, ace.option.line)
    if got != req:
        errors.append(f"{platform} {line!r}: parsed {got}, expected {req}")
    elif Ace(ace.line, platform=platform).line != ace.line:
        errors.append(f"{platform} {line!r}: rendered line {ace.line!r} is not stable")

if errors:
    print("FAIL: a valid entry whose DESTINATION group is named like an address is rejected/misread,")
    print("      although the same name is accepted as source group:")
    for error in errors:
        print("  -", error)
    sys.exit(1)
print("PASS")
