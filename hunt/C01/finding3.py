"""finding3: valid entries are rejected when an option keyword carries a VALUE that does not start
with a lowercase letter (a number, a name in capitals, +flag / -flag).

Clause: "For every valid ACE line ... the parsed entry's action, protocol number, ... flag tokens
and log keywords equal the Cisco meaning of the input text."
protocol.py itself lists "dscp", "precedence", "tos", "ttl", "time-range", "match-all", "match-any"
as the known options, each of them takes such a value.
"""
import sys
from cisco_acl import Ace

CASES = [
    # platform, line, flags, logs
    ("ios", "permit ip any any time-range WORK_HOURS", ["time-range", "WORK_HOURS"], []),
    ("ios", "10 deny ip any any dscp 46 log", ["dscp", "46"], ["log"]),
    ("ios", "permit tcp any any eq 80 precedence 5", ["precedence", "5"], []),
    ("ios", "permit ip any any tos 4", ["tos", "4"], []),
    ("ios", "permit ip any any ttl eq 1", ["ttl", "eq", "1"], []),
    ("ios", "permit tcp any any match-all +syn -ack", ["match-all", "+syn", "-ack"], []),
    ("nxos", "permit ip any any dscp 46", ["dscp", "46"], []),
    ("nxos", "permit tcp any any eq 22 time-range T1 log", ["time-range", "T1"], ["log"]),
    ("nxos", "permit udp any any packet-length lt 100", ["packet-length", "lt", "100"], []),
]
errors = []
for platform, line, flags, logs in CASES:
    try:
        ace = Ace(line, platform=platform)
    except Exception as ex:  # pylint: disable=broad-except
        errors.append(f"{platform} {line!r}: {type(ex).__name__}: {ex}")
        continue
    if (ace.option.flags, ace.option.logs) != (flags, logs):
        errors.append(f"{platform} {line!r}: flags={ace.option.flags} logs={ace.option.logs}")
    if ace.line.split()[-len(flags + logs):] != line.split()[-len(flags + logs):]:
        errors.append(f"{platform} {line!r}: rendered {ace.line!r}")

# garbage in the keyword position is still refused
for line in ["permit ip any any 1", "permit ip any any 10.0.0.0"]:
    try:
        Ace(line)
        errors.append(f"{line!r} accepted")
    except ValueError:
        pass

if errors:
    print("FAIL: valid entries with option values are not parsed:")
    for error in errors:
        print("  -", error)
    sys.exit(1)
print("PASS")
