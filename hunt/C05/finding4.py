"""Ace.line: a line rejected for its non-contiguous bits is half applied to the entry."""
import sys

from cisco_acl import Ace, Acl

problems = []

# 1) extended entry, over-limit wildcard in the destination
ace = Ace("10 permit tcp host 1.1.1.1 any eq 80", max_ncwb=2)
before = ace.line
try:
    ace.line = "20 deny tcp host 2.2.2.2 10.0.0.0 0.0.7.7 eq 443"  # 0.0.7.7: 3 bits > 2
except ValueError:
    pass
else:
    problems.append("the over-limit line was not rejected")
if ace.line != before:
    problems.append(
        f"Ace: rejected line left a mix of old and new: {ace.line!r} (before: {before!r}); "
        f"it now denies host 2.2.2.2 -> any eq 80, which neither line says"
    )

# 2) the entry lives in an ACL: the ACL changes although the assignment failed
acl = Acl("ip access-list extended A\n permit ip host 1.1.1.1 any", max_ncwb=2)
before = acl.line
try:
    acl.items[0].line = "deny ip host 2.2.2.2 10.0.0.0 0.0.7.7"
except ValueError:
    pass
if acl.line != before:
    problems.append(f"Acl after the rejected assignment: {acl.line!r} (before: {before!r})")

# 3) standard -> extended: the type is switched by the rejected line
ace = Ace("permit host 1.1.1.1", max_ncwb=2)
before = (ace.type, ace.line)
try:
    ace.line = "permit ip 10.0.0.0 0.0.7.7 any"
except ValueError:
    pass
if (ace.type, ace.line) != before:
    problems.append(f"standard Ace after a rejected extended line: {(ace.type, ace.line)!r} "
                    f"(before: {before!r})")

if problems:
    print("FAIL")
    for p in problems:
        print(" -", p)
    sys.exit(1)
print("PASS")
