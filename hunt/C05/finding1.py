"""AddrGroup.line silently drops a member whose wildcard exceeds max_ncwb (no error)."""
import sys
from ipaddress import IPv4Network

from cisco_acl import AddrGroup, Wildcard

LIMIT = 2
TEXT = "object-group ip address X\n 10 host 1.1.1.1\n 20 10.0.0.0 0.0.7.7"  # 0.0.7.7 -> 3 bits
problems = []

# reference: the limit really rejects this mask
try:
    Wildcard("10.0.0.0 0.0.7.7", max_ncwb=LIMIT)
    problems.append("reference: Wildcard accepted 3 non-contiguous bits with max_ncwb=2")
except ValueError:
    pass

# 1) constructor from text
try:
    group = AddrGroup(TEXT, platform="nxos", max_ncwb=LIMIT)
except ValueError:
    pass  # rejected with an error: what the property promises
else:
    nets = [str(o.ipnet) for o in group.items]
    problems.append(
        f"AddrGroup(line=..., max_ncwb={LIMIT}) raised nothing; the over-limit member "
        f"'10.0.0.0 0.0.7.7' was silently dropped, group.line={group.line!r}, members={nets}"
    )

# 2) same text given as items= IS rejected (shows the intended behaviour)
try:
    AddrGroup(name="X", items=["10 host 1.1.1.1", "20 10.0.0.0 0.0.7.7"], platform="nxos",
              max_ncwb=LIMIT)
    problems.append("items= path accepted the over-limit member")
except ValueError:
    pass

# 3) reassigning the line of an existing group
group = AddrGroup("object-group ip address X\n 10 host 1.1.1.1", platform="nxos", max_ncwb=LIMIT)
before = group.line
try:
    group.line = TEXT
except ValueError:
    if group.line != before:
        problems.append(f"rejected reassignment changed the group: {group.line!r}")
else:
    covered = any(IPv4Network("10.0.5.0/29").subnet_of(o.ipnet) for o in group.items if o.ipnet)
    problems.append(
        f"group.line = <text with over-limit member> raised nothing; "
        f"10.0.5.0/29 (matched by the new text) covered by the group: {covered}"
    )

if problems:
    print("FAIL")
    for p in problems:
        print(" -", p)
    sys.exit(1)
print("PASS")
