"""A line rejected for its non-contiguous bits still changes the Address / AddressAg object."""
import sys

from cisco_acl import Address, AddressAg

OVER_LIMIT = "10.0.0.0 0.0.7.7"  # 3 non-contiguous bits, limit below is 2
problems = []


def snap(obj):
    return dict(line=obj.line, type=obj.type, addrgroup=obj.addrgroup, wildcard=obj.wildcard,
                prefixes=obj.prefixes(), sequence=getattr(obj, "sequence", None))


CASES = [
    (Address, "object-group X", "ios", OVER_LIMIT),
    (Address, "host 10.0.0.1", "ios", OVER_LIMIT),
    (Address, "any", "ios", OVER_LIMIT),
    (Address, "addrgroup X", "nxos", OVER_LIMIT),
    (Address, "10.0.0.0/24", "nxos", OVER_LIMIT),
    (AddressAg, "10 host 10.0.0.1", "nxos", "20 " + OVER_LIMIT),
    (AddressAg, "10 10.0.0.0/24", "nxos", "20 " + OVER_LIMIT),
]
for cls, start, platform, new_line in CASES:
    obj = cls(start, platform=platform, max_ncwb=2)
    before = snap(obj)
    try:
        obj.line = new_line
    except ValueError:
        pass
    else:
        problems.append(f"{cls.__name__}({start!r}).line = {new_line!r} was not rejected")
        continue
    after = snap(obj)
    if after != before:
        diff = {k: (before[k], after[k]) for k in before if before[k] != after[k]}
        problems.append(
            f"{cls.__name__}({start!r}, platform={platform!r}, max_ncwb=2): the rejected "
            f"assignment line={new_line!r} changed the object (before, after): {diff}"
        )

if problems:
    print("FAIL")
    for p in problems:
        print(" -", p)
    sys.exit(1)
print("PASS")
