"""ipnets() hands out the internal memo list: using the result changes what later queries say."""
import sys
from ipaddress import IPv4Network

from cisco_acl import Address, Wildcard

problems = []
EXPECTED = [IPv4Network("10.0.0.0/32"), IPv4Network("10.0.1.0/32")]

# 1) combine the prefixes of two addresses - an ordinary thing to do with two lists
src = Address("10.0.0.0 0.0.1.0")
dst = Address("20.0.0.0 0.0.1.0")
both = src.ipnets()
both += dst.ipnets()
if src.ipnets() != EXPECTED:
    problems.append(f"after `both = src.ipnets(); both += dst.ipnets()` src.prefixes() == "
                    f"{src.prefixes()} (extra: the prefixes of dst), src.line == {src.line!r}")
if not src.subnet_of(src.copy()):
    problems.append("src is no longer a subnet of a copy of itself")

# 2) consume the result
wildcard = Wildcard("10.0.0.0 0.0.1.0")
todo = wildcard.ipnets()
while todo:
    todo.pop()
got = wildcard.ipnets()
if got != EXPECTED:
    problems.append(f"after popping the returned list empty: wildcard.ipnets() == {got}")
todo = wildcard.ipnets()
todo.pop()
got = wildcard.ipnets()
if got != EXPECTED:
    problems.append(f"after one pop() on the returned list: wildcard.ipnets() == {got} (missing)")

# 3) a contiguous address does not behave like this (fresh list every time)
net = Address("10.0.0.0 0.0.0.255")
net.ipnets().clear()
if net.ipnets() != [IPv4Network("10.0.0.0/24")]:
    problems.append("contiguous address affected too")

if problems:
    print("FAIL")
    for p in problems:
        print(" -", p)
    sys.exit(1)
print("PASS")
