"""acls(config, max_ncwb=N) checks the members of address groups against 16, not against N."""
import sys

from cisco_acl import acls, addrgroups

problems = []

CFG_3BITS = """
object-group ip address X
  10 10.0.0.0 0.0.7.7
ip access-list A
  10 permit ip addrgroup X any
"""
# the limit is honoured for the same wildcard written in the ACL itself ...
try:
    acls("ip access-list A\n  10 permit ip 10.0.0.0 0.0.7.7 any\n", platform="nxos", max_ncwb=2)
    problems.append("reference: over-limit wildcard in an ACE was accepted")
except ValueError:
    pass
# ... and by addrgroups() for the same group ...
try:
    addrgroups(CFG_3BITS, platform="nxos", max_ncwb=2)
    problems.append("reference: addrgroups() accepted the over-limit member")
except ValueError:
    pass
# ... but not by acls() for the members of the group attached to the ACE
try:
    acl = acls(CFG_3BITS, platform="nxos", max_ncwb=2)[0]
except ValueError:
    pass
else:
    src = acl.items[0].srcaddr
    problems.append(
        f"acls(..., max_ncwb=2) accepted group member '10.0.0.0 0.0.7.7' (3 non-contiguous bits): "
        f"srcaddr.items={src.items}, their max_ncwb={[o.max_ncwb for o in src.items]}, "
        f"{len(src.ipnets())} prefixes derived"
    )

CFG_17BITS = """
object-group ip address X
  10 10.0.0.0 0.255.255.128
ip access-list A
  10 permit ip addrgroup X any
"""
# a raised limit is ignored too: 17 bits are allowed by max_ncwb=20
try:
    addrgroups(CFG_17BITS, platform="nxos", max_ncwb=20)
except ValueError as ex:
    problems.append(f"reference: addrgroups(max_ncwb=20) rejected 17 bits: {ex}")
try:
    acl = acls(CFG_17BITS, platform="nxos", max_ncwb=20)[0]
    limits = [o.max_ncwb for o in acl.items[0].srcaddr.items]
    if limits != [20]:
        problems.append(f"members attached by acls(max_ncwb=20) carry max_ncwb={limits}")
except ValueError as ex:
    problems.append(f"acls(..., max_ncwb=20) rejected a 17-bit member of the group: {ex}")

if problems:
    print("FAIL")
    for p in problems:
        print(" -", p)
    sys.exit(1)
print("PASS")
