"""C08 finding 3: the empty port expression cannot take its own port list / range string back.

Ace("permit tcp any any eq 80").srcport is a Port without operator (items [],
ports [], sport ""). Its own items are accepted back; its own ports and its own
sport raise ValueError("invalid port operator=''").
"""
import sys

from cisco_acl import Ace, Port

errors = []
ace = Ace("permit tcp any any eq 80")
for name, port in [
    ("Port('')", Port("")),
    ("Port('', protocol='tcp')", Port("", protocol="tcp")),
    ("Ace('permit tcp any any eq 80').srcport", ace.srcport),
    ("Ace('permit ip any any').dstport", Ace("permit ip any any").dstport),
]:
    for view in ("items", "ports", "sport"):
        before = (port.line, port.operator, list(port.items), list(port.ports), port.sport)
        try:
            setattr(port, view, getattr(port, view))  # the object's own value
        except ValueError as ex:
            errors.append(f"{name}.{view} = own {view} ({getattr(port, view)!r}): ValueError {ex}")
            continue
        after = (port.line, port.operator, list(port.items), list(port.ports), port.sport)
        if before != after:
            errors.append(f"{name}.{view} = own {view}: {before} -> {after}")
if ace.line != "permit tcp any any eq www":
    errors.append(f"{ace.line=}")

# a port list without an operator is still refused
port = Port("")
try:
    port.ports = [80]
    errors.append(f"Port('').ports = [80] accepted: {port.line=!r} {port.ports=}")
except ValueError:
    pass

if errors:
    print("FAIL: own value of a writable view is rejected")
    for error in errors:
        print("  " + error)
    sys.exit(1)
print("PASS")
