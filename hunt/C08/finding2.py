"""C08 finding 2: a REJECTED Port.line assignment still replaces the operator.

Port.line setter stores the new operator before the operands are validated.
After the documented ValueError the object keeps the old operands and the old
port list under the NEW operator: the port set is not the set of its own text,
and writing the object's own items back to it changes its meaning.
"""
import sys

from cisco_acl import Port
from cisco_acl import helpers as h

ALL = set(range(1, 65535 + 1))
errors = []


def denoted(port):
    """Port set that Cisco defines for the operator and operands of the object."""
    operator, items = port.operator, port.items
    if not operator:
        return set()
    if operator == "eq":
        return set(items)
    if operator == "neq":
        return ALL - set(items)
    if operator == "lt":
        return {i for i in ALL if i < items[0]}
    if operator == "gt":
        return {i for i in ALL if i > items[0]}
    return set(range(min(items), max(items) + 1))


for line, rejected in [
    ("eq 80", "lt 1 2"),  # lt takes one operand
    ("eq 80", "gt 70000"),  # out of 1..65535
    ("eq 80 443", "range 1"),  # range takes two operands
    ("range 7 9", "neq typo"),  # unknown port name
    ("lt 5", "gt"),  # absent operand
]:
    port = Port(line, platform="ios", protocol="tcp", port_nr=True)
    before = (port.line, port.operator, list(port.items), port.sport)
    try:
        port.line = rejected
    except ValueError:
        pass
    else:
        errors.append(f"{rejected!r} was expected to be rejected")
        continue
    after = (port.line, port.operator, list(port.items), port.sport)
    if after != before:
        errors.append(f"Port({line!r}).line = {rejected!r} was rejected, but {before} -> {after}")
    if set(port.ports) != denoted(port):
        errors.append(
            f"  now {port.line!r} has ports {h.ports_to_string(port.ports)!r}, "
            f"Cisco defines {h.ports_to_string(sorted(denoted(port)))!r}"
        )
    sport = port.sport
    try:
        port.items = port.items  # the object's own items
        if port.sport != sport:
            errors.append(f"  then own items written back: sport {sport!r} -> {port.sport!r}")
    except ValueError as ex:
        errors.append(f"  then own items written back: ValueError {ex}")

if errors:
    print("FAIL: a rejected assignment leaves operator and port set out of step")
    for error in errors:
        print("  " + error)
    sys.exit(1)
print("PASS")
