"""C08 finding 1: a repeated operand of eq/neq is kept in items but not in the port views.

Writing an expression's OWN range string (eq, neq) or OWN port list (neq) back
to it drops the repeated operand: the text of the expression changes.
"""
import sys

from cisco_acl import Port
from cisco_acl import helpers as h

errors = []


def state(port):
    return port.line, list(port.items), port.sport, sorted(set(port.ports))


for line, view in [
    ("eq 80 80", "items"),
    ("eq 80 80", "ports"),
    ("eq 80 80", "sport"),
    ("eq 443 80 443", "sport"),
    ("neq 3 3", "items"),
    ("neq 3 3", "ports"),
    ("neq 3 3", "sport"),
    ("neq 5 3 5", "ports"),
]:
    for port_nr in (True, False):
        port = Port(line, platform="ios", protocol="tcp", port_nr=port_nr)
        before = state(port)
        setattr(port, view, getattr(port, view))  # the object's own value
        after = state(port)
        if before != after:
            errors.append(
                f"Port({line!r}, port_nr={port_nr}).{view} = own {view}: "
                f"line {before[0]!r} -> {after[0]!r}, items {before[1]} -> {after[1]}"
            )

# the range string of a one-port set is written as a range "80-80"
port = Port("eq 80 80", platform="ios", protocol="tcp")
if port.sport != h.ports_to_string(sorted(set(port.ports))):
    errors.append(
        f"Port('eq 80 80').sport == {port.sport!r}, the range string of its port set "
        f"{sorted(set(port.ports))} is {h.ports_to_string(sorted(set(port.ports)))!r}"
    )

if errors:
    print("FAIL: self-assignment through a view changes the text of the expression")
    for error in errors:
        print("  " + error)
    sys.exit(1)
print("PASS")
