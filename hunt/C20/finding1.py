"""C20 finding 1: a standard ACE whose tail holds an address keyword renders text that Ace() rejects."""
import logging
import sys

logging.disable(logging.CRITICAL)

from cisco_acl import Ace, aces

ERRORS = (ValueError, TypeError)
failures = []


def check_ace(line, platform):
    """If Ace(line) is returned, Ace(rendered line) must be accepted too."""
    try:
        ace = Ace(line, platform=platform)
    except ERRORS:
        return  # a documented error is fine
    rendered = ace.line
    try:
        Ace(rendered, platform=platform)
    except ERRORS as ex:
        failures.append(
            f"Ace({line!r}, platform={platform!r}) is returned, it renders {rendered!r}, "
            f"but Ace({rendered!r}) raises {type(ex).__name__}: {ex}"
        )


for platform_ in ("ios", "nxos"):
    for line_ in (
        "permit 10.0.0.1 any",
        "permit 10.0.0.1 any log",
        "20 deny 10.0.0.1 log any",
        "permit 10.0.0.1 object-group log",
        "permit 10.0.0.1 addrgroup log",
        # control: must stay accepted and stable
        "permit 10.0.0.1",
        "permit 10.0.0.1 log",
        "permit host 10.0.0.1 log",
    ):
        check_ace(line_, platform_)

# whole-configuration function
config = "ip access-list standard S\n permit 10.0.0.1 any\n deny any log\n"
for ace_o in aces(config, platform="ios"):
    try:
        Ace(ace_o.line, platform="ios")
    except ERRORS as ex_:
        failures.append(f"aces() returned {ace_o.line!r}, Ace() rejects it: {type(ex_).__name__}: {ex_}")

# controls: valid standard ACEs are still parsed
for line_ in ("permit 10.0.0.1", "permit 10.0.0.1 log", "deny any log", "permit 10.0.0.0 0.0.0.255"):
    if Ace(line_).type != "standard":
        failures.append(f"control: {line_!r} is not parsed as a standard ACE any more")

if failures:
    print("FAIL")
    for item in failures:
        print(" -", item)
    sys.exit(1)
print("PASS")
