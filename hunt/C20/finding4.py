"""C20 finding 4: addrgroups() returns an AddrGroup without addresses; its text is rejected by AddrGroup()."""
import logging
import sys

logging.disable(logging.CRITICAL)

from cisco_acl import AddrGroup, addrgroups

ERRORS = (ValueError, TypeError)
failures = []

CONFIGS = {
    "ios": "hostname R1\nobject-group network STAGED\n description filled in later\n"
           "object-group network USED\n description text\n host 10.0.0.1\n",
    "nxos": "hostname N1\nobject-group ip address STAGED\n description filled in later\n"
            "object-group ip address USED\n 10 host 10.0.0.1\n",
}
for platform, config in CONFIGS.items():
    try:
        groups = addrgroups(config, platform=platform)
    except ERRORS:
        continue  # a documented error would be fine
    names = [o.name for o in groups]
    if "USED" not in names:
        failures.append(f"control: {platform}: group USED is not returned, {names=}")
    for group in groups:
        rendered = group.line
        try:
            AddrGroup(rendered, platform=platform)
        except ERRORS as ex:
            failures.append(
                f"addrgroups(platform={platform!r}) returned a group that renders {rendered!r}, "
                f"but AddrGroup({rendered!r}, platform={platform!r}) raises {type(ex).__name__}: {ex}"
            )

if failures:
    print("FAIL")
    for item in failures:
        print(" -", item)
    sys.exit(1)
print("PASS")
