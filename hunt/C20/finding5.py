"""C20 finding 5: Acl("") / whitespace-only text is returned and renders a header that Acl() rejects."""
import logging
import sys

logging.disable(logging.CRITICAL)

from cisco_acl import Acl

ERRORS = (ValueError, TypeError)
failures = []

for platform in ("ios", "nxos"):
    for line in ("", " ", "\n", " \n\t\n "):
        try:
            acl = Acl(line, platform=platform)
        except ERRORS:
            continue  # a documented error for empty input would be fine
        rendered = acl.line
        try:
            Acl(rendered, platform=platform)
        except ERRORS as ex:
            failures.append(
                f"Acl({line!r}, platform={platform!r}) is returned, renders {rendered!r}, "
                f"but Acl({rendered!r}, platform={platform!r}) raises {type(ex).__name__}: {ex}"
            )

# controls
acl = Acl("ip access-list extended NAME\n permit ip any any")
if acl.line != "ip access-list extended NAME\n  permit ip any any":
    failures.append(f"control: named ACL renders {acl.line!r}")
acl = Acl()
acl.line = "ip access-list extended NAME\n permit ip any any"
if acl.line != "ip access-list extended NAME\n  permit ip any any":
    failures.append(f"control: empty Acl() filled by setter renders {acl.line!r}")

if failures:
    print("FAIL")
    for item in failures:
        print(" -", item)
    sys.exit(1)
print("PASS")
