"""C20 finding 3: Remark("") is returned and renders "remark", which Remark() rejects."""
import logging
import sys

logging.disable(logging.CRITICAL)

from cisco_acl import Remark

ERRORS = (ValueError, TypeError)
failures = []

for platform in ("ios", "nxos"):
    for line in ("", " ", "\n", "\t \n"):
        try:
            remark = Remark(line, platform=platform)
        except ERRORS:
            continue  # a documented error for empty input is fine
        rendered = remark.line
        try:
            Remark(rendered, platform=platform)
        except ERRORS as ex:
            failures.append(
                f"Remark({line!r}, platform={platform!r}) is returned, renders {rendered!r}, "
                f"but Remark({rendered!r}) raises {type(ex).__name__}: {ex}"
            )

# controls: the alternate way (text=, data()) still works
if Remark(text="TEXT").line != "remark TEXT":
    failures.append("control: Remark(text='TEXT') is broken")
if Remark(text="TEXT", sequence=10).line != "10 remark TEXT":
    failures.append("control: Remark(text='TEXT', sequence=10) is broken")
obj = Remark("10 remark TEXT")
if Remark(**obj.data()).line != "10 remark TEXT" or obj.copy().line != "10 remark TEXT":
    failures.append("control: Remark(**data) is broken")

if failures:
    print("FAIL")
    for item in failures:
        print(" -", item)
    sys.exit(1)
print("PASS")
