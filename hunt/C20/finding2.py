"""C20 finding 2: AddressAg (ios) "A.B.C.D 0.0.0.0" is returned, renders "0.0.0.0 0.0.0.0", which is denied."""
import logging
import sys

logging.disable(logging.CRITICAL)

from cisco_acl import AddressAg, AddrGroup, addrgroups

ERRORS = (ValueError, TypeError)
failures = []

# constructor
for line in ("10.0.0.1 0.0.0.0", "1.2.3.4 0.0.0.0", "0.255.0.255 0.0.0.0", "0.0.0.0 0.0.0.0", "0.0.0.0/0"):
    try:
        addr = AddressAg(line, platform="ios")
    except ERRORS:
        continue  # documented error ("0.0.0.0 0.0.0.0 is denied for platform ios") is fine
    rendered = addr.line
    try:
        AddressAg(rendered, platform="ios")
    except ERRORS as ex:
        failures.append(
            f"AddressAg({line!r}, platform='ios') is returned, renders {rendered!r}, "
            f"but AddressAg({rendered!r}, platform='ios') raises {type(ex).__name__}: {ex}"
        )

# group built from text
text = "object-group network NAME\n 10.0.0.1 0.0.0.0"
try:
    group = AddrGroup(text, platform="ios")
except ERRORS:
    group = None
if group is not None:
    try:
        AddrGroup(group.line, platform="ios")
    except ERRORS as ex:
        failures.append(
            f"AddrGroup({text!r}) is returned, renders {group.line!r}, "
            f"but AddrGroup() of that text raises {type(ex).__name__}: {ex}"
        )

# whole-configuration function
try:
    groups = addrgroups(text + "\n", platform="ios")
except ERRORS:
    groups = []
for group in groups:
    try:
        AddrGroup(group.line, platform="ios")
    except ERRORS as ex:
        failures.append(f"addrgroups() returned {group.line!r}, AddrGroup() rejects it: {type(ex).__name__}: {ex}")

# controls
if AddressAg("10.0.0.0 255.255.255.0", platform="ios").line != "10.0.0.0 255.255.255.0":
    failures.append("control: subnet is not rendered as before")
if AddressAg("10.0.0.1 255.255.255.255", platform="ios").line != "host 10.0.0.1":
    failures.append("control: host mask is not rendered as before")
if AddressAg("0.0.0.0 0.0.0.0", platform="asa").line != "0.0.0.0 0.0.0.0":
    failures.append("control: asa 0.0.0.0 0.0.0.0 is not accepted as before")

if failures:
    print("FAIL")
    for item in failures:
        print(" -", item)
    sys.exit(1)
print("PASS")
