"""C16 finding 2: Wildcard.copy() / Wildcard(**data()) is never equal to its source.

Wildcard is an exported class with copy() and data() (inherited from Base), but it is the only
exported class that defines neither __eq__ nor __hash__, so two Wildcard objects are compared by
identity: a copy (same line, same data()) is reported as a different object.
"""
import sys

from cisco_acl import Wildcard

failures = []
for line in ["10.0.0.0 0.0.0.255", "10.0.0.0 0.0.3.3", "0.0.0.0 255.255.255.255", "1.1.1.1 0.0.0.0"]:
    for platform in ["ios", "nxos", "asa"]:
        src = Wildcard(line, platform=platform, max_ncwb=4, note="n")
        cop = src.copy()
        reb = Wildcard(**src.data())
        for name, new in (("copy()", cop), ("Wildcard(**data())", reb)):
            same_text_data = new.line == src.line and new.data() == src.data()
            if not same_text_data:
                failures.append(f"{line!r} {platform}: {name} text/data differ")
            if not new == src or new != src:
                failures.append(f"Wildcard({line!r}, platform={platform!r}): {name} has identical line and "
                                f"data() ({same_text_data}) but `new == source` is {new == src}")
            if len({src, new}) != 1:
                failures.append(f"Wildcard({line!r}, platform={platform!r}): {{source, {name}}} has 2 members")
# sanity: different wildcards must stay different
if Wildcard("10.0.0.0 0.0.0.255") == Wildcard("10.0.0.0 0.0.0.127"):
    failures.append("different wildcards compare equal")

if failures:
    print("FAIL: a Wildcard copy is not equal to its source (Wildcard has no __eq__/__hash__)")
    for failure in failures[:6]:
        print(" -", failure)
    print(f"   ... {len(failures)} failures in total")
    sys.exit(1)
print("PASS")
