"""C16 finding 4: Acl.delete_shadow() replaces every object of the ACL, the identifiers are lost.

delete_shadow() is an in-place transformation of the ACL (it removes the ACEs that are in the shadow).
It works on `self.copy()` (copy() exports data without uuid) and then adopts the items of that copy:
`self.items = acl_new.items`.  Every entry that was NOT removed - remarks, ACEs, their
protocol/address/port/option fields and, in a grouped ACL, the AceGroup blocks - gets a new uuid.
(The notes survive, they are part of data().)
"""
import logging
import sys

from cisco_acl import Ace, AceGroup, Acl

logging.disable(logging.CRITICAL)
TEXT = """ip access-list extended A
 remark === web
 permit tcp any any eq 80
 permit tcp host 10.0.0.1 any eq 80
 remark === rest
 permit ip object-group OG any
 deny ip any any
"""
failures = []


def walk(obj, path=""):
    yield path or "acl", obj
    if isinstance(obj, Ace):
        for name in ("protocol", "srcaddr", "srcport", "dstaddr", "dstport", "option"):
            yield from walk(getattr(obj, name), f"{path}.{name}")
    elif isinstance(obj, AceGroup):
        for idx, item in enumerate(obj.items):
            yield from walk(item, f"{path}[{idx}]")
    elif hasattr(obj, "items") and isinstance(obj.items, list):
        for idx, item in enumerate(obj.items):
            if hasattr(item, "uuid"):
                yield from walk(item, f"{path}.items[{idx}]")


for group_by in ("", "=== "):
    acl = Acl(TEXT, group_by=group_by)
    for _, ace in walk(acl):
        if isinstance(ace, Ace) and ace.srcaddr.type == "addrgroup":
            ace.srcaddr.items = ["host 10.0.0.5", "10.0.1.0 0.0.0.255"]
    before = {}
    for idx, (path, obj) in enumerate(walk(acl)):
        obj.note = f"note-{idx}"
        before[obj.uuid] = (path, type(obj).__name__, obj.line.split("\n")[0], obj.note)

    removed = acl.delete_shadow()
    assert removed == {"permit tcp any any eq www": ["permit tcp host 10.0.0.1 any eq www"]}, removed
    removed_lines = {s for ls in removed.values() for s in ls}

    after = {obj.uuid: obj for _, obj in walk(acl)}
    lost = []
    for uuid, (path, cls, line, note) in before.items():
        if cls == "Ace" and line in removed_lines:
            continue  # the deleted ACE
        if uuid not in after:
            lost.append((path, cls, line))
        elif after[uuid].note != note:
            failures.append(f"group_by={group_by!r}: note of {cls} {line!r} changed")
    # fields of the deleted ACE are gone together with it
    deleted_paths = [p for u, (p, c, l, n) in before.items() if c == "Ace" and l in removed_lines]
    lost = [t for t in lost if not any(t[0].startswith(dp + ".") for dp in deleted_paths)]
    if lost:
        total = len(before)
        failures.append(f"group_by={group_by!r}: {len(lost)} of {total} objects that delete_shadow() kept "
                        f"have a new uuid, e.g. {lost[:4]}")

if failures:
    print("FAIL: delete_shadow() does not keep the identifier of the entries it does not delete")
    for failure in failures:
        print(" -", failure)
    sys.exit(1)
print("PASS")
