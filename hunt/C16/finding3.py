"""C16 finding 3: copy() of an ACL without name and without items raises ValueError.

Acl() / Acl(line="\\n") / Acl(platform="nxos") are valid objects (the test suite builds them and
checks their line "ip access-list extended \\n"), but their exported data cannot be rebuilt:
Acl.__init__ parses data()["line"] when `items` is empty, and the parser rejects the heading
without a name that Acl.line itself produced.  shading()/shadow_of()/delete_shadow() use copy()
and fail the same way.
"""
import sys

from cisco_acl import Acl

failures = []


def check(label, make):
    src = make()
    for name, func in (("copy()", lambda: src.copy()), ("Acl(**data())", lambda: Acl(**src.data()))):
        try:
            new = func()
        except Exception as ex:
            failures.append(f"{label}: {name} raised {type(ex).__name__}: {ex}")
            continue
        if new.line != src.line or new.data() != src.data() or new != src:
            failures.append(f"{label}: {name} is not equal: {new.line!r} != {src.line!r}")
    try:
        src.shading()
    except Exception as ex:
        failures.append(f"{label}: shading() raised {type(ex).__name__}: {ex}")


def emptied():
    acl = Acl(items=["permit ip any any"], note="n")
    acl.copy()  # works while the ACL has items
    acl.clear()
    return acl


check("Acl()", Acl)
check("Acl(line='\\n')", lambda: Acl(line="\n"))
check("Acl(platform='nxos')", lambda: Acl(platform="nxos"))
check("Acl(type='standard', indent=' ', input='eth1')", lambda: Acl(type="standard", indent=" ", input="eth1"))
check("Acl(items=[...]); acl.clear()", emptied)
# control: ACL with name and without items is copied
check("Acl(name='A')", lambda: Acl(name="A"))

if failures:
    print("FAIL: an ACL without name and items can not be copied / rebuilt from data()")
    for failure in failures:
        print(" -", failure)
    sys.exit(1)
print("PASS")
