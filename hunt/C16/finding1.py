"""C16 finding 1: a container built from `items=` objects of another platform/type only relabels them.

Acl.items / AceGroup.items (constructor `items=` and the setter) adopt an Ace/Remark/AceGroup object
by assigning item._platform / item._type directly.  The fields of the item (addresses, ports,
protocol) keep the syntax of the old platform/type, so the container renders a text that a rebuild
from its own exported data does not reproduce: copy() and Cls(**obj.data()) are not equal to the source.
"""
import logging
import sys

from cisco_acl import Ace, AceGroup, Acl

logging.disable(logging.CRITICAL)
failures = []


def check(label, obj):
    try:
        cop = obj.copy()
        reb = obj.__class__(**obj.data())
    except Exception as ex:  # copy of an accepted object must not raise
        failures.append(f"{label}: copy()/rebuild raised {type(ex).__name__}: {ex}")
        return
    for name, new in (("copy()", cop), ("rebuild from data()", reb)):
        if new.line != obj.line:
            failures.append(f"{label}: {name} text differs:\n    source: {obj.line!r}\n    new:    {new.line!r}")
        elif new.data() != obj.data():
            src, dst = obj.data(), new.data()
            keys = [k for k in src if src[k] != dst[k]]
            failures.append(f"{label}: {name} text is equal but data() differs in keys {keys}")
        if new != obj:
            failures.append(f"{label}: {name} != source")


# 1. nxos ACL built from an Ace object that was parsed with the default platform (ios)
check("Acl(platform='nxos', items=[Ace(ios wildcard)])",
      Acl(name="A", platform="nxos", items=[Ace("permit ip 10.0.0.0 0.0.0.255 any")]))
# 2. ios ACL built from an nxos Ace object
check("Acl(platform='ios', items=[Ace(nxos prefix)])",
      Acl(name="A", platform="ios", items=[Ace("permit ip 10.0.0.0/24 any", platform="nxos")]))
# 3. the same through the items setter
acl = Acl("ip access-list N\n permit icmp any any", platform="nxos")
acl.items = [*acl.items, Ace("permit ip 10.0.0.0 0.0.0.255 any")]
check("nxos acl.items = [..., Ace(ios wildcard)]", acl)
# 4. AceGroup
check("AceGroup(platform='nxos', items=[Ace(ios wildcard)])",
      AceGroup(platform="nxos", items=[Ace("permit ip 10.0.0.0 0.0.0.255 any")]))
# 5. type: standard ACL built from an extended Ace: text 'permit host 1.1.1.1', data still tcp/eq 80
check("Acl(type='standard', items=[Ace(extended tcp eq 80)])",
      Acl(name="A", type="standard", items=[Ace("permit tcp host 1.1.1.1 any eq 80")]))

if failures:
    print("FAIL: copy()/data() rebuild is not equal to a container that adopted items of another platform/type")
    for failure in failures:
        print(" -", failure)
    sys.exit(1)
print("PASS")
