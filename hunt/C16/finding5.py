"""C16 finding 5: in a grouped ACL with `version`, blocks and their entries can not be copied.

Acl.group() builds every AceGroup block without `version`, the block gets version "0" and its
items setter writes this "0" into every adopted entry (`item.version = self.version`).  The fields of
the entries (ports) still render with the real version, so the text of the ACL is right, but
data() of a block / of an entry exports version "0": copy() and Cls(**obj.data()) at these levels
give another text (well-known port names depend on the version: ios 15 has no name for tcp/135,
version "0" renders "msrpc").
"""
import logging
import sys

from cisco_acl import Acl

logging.disable(logging.CRITICAL)
TEXT = """ip access-list extended A
 remark === G1
 permit tcp any any eq 135
 remark === G2
 permit ip any any
"""
failures = []


def check(label, obj):
    for name, new in (("copy()", obj.copy()), ("rebuild from data()", obj.__class__(**obj.data()))):
        if new.line != obj.line:
            failures.append(f"{label}: {name} text {new.line!r} != source {obj.line!r}")
        elif new.data() != obj.data():
            failures.append(f"{label}: {name} data() differs")
        if new != obj:
            failures.append(f"{label}: {name} != source")


# control: flat ACL, every level is copied
flat = Acl(TEXT, platform="ios", version="15")
assert flat.line.split("\n")[2].strip() == "permit tcp any any eq 135", flat.line
check("flat acl", flat)
check("flat acl.items[1] (Ace)", flat.items[1])

# grouped from the constructor
acl = Acl(TEXT, platform="ios", version="15", group_by="=== ")
assert acl.line == flat.line
check("grouped acl", acl)
block = acl.items[0]
check("grouped acl.items[0] (AceGroup)", block)
check("grouped acl.items[0].items[1] (Ace)", block.items[1])
for obj in (block, block.items[0], block.items[1]):
    if str(obj.version) != "15":
        failures.append(f"{type(obj).__name__} {obj.line.splitlines()[0]!r} in ACL version=15 has version={str(obj.version)!r}")

# group() as in-place transformation of flat ACL: the Ace object is kept, its version is changed
ace = flat.items[1]
flat.group("=== ")
assert flat.items[0].items[1] is ace
check("ace after flat.group()", ace)

if failures:
    print("FAIL: copy()/data() of a block or of an entry of a grouped ACL is not equal to the source")
    for failure in failures:
        print(" -", failure)
    sys.exit(1)
print("PASS")
