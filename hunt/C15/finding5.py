"""C15: grouping entries into blocks by remark prefix never adds or drops an entry.

Input: an ACL in which a heading remark is repeated (two sections with the same heading text).
Acl.group merges the entries of the 2nd section into the block of the 1st one (a reordering the
statement allows for headings that are not distinct) but it also DROPS the repeated heading remark:
the ACL has one entry less, and ungroup() cannot bring it back.
"""
import logging
import sys

logging.disable(logging.CRITICAL)

import cisco_acl  # noqa: E402
from cisco_acl import Acl  # noqa: E402

TEXT = """ip access-list extended NAME
  remark === web
  permit tcp any any eq 80
  remark === dns
  permit udp any any eq 53
  remark === web
  permit tcp any any eq 443
"""


def entries(acl):
    result = []
    for item in acl.items:
        result.extend(item.items if hasattr(item, "items") else [item])
    return sorted(o.line for o in result)


def main() -> int:
    problems = []
    flat = Acl(TEXT)
    before = entries(flat)

    acl = Acl(TEXT)
    acl.group("=== ")
    if entries(acl) != before:
        problems.append(f"Acl.group: {len(before)} entries before, {len(entries(acl))} after")
    acl.ungroup()
    if entries(acl) != before:
        problems.append(f"Acl.group + Acl.ungroup: {len(before)} entries before, {len(entries(acl))} after")

    acl = Acl(TEXT, group_by="=== ")
    if entries(acl) != before:
        problems.append(f"Acl(text, group_by=): {len(before)} entries in the text, {len(entries(acl))} in the object")

    acl = cisco_acl.acls(TEXT, group_by="=== ")[0]
    if entries(acl) != before:
        problems.append(f"acls(config, group_by=): {len(before)} entries in the config, {len(entries(acl))} in the object")

    if problems:
        print("FAIL: grouping drops the repeated heading remark")
        for problem in problems:
            print("-", problem)
        missing = list(before)
        for line in entries(acl):
            missing.remove(line)
        print("missing:", missing)
        return 1
    print("PASS")
    return 0


if __name__ == "__main__":
    sys.exit(main())
