"""C15: resequencing must work for every ACL, then sorting restores the numbered order.

History: a grouped ACL, the entries of one block are removed with the documented list method
AceGroup.clear() (or pop()/remove() of its last entry, or an empty AceGroup() is appended).
Acl.resequence() then never returns: AceGroup.resequence takes `kwargs.get("items") or self._items`,
the empty list of the block is falsy, so the recursive call for the block renumbers the whole ACL
again, meets the empty block again, ... -> RecursionError (not a documented error).
"""
import logging
import sys

logging.disable(logging.CRITICAL)

from cisco_acl import Acl, AceGroup  # noqa: E402

TEXT = """ip access-list extended NAME
  remark === A
  permit tcp any any eq 1
  remark === B
  permit tcp any any eq 2
  remark === C
  permit tcp any any eq 3
"""


def check(title: str, acl: Acl, want: str) -> str:
    try:
        acl.resequence()
    except RecursionError:
        return f"{title}: Acl.resequence() raises RecursionError"
    if acl.line != want:
        return f"{title}: resequence() gives\n{acl.line}\nexpected\n{want}"
    acl.items.reverse()
    acl.sort()
    if acl.line != want:
        return f"{title}: sort() of the reversed items gives\n{acl.line}\nexpected\n{want}"
    return ""


def main() -> int:
    problems = []

    acl = Acl(TEXT, group_by="=== ")
    acl.items[1].clear()  # block B without entries
    want = "ip access-list extended NAME\n  {} remark === A\n  {} permit tcp any any eq 1\n  {} remark === C\n  {} permit tcp any any eq 3"
    numbers = []
    # the numbers of the 4 entries must be strictly increasing, whatever number the empty block takes
    msg = ""
    try:
        acl.resequence()
        numbers = [i.sequence for o in acl.items for i in o.items]
        if numbers != sorted(set(numbers)) or len(numbers) != 4 or 0 in numbers:
            msg = f"emptied block: entries numbered {numbers}"
        else:
            msg = check("emptied block", acl, want.format(*numbers))
    except RecursionError:
        msg = "emptied block: Acl.resequence() raises RecursionError"
    if msg:
        problems.append(msg)

    acl = Acl("ip access-list extended NAME\n  permit icmp any any")
    acl.append(AceGroup())  # documented list method, an empty block
    acl.append(AceGroup("permit ip any any"))
    try:
        acl.resequence()
        numbers = [o.sequence for o in acl.items]
        if numbers != sorted(set(numbers)):
            problems.append(f"appended empty block: top-level items numbered {numbers}")
    except RecursionError:
        problems.append("appended empty block: Acl.resequence() raises RecursionError")

    if problems:
        print("FAIL: an ACL that holds a block without entries cannot be resequenced")
        for problem in problems:
            print("-", problem)
        return 1
    print("PASS")
    return 0


if __name__ == "__main__":
    sys.exit(main())
