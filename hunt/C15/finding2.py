"""C15: after resequencing, sorting a permutation of the ACL's blocks must restore the numbered order.

History: the ACL of examples/examples_ace_group.py (two ready-made AceGroup objects appended to an
ACL that starts with plain ACEs, then resequence()), followed by Acl.group("===== ").
Acl.group hands the number (and uuid, note) of a block over BY BLOCK NAME. A block made by
AceGroup(text) has the name "", the same name as the block of the entries in front of the 1st
heading: that block gets the number 40 of the "web" block, the real "web" block gets 0.
"""
import logging
import sys

logging.disable(logging.CRITICAL)

from cisco_acl import Acl, AceGroup  # noqa: E402


def main() -> int:
    group1 = AceGroup("remark ===== web =====\npermit tcp any any eq 80")
    group2 = AceGroup("remark ===== dns =====\npermit udp any any eq 53\ndeny tcp any any eq domain")
    acl = Acl("ip access-list extended ACL1\n  permit icmp any any\n  permit ip any any log")
    acl.append(group1)
    acl.extend([group2])
    acl.resequence()  # 10 .. 70
    group1.note = "web"
    acl.group("===== ")
    want = acl.line
    blocks = [(o.name, o.sequence, o.note, [i.sequence for i in o.items]) for o in acl.items]

    problems = []
    acl.items.reverse()
    acl.sort()
    if acl.line != want:
        problems.append("sort() of the reversed blocks gives\n" + acl.line)
    lead = [o for o in acl.items if o.name == ""][0]
    if lead.sequence not in [0] + [i.sequence for i in lead.items]:
        problems.append(f"the block of the entries 10, 20 carries the number {lead.sequence}")
    if lead.note == "web":
        problems.append("the block of the entries 10, 20 carries the note of the 'web' block")

    if problems:
        print("FAIL: Acl.group gives the number/identity of an unnamed block to the leading block")
        print("blocks (name, own number, note, numbers of the entries):", blocks)
        print("numbered order:\n" + want)
        for problem in problems:
            print("-", problem)
        return 1
    print("PASS")
    return 0


if __name__ == "__main__":
    sys.exit(main())
