"""C15: a block moves as a unit under any reordering; after resequencing, sorting any
permutation of the ACL's items restores the numbered order - also for the block of the entries
in front of the 1st heading ("none before the first ACE").

History: a grouped ACL whose 1st block has no heading (entries in front of the 1st heading remark),
resequence(), then a permutation of the blocks is applied with the public `items` setter
(or with reverse()/sort(reverse=True) followed by copy() or any other regrouping operation).
Every such operation calls Acl.group, which flattens ALL blocks and cuts only at heading remarks:
the moved heading-less block is dissolved into the block in front of it. It is no longer a unit
of its own, and sort() cannot bring its entries back to the front.
"""
import logging
import sys

logging.disable(logging.CRITICAL)

from cisco_acl import Acl  # noqa: E402

TEXT = """ip access-list extended NAME
  permit icmp any any
  deny ip host 10.0.0.1 any
  remark === A
  permit tcp any any eq 1
  remark === B
  permit tcp any any eq 2
"""


def blocks(acl):
    return [[i.sequence for i in o.items] for o in acl.items]


def main() -> int:
    problems = []

    # 1) permutation applied with the `items` setter
    acl = Acl(TEXT, group_by="=== ")
    acl.resequence()
    want, want_blocks = acl.line, blocks(acl)  # [[10, 20], [30, 40], [50, 60]]
    lead, blk_a, blk_b = acl.items
    acl.items = [blk_a, lead, blk_b]
    if sorted(blocks(acl)) != sorted(want_blocks):
        problems.append(f"`acl.items = [A, lead, B]`: blocks {want_blocks} became {blocks(acl)}")
    acl.sort()
    if acl.line != want:
        problems.append("`acl.items = [A, lead, B]; acl.sort()` gives\n" + acl.line)

    # 2) reordering in place, then copy()
    acl = Acl(TEXT, group_by="=== ")
    acl.resequence()
    acl.reverse()  # [B, A, lead]
    moved = blocks(acl)
    acl2 = acl.copy()
    if blocks(acl2) != moved:
        problems.append(f"`acl.reverse(); acl.copy()`: blocks {moved} became {blocks(acl2)}")
    acl2.sort()
    if acl2.line != want:
        problems.append("`acl.reverse(); acl2 = acl.copy(); acl2.sort()` gives\n" + acl2.line)

    if problems:
        print("FAIL: the block of the entries in front of the 1st heading does not survive a move")
        print("numbered order:\n" + want)
        for problem in problems:
            print("-", problem)
        return 1
    print("PASS")
    return 0


if __name__ == "__main__":
    sys.exit(main())
