"""C15: after resequencing, sorting a permutation of the ACL's blocks must restore the numbered order.

History (public API only): a grouped ACL, two new lines (a heading remark and an ACE) are added with
extend(), the ACL is resequenced and grouped again (so that the new lines become a block).
The blocks that already existed keep their own number (the number of their last entry), the new
block gets the number 0, so sort() puts the block with the HIGHEST numbers in front.
"""
import logging
import sys

logging.disable(logging.CRITICAL)

from cisco_acl import Acl, Ace, Remark  # noqa: E402

TEXT = """ip access-list extended NAME
  remark === A
  permit tcp any any eq 1
  remark === B
  permit tcp any any eq 2
"""


def main() -> int:
    acl = Acl(TEXT, group_by="=== ")
    acl.extend([Remark("remark === C"), Ace("permit tcp any any eq 3")])  # documented list method
    acl.resequence()  # 10 .. 60
    acl.group("=== ")  # the two new lines become the block "=== C"
    want = acl.line
    numbers = [(o.name, o.sequence, [i.sequence for i in o.items]) for o in acl.items]

    bad = []
    for name, perm in [("reversed", list(reversed(acl.items))), ("rotated", acl.items[1:] + acl.items[:1])]:
        acl.items[:] = perm
        acl.sort()
        if acl.line != want:
            bad.append((name, acl.line))
        acl.items[:] = sorted(perm)  # restore for the next round
        if acl.line != want and (name + "/sorted()", acl.line) not in bad:
            bad.append((name + "/sorted()", acl.line))

    if bad:
        print("FAIL: sort() after resequence() does not restore the numbered order")
        print("blocks (name, own number, numbers of the entries):", numbers)
        print("numbered order:\n" + want)
        for name, line in bad[:1]:
            print(f"after sorting the {name} permutation:\n" + line)
        return 1
    print("PASS")
    return 0


if __name__ == "__main__":
    sys.exit(main())
