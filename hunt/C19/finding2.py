"""C19 finding 2: Ace.ungroup_ports() raises ValueError when the SOURCE port is not rendered.

The library accepts entries such as "permit sctp any eq 1 any" (IOS XE syntax): the Port
objects keep operator "eq" and the numbers, but ports are rendered for tcp/udp only, so
the entry's line is "permit 132 any any".  ungroup_ports() decides on `self.srcport.operator`
and then writes the port into a copy that was rebuilt from the line (operator ""): the
Port.items setter builds the text " 1" and fails with "invalid port operator='1'".
The same entry with the ports on the DESTINATION side is returned unchanged, and one such
entry makes Acl.ungroup_ports() / AceGroup.ungroup_ports() fail for the whole list.
"""
import sys

from cisco_acl import Ace, AceGroup, Acl


def main() -> int:
    errors = []

    # 1. single entries: nothing to split in the entry as the library models it
    for line in [
        "permit sctp any eq 1 any",  # ONE port: needs no splitting by any reading
        "permit sctp any eq 1 2 any",
        "permit 132 any eq 1 2 any eq 3",
        "permit sctp any any eq 1 2",  # destination side: works today
    ]:
        ace = Ace(line, platform="ios")
        before = ace.line
        try:
            aces = ace.ungroup_ports()
        except ValueError as ex:
            errors.append(f"Ace({line!r}).ungroup_ports() raises ValueError: {ex}")
            continue
        if [o.line for o in aces] != [before]:
            errors.append(f"Ace({line!r}) {before!r} -> {[o.line for o in aces]}")

    # 2. the same state reached by the documented setter `ace.srcport.line = ...`
    ace = Ace("permit tcp any any eq 5", platform="ios")
    ace.srcport.line = "eq 1 2"  # the empty Port has protocol "": ace.line does not change
    before = ace.line
    try:
        aces = ace.ungroup_ports()
        if [o.line for o in aces] != [before]:
            errors.append(f"history: {before!r} -> {[o.line for o in aces]}")
    except ValueError as ex:
        errors.append(f"history srcport.line='eq 1 2': ungroup_ports() raises ValueError: {ex}")

    # 3. one such entry anywhere in a list blocks the split of every other entry
    text = "permit tcp any any eq 1 2\npermit sctp any eq 5 any\ndeny ip any any"
    expected = ["permit tcp any any eq 1", "permit tcp any any eq 2",
                "permit 132 any any", "deny ip any any"]
    for name, obj in [
        ("Acl", Acl("ip access-list extended A\n" + text, platform="ios")),
        ("AceGroup", AceGroup(text, platform="ios")),
    ]:
        try:
            obj.ungroup_ports()
        except ValueError as ex:
            errors.append(f"{name}.ungroup_ports() raises ValueError: {ex}")
            continue
        result = [o.line for o in obj.items]
        if result != expected:
            errors.append(f"{name}: {result} != {expected}")

    if errors:
        print("FAIL")
        for error in errors:
            print(" -", error)
        return 1
    print("PASS")
    return 0


if __name__ == "__main__":
    sys.exit(main())
