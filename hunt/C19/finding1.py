"""C19 finding 1: splitting ports in a grouped ACL of IOS version 15 rewrites OTHER fields.

Acl.group() builds its AceGroup blocks without the ACL's software version, the block
stamps version "0" on every Ace it adopts, and Ace.ungroup_ports() copies the entry with
that version: the single-port entries are rendered with the IOS-16 port names ("msrpc",
"onep-plain", "ripv6", ...) that do not exist on the declared IOS 15.
"""
import logging
import sys

from cisco_acl import Ace, Acl

logging.disable(logging.CRITICAL)

TEXT = """ip access-list extended A
remark === X
permit tcp any eq 135 any eq 80 443
deny tcp any eq 135 any
"""
VERSION = "15.2"


def flat(acl):
    acl = acl.copy() if False else acl
    out = []
    for item in acl.items:
        out.extend(item.items if hasattr(item, "items") else [item])
    return out


def main() -> int:
    errors = []

    grouped = Acl(TEXT, platform="ios", version=VERSION, group_by="=== ")
    plain = Acl(TEXT, platform="ios", version=VERSION)
    before = [o for o in flat(grouped) if isinstance(o, Ace)]
    srcport_before = before[0].srcport.line  # "eq 135": the field that is NOT split

    grouped.ungroup_ports()
    plain.ungroup_ports()
    after = [o for o in flat(grouped) if isinstance(o, Ace)]

    # 1. "keep every other field": the source port of the split entry is not being split
    for ace in after[:2]:
        if ace.srcport.line != srcport_before:
            errors.append(
                f"source port field changed by the split: {srcport_before!r} -> "
                f"{ace.srcport.line!r} in {ace.line!r}"
            )
        if str(ace.srcport.version) != VERSION or str(ace.dstport.version) != VERSION:
            errors.append(
                f"software version of the new entry's ports is {str(ace.srcport.version)!r}, "
                f"the ACL was declared {VERSION!r}: {ace.line!r}"
            )

    # 2. the same ACL without blocks is split correctly, grouping must not matter
    if [o.line for o in flat(grouped)] != [o.line for o in flat(plain)]:
        errors.append(
            "grouped and flat ACL differ after the split:\n"
            f"    grouped: {[o.line for o in flat(grouped)]}\n"
            f"    flat:    {[o.line for o in flat(plain)]}"
        )

    # 3. the result has to be an ACL of the declared version: its own text is accepted back
    back = Acl(grouped.line, platform="ios", version=VERSION, group_by="=== ")
    if back.line != grouped.line:
        lost = len(flat(grouped)) - len(flat(back))
        errors.append(
            f"the split ACL's text is not valid for version {VERSION}: "
            f"{lost} of the new entries are rejected when the text is read back"
        )
    try:
        grouped.copy()
    except ValueError as ex:
        errors.append(f"acl.copy() after the split raises ValueError: {str(ex)[:60]}...")

    if errors:
        print("FAIL")
        for error in errors:
            print(" -", error)
        return 1
    print("PASS")
    return 0


if __name__ == "__main__":
    sys.exit(main())
