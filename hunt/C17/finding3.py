"""C17 finding 3: after a re-grouping, sort() turns a correctly numbered ACL upside down
(the "deny" block jumps above the "permit" lines, against the sequence numbers of the lines).

Clause: "after every step the rendered text ... denotes exactly the ordered rule list predicted by a
reference model of those operations" (sort: ascending sequence numbers; on an ACL whose lines are already in
ascending order it is the identity) and "No operation's effect depends on which operations were applied before
it" (the same text, parsed afresh, is left alone by sort()).
"""
import logging
import sys

logging.disable(logging.CRITICAL)
from cisco_acl import Acl, Remark  # noqa: E402

TEXT = """ip access-list extended ACL1
  permit tcp any any eq 22
  permit tcp any any eq 80
  remark === block
  deny ip any any log
"""
problems = []


def numbers(acl):
    return [int(s.split()[0]) for s in acl.line.split("\n")[1:] if s.strip()]


def check(label, acl, group_by):
    """`acl` is numbered 10, 20, ... in the order of its lines: sort() has nothing to do."""
    before = acl.line
    assert numbers(acl) == sorted(numbers(acl)), label
    fresh = Acl(before, group_by=group_by, port_nr=acl.port_nr, protocol_nr=acl.protocol_nr)  # no history
    fresh.sort()
    acl.sort()
    if acl.line != before:
        problems.append(f"{label}: sort() reordered an ACL that is in ascending order, numbers now {numbers(acl)}, "
                        f"1st rule now {acl.line.splitlines()[1].strip()!r}")
    if acl.line != fresh.line:
        problems.append(f"{label}: the same text parsed afresh is sorted differently (numbers {numbers(fresh)})")


# history 1: group by a prefix that no remark has (one block), resequence, group by the real prefix, sort
acl1 = Acl(TEXT, group_by="--- ")
acl1.resequence(10, 10)
acl1.group("=== ")
check("group, resequence, group, sort", acl1, "=== ")

# history 2: grouped ACL, resequence, a heading is added later, any re-initialising switch, sort
acl2 = Acl(TEXT.replace("  remark === block\n", ""), group_by="=== ")
acl2.resequence(10, 10)
acl2.items[0].insert(2, Remark("25 remark === late"))
acl2.port_nr = True
check("resequence, new heading, port_nr, sort", acl2, "=== ")

# history 3: as 2, the heading is added with an import of edited text into the block
acl3 = Acl(TEXT, group_by="=== ")
acl3.resequence(10, 10)
acl3.items[0].line = "10 permit tcp any any eq 22\n15 remark === early\n20 permit tcp any any eq 80"
acl3.protocol_nr = True
check("resequence, block re-parsed with a heading, protocol_nr, sort", acl3, "=== ")

if problems:
    print("FAIL")
    for p in problems:
        print(" -", p)
    sys.exit(1)
print("PASS")
