"""C17 finding 2: a REFUSED type / platform switch leaves the ACL half converted.

(a) `type = "standard"` on an ACL with an object-group entry: ValueError, but the entries above it have already
    lost protocol, ports and destination ("deny udp any any eq 53" became "deny any").
(b) `platform = "nxos"` on a standard ACL (NX-OS has none): ValueError, but platform is "nxos" already, the members
    are mixed, copy() raises; on an EMPTY standard ACL the switch is not refused at all.

Clause: "after every step the rendered text parses back to itself and denotes exactly the ordered rule list
predicted by a reference model" - a refused operation must leave the rule list (and the object) as it was.
"""
import logging
import sys

logging.disable(logging.CRITICAL)
from cisco_acl import Acl, AceGroup  # noqa: E402

problems = []

# ------------------------------------------------------------------ (a) type
TEXT = """ip access-list extended ACL1
  10 permit tcp host 1.1.1.1 eq 1 2.2.2.0 0.0.0.255 eq 3
  20 deny udp any any eq 53
  30 permit ip object-group A any
  40 deny ip any any
"""
for label, obj in [
    ("Acl", Acl(TEXT)),
    ("Acl grouped", Acl(TEXT.replace("  10 ", "  5 remark === r\n  10 "), group_by="=== ")),
    ("AceGroup", AceGroup("\n".join(TEXT.split("\n")[1:]))),
]:
    before = obj.line
    try:
        obj.type = "standard"  # cannot be done: a standard ACE has no object-group
    except ValueError:
        after = obj.line
        if after != before:
            lost = [f"{b.strip()!r} -> {a.strip()!r}" for b, a in zip(before.split("\n"), after.split("\n")) if a != b]
            problems.append(f"(a) {label}: type='standard' was refused (ValueError) but the rules were changed anyway: "
                            + "; ".join(lost))
            if isinstance(obj, Acl) and Acl(after).line != after:
                problems.append(f"(a) {label}: ... and the text no longer parses back to itself")
    else:
        problems.append(f"(a) {label}: expected ValueError (object-group in a standard ACL)")


# ------------------------------------------------------------------ (b) platform
def state(obj):
    return obj.platform, obj.type, obj.line, [(o.platform, o.line) for o in obj.items]


def usable(obj):
    try:
        obj.copy()
        return True
    except ValueError:
        return False


for label, obj in [
    ("standard Acl", Acl("ip access-list standard S\n  permit host 10.0.0.1\n  permit 10.0.0.0 0.0.0.255\n  deny any")),
    ("empty standard Acl", Acl("ip access-list standard S")),
    ("standard AceGroup", AceGroup("permit host 10.0.0.1\ndeny any", type="standard")),
]:
    before = state(obj)
    try:
        obj.platform = "nxos"
    except ValueError:
        after = state(obj)
        if after != before:
            problems.append(f"(b) {label}: platform='nxos' was refused (ValueError) but the object was changed: "
                            f"platform {before[0]!r}->{after[0]!r}, type={after[1]!r}, "
                            f"item platforms {[p for p, _ in after[3]]}, copy() works: {usable(obj)}")
        continue
    # accepted: then the result must be a usable nxos ACL
    if obj.type != "extended" or not usable(obj):
        problems.append(f"(b) {label}: accepted without error, now platform={obj.platform!r} type={obj.type!r}, "
                        f"copy() works: {usable(obj)}")

if problems:
    print("FAIL")
    for p in problems:
        print(" -", p)
    sys.exit(1)
print("PASS")
