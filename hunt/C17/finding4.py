"""C17 finding 4: Acl.resequence() never returns when the ACL holds an EMPTY AceGroup block.

Clause: "Starting from any ACL and applying any sequence of public operations (... resequence,
group/ungroup, sort/reverse/insert/pop ...), after every step the rendered text parses back to itself
and denotes exactly the ordered rule list predicted by a reference model" - with empty containers too.
"""
import logging
import sys

logging.disable(logging.CRITICAL)
from cisco_acl import Acl, AceGroup  # noqa: E402

TEXT = """ip access-list extended ACL1
  remark === rule 1
  permit tcp any any eq 1
  remark === rule 2
  permit tcp any any eq 2
  remark === rule 3
  permit tcp any any eq 3
"""
problems = []


def numbers(acl):
    return [int(s.split()[0]) if s.split()[0].isdigit() else 0 for s in acl.line.split("\n")[1:] if s.strip()]


histories = {
    "pop() the lines of the middle block": lambda a: (a.items[1].pop(), a.items[1].pop()),
    "clear() the middle block": lambda a: a.items[1].clear(),
    "insert(1, AceGroup())": lambda a: a.insert(1, AceGroup()),
}
for label, history in histories.items():
    acl = Acl(TEXT, group_by="=== ")
    history(acl)
    count = len(numbers(acl))
    try:
        last = acl.resequence(start=10, step=10)
    except RecursionError:
        problems.append(f"{label}: resequence() -> RecursionError (text before: {count} lines, all valid)")
        continue
    expected = [10 + 10 * i for i in range(count)]
    if numbers(acl) != expected or last != expected[-1]:
        problems.append(f"{label}: numbers {numbers(acl)} last={last}, expected {expected}")
    if Acl(acl.line, group_by="=== ").line != acl.line:
        problems.append(f"{label}: text does not parse back to itself")

if problems:
    print("FAIL")
    for p in problems:
        print(" -", p)
    sys.exit(1)
print("PASS")
