"""C17 finding 5: a line REJECTED by `Ace.line = ...` still overwrites half of the ACE: the ACL then holds a
rule that nobody wrote (new action/number/addresses with the old protocol/ports/options).

Clause: "after every step the rendered text ... denotes exactly the ordered rule list predicted by a
reference model" - a re-parse that is refused (ValueError) must leave the rule list as it was.
"""
import logging
import sys

logging.disable(logging.CRITICAL)
from cisco_acl import Acl  # noqa: E402

TEXT = """ip access-list extended ACL1
  10 permit tcp any any eq 80
  20 deny ip any any
"""
REJECTED = [
    "15 deny udp host 1.1.1.1 host 2.2.2.2 eq 70000",  # port out of range
    "15 deny udp host 1.1.1.1 host 2.2.2.2 range 5",  # range needs 2 ports
    "15 deny tcp host 1.1.1.1 host 2.2.2.2 lt 5 6",  # lt needs 1 port
    "15 deny tcp host 1.1.1.1 10.0.0.0 0.0.0.256 eq 22",  # bad octet
]
problems = []
for platform in ("ios", "nxos"):
    for new_line in REJECTED:
        text = TEXT if platform == "ios" else TEXT.replace(" extended", "")
        acl = Acl(text, platform=platform)
        before = acl.line
        try:
            acl.items[0].line = new_line
        except ValueError:
            after = acl.line
            if after != before:
                problems.append(f"{platform}: {new_line!r} was rejected, but rule 1 became "
                                f"{after.splitlines()[1].strip()!r} (was {before.splitlines()[1].strip()!r})")
        else:
            problems.append(f"{platform}: {new_line!r} expected ValueError")

if problems:
    print("FAIL")
    for p in problems:
        print(" -", p)
    sys.exit(1)
print("PASS")
