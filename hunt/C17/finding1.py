"""C17 finding 1: `acl.platform = "nxos"` fails and corrupts a GROUPED ACL that a FLAT ACL converts fine.

Clause: "No operation's effect depends on which operations were applied before it"
        (here: group() / group_by= before the platform change), and
        "after every step the rendered text parses back to itself".
"""
import logging
import sys

logging.disable(logging.CRITICAL)
from cisco_acl import Acl  # noqa: E402

TEXT = """ip access-list extended ACL1
  remark === rule 1
  permit ip object-group A object-group B log
  remark === rule 2
  permit tcp any any eq 135
  permit udp any any eq 521
  deny ip any any
"""
problems = []


def body(acl):
    """Flat list of rendered ACE lines."""
    return [s.strip() for s in acl.line.split("\n")[1:]]


# reference: the flat ACL (README example, examples/examples_acl.py) converts to NX-OS
flat = Acl(TEXT, platform="ios")
flat.platform = "nxos"
expected = body(flat)

# 1. the same ACL, grouped by remarks (documented parameter group_by)
for how in ("group_by=", "group()"):
    if how == "group_by=":
        grouped = Acl(TEXT, platform="ios", group_by="=== ")
    else:
        grouped = Acl(TEXT, platform="ios")
        grouped.group("=== ")
    before = body(grouped)
    try:
        grouped.platform = "nxos"
    except ValueError as ex:
        problems.append(f"[{how}] grouped ACL: platform='nxos' raised ValueError({str(ex)[:60]}...) "
                        f"while the flat ACL with the same lines converts")
        if body(grouped) != before or grouped.platform != "ios":
            problems.append(f"[{how}] ... and the ACL is left half-switched: platform={grouped.platform!r}, "
                            f"lines still in IOS syntax: {body(grouped)[1]!r}")
            try:
                grouped.copy()
            except ValueError:
                problems.append(f"[{how}] ... and from now on copy() raises too")
        continue
    if body(grouped) != expected:
        problems.append(f"[{how}] grouped ACL converted differently: {body(grouped)} != {expected}")
    reparsed = Acl(grouped.line, platform="nxos", group_by="=== ")
    if reparsed.line != grouped.line:
        problems.append(f"[{how}] rendered text does not parse back to itself")

# 2. the root cause seen directly: the items setter relabels objects instead of converting them
src = Acl("ip access-list extended SRC\n  permit ip object-group A 10.0.0.0 0.0.0.255", platform="ios")
dst = Acl("ip access-list DST", platform="nxos")
try:
    dst.items = src.items  # documented: items may be Ace objects
    text = dst.line
    try:
        again = Acl(text, platform="nxos").line
    except ValueError:
        again = None
    if again != text:
        problems.append(f"items= : nxos ACL renders {body(dst)} (IOS syntax labelled nxos); "
                        f"re-parsing gives {again!r}")
except ValueError:
    pass  # a clean refusal would be acceptable

if problems:
    print("FAIL")
    for p in problems:
        print(" -", p)
    sys.exit(1)
print("PASS")
