"""C04: delete_shadow must leave the grouping of the remaining items untouched.

An Acl may hold AceGroup blocks without having a `group_by` of its own (blocks built by hand,
or taken from `cisco_acl.aces(config, group_by=...)`). Removing one shadowed ACE must only
remove that ACE; the blocks have to stay blocks.
"""
import sys

from cisco_acl import Acl, Ace, AceGroup


def shape(acl):
    """Item list as (class name, lines of the item)."""
    result = []
    for item in acl.items:
        lines = [o.line for o in item.items] if isinstance(item, AceGroup) else [item.line]
        result.append((type(item).__name__, lines))
    return result


block = AceGroup("remark WEB\npermit tcp any any\npermit tcp any any eq 80\npermit tcp any any eq 443")
acl = Acl(name="A", items=[block, Ace("deny ip any any")])
before = shape(acl)
report = acl.delete_shadow()
after = shape(acl)

expected = [("AceGroup", ["remark WEB", "permit tcp any any"]), ("Ace", ["deny ip any any"])]
print("before:", before)
print("report:", report)
print("after :", after)
if after != expected:
    print("FAIL: the AceGroup block was dissolved into loose items: grouping of the remaining "
          "items was changed by delete_shadow()")
    print("expected:", expected)
    sys.exit(1)
print("PASS")
