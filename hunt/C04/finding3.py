"""C04: delete_shadow must leave sequence numbers of the remaining items untouched.

The items of a grouped ACL are AceGroup blocks, every block carries its own sequence number
(set by resequence(), used by sort(), exported by data()).
"""
import sys

from cisco_acl import Acl

acl = Acl(
    "ip access-list extended A\n"
    " remark === A\n"
    " permit ip host 10.0.0.1 any\n"
    " permit tcp host 10.0.0.1 any\n"  # in the shadow
    " remark === B\n"
    " permit udp any any\n"
    " deny ip any any\n",
    group_by="=== ",
)
acl.resequence(start=10, step=10)
before = [(o.name, o.sequence) for o in acl.items]
report = acl.delete_shadow()
after = [(o.name, o.sequence) for o in acl.items]
print("before:", before)
print("report:", report)
print("after :", after)
if not report:
    print("FAIL: nothing removed, test is void")
    sys.exit(1)
if before != after:
    print("FAIL: sequence numbers of the remaining blocks were changed by delete_shadow()")
    sys.exit(1)
print("PASS")
