"""C04: every removed ACE must be completely covered by an ACE of the same action above it.

`permit tcp any any ack dscp ef` matches only packets marked EF, the entry below it
`permit tcp any any ack` matches ACK packets of any marking: it is not covered.
"""
import sys

from cisco_acl import Acl

errors = []
for top, bottom in [
    ("permit tcp any any ack dscp ef", "permit tcp any any ack"),
    ("permit tcp any any dscp ef fragments", "permit tcp any any dscp ef"),
    ("permit tcp any any precedence critical tos normal", "permit tcp any any precedence critical"),
]:
    acl = Acl(f"ip access-list extended A\n {top}\n {bottom}\n deny ip any any")
    report = acl.delete_shadow()
    lines = [o.line for o in acl.items]
    print(f"{top!r} / {bottom!r}: report={report} remaining={lines}")
    if bottom not in lines:
        errors.append(f"{bottom!r} removed, although {top!r} is narrower")

# controls: really covered, have to be removed before and after any repair
for top, bottom in [
    ("permit tcp any any", "permit tcp any any ack dscp ef"),
    ("permit tcp any any syn ack", "permit tcp any any syn"),
    ("permit icmp any any echo", "permit icmp any any echo log"),
]:
    acl = Acl(f"ip access-list extended A\n {top}\n {bottom}\n deny ip any any")
    acl.delete_shadow()
    lines = [o.line for o in acl.items]
    if bottom in lines:
        errors.append(f"control: {bottom!r} not removed below {top!r}")

if errors:
    print("FAIL:", "; ".join(errors))
    sys.exit(1)
print("PASS")
