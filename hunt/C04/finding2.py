"""C04: delete_shadow must keep remarks and the relative order of the remaining items,
so that no packet changes its permit/deny decision.

History: an ACL grouped by remark prefix "=== ", then two items are appended with the
documented list method Acl.extend(). delete_shadow() should remove only the one duplicated ACE.
"""
import sys

from cisco_acl import Acl, Ace, AceGroup, Remark


def flat(acl):
    """Flat list of lines."""
    lines = []
    for item in acl.items:
        if isinstance(item, AceGroup):
            lines.extend(o.line for o in item.items)
        else:
            lines.append(item.line)
    return lines


def decision(lines, protocol, dstport):
    """First-match decision for a tcp/udp packet from anywhere to anywhere (tiny ACL model)."""
    for line in lines:
        action, *rest = line.split()
        if action == "remark":
            continue
        if rest[0] not in ("ip", protocol):
            continue
        if "eq" in rest and rest[-1] not in (str(dstport), {80: "www"}.get(dstport)):
            continue
        return action
    return "deny"


acl = Acl(
    "ip access-list extended A\n"
    " remark === WEB\n"
    " permit tcp any any eq 80\n"
    " remark === DROP\n"
    " deny tcp any any\n"
    " permit tcp any any eq 80\n",  # duplicate of line 2, in the shadow
    group_by="=== ",
)
acl.extend([Remark("remark === WEB"), Ace("permit tcp any any eq 443")])
before = flat(acl)
report = acl.delete_shadow()
after = flat(acl)

removed = [s for ls in report.values() for s in ls]
expected = list(before)
for line in removed:  # remove the last occurrence of every reported line
    idx = len(expected) - 1 - expected[::-1].index(line)
    del expected[idx]

print("before:", before)
print("report:", report)
print("after :", after)
errors = []
if after != expected:
    errors.append(f"remaining items are not the original list minus the reported ACEs, {expected=}")
if [s for s in before if s.startswith("remark")] != [s for s in after if s.startswith("remark")]:
    errors.append("a remark disappeared")
d_before, d_after = decision(before, "tcp", 443), decision(after, "tcp", 443)
if d_before != d_after:
    errors.append(f"packet tcp any -> any:443 was {d_before!r}, now {d_after!r}")
if errors:
    print("FAIL:", "; ".join(errors))
    sys.exit(1)
print("PASS")
