"""C04: every removed ACE must be covered by an ACE of the same action that stood ABOVE it,
the result is the original list minus the reported ACEs.

delete_shadow() removes by text: every entry below a shading entry whose text equals a reported
shadow is removed, also an occurrence that stands above its own shading entry.
"""
import sys

from cisco_acl import Acl

acl = Acl(
    "ip access-list extended A\n"
    " deny udp any any\n"
    " permit tcp any gt 65535 any\n"  # nothing of the same action above it
    " permit tcp any any\n"
    " permit tcp any gt 65535 any\n"  # in the shadow of the line above
    " deny udp any any eq 53\n"  # in the shadow of the 1st line
)
before = [o.line for o in acl.items]
report = acl.delete_shadow()
after = [o.line for o in acl.items]
print("before:", before)
print("report:", report)
print("after :", after)
expected = ["deny udp any any", "permit tcp any gt 65535 any", "permit tcp any any"]
if after != expected:
    print("FAIL: the 2nd entry was removed although no permit entry stood above it "
          "(the report names one removed 'gt 65535' entry, two were removed)")
    print("expected:", expected)
    sys.exit(1)
print("PASS")
