"""E3 (in-house) type inference from annotations and constructor assignments.

Flow-insensitive, deliberately small: enough to resolve receivers of method calls and property
accesses in this code base.  An unresolved receiver falls back to name-based resolution
(every class that defines the attribute), which over-approximates.
"""

from __future__ import annotations

import ast
from typing import Dict, FrozenSet, Iterable, List, Optional, Set, Tuple

from .model import Class, Func, Module, Program, own_nodes

ANY = ("any",)
NONE = ("none",)
STR = ("str",)
INT = ("int",)
BOOL = ("bool",)

T = Tuple  # a type is a tagged tuple


def union(types: Iterable[T]) -> T:
    flat: Set[T] = set()
    for t in types:
        if t[0] == "union":
            flat.update(t[1])
        else:
            flat.add(t)
    if not flat:
        return ANY
    # ANY means "no information": it does not absorb known members (optimistic; an unresolved
    # receiver falls back to name-based resolution in the call graph)
    flat.discard(ANY)
    if not flat:
        return ANY
    if len(flat) == 1:
        return next(iter(flat))
    return ("union", frozenset(flat))


def members(t: T) -> List[T]:
    if t[0] == "union":
        return list(t[1])
    return [t]


def classes_of(t: T) -> List[Class]:
    return [m[1] for m in members(t) if m[0] == "cls"]


def elem(t: T) -> T:
    out = []
    for m in members(t):
        if m[0] in ("list", "set", "iter"):
            out.append(m[1])
        elif m[0] == "tuple":
            out.extend(m[1])
        elif m[0] == "dict":
            out.append(m[1])
        elif m[0] == "str":
            out.append(STR)
        else:
            out.append(ANY)
    return union(out)


_SIMPLE = {
    "str": STR,
    "int": INT,
    "bool": BOOL,
    "float": ("float",),
    "bytes": ("bytes",),
    "None": NONE,
    "Any": ANY,
    "object": ANY,
}


class Types:
    def __init__(self, prog: Program):
        self.prog = prog
        self._attr_cache: Dict[Tuple[str, str], T] = {}
        self._env_cache: Dict[Tuple[int, Optional[str]], Dict[str, T]] = {}
        self._alias_busy: Set[Tuple[str, str]] = set()

    # ------------------------------------------------------------------ annotations
    def ann(self, node: Optional[ast.AST], mod: Module) -> T:  # noqa: C901
        if node is None:
            return ANY
        if isinstance(node, ast.Constant):
            if node.value is None:
                return NONE
            if isinstance(node.value, str):
                try:
                    return self.ann(ast.parse(node.value, mode="eval").body, mod)
                except SyntaxError:
                    return ANY
            return ANY
        if isinstance(node, ast.Name):
            if node.id in _SIMPLE:
                return _SIMPLE[node.id]
            if node.id in ("list", "List"):
                return ("list", ANY)
            if node.id in ("dict", "Dict"):
                return ("dict", ANY, ANY)
            if node.id in ("set", "Set"):
                return ("set", ANY)
            if node.id in ("tuple", "Tuple"):
                return ("tuple", ())
            r = self.prog.resolve_name(mod, node.id)
            if isinstance(r, Class):
                return ("cls", r)
            if isinstance(r, tuple) and r[0] == "const":
                key = (r[1].short, r[2])
                if key in self._alias_busy:
                    return ANY
                self._alias_busy.add(key)
                try:
                    exprs = r[1].consts.get(r[2], [])
                    if exprs:
                        return self.ann(exprs[-1], r[1])
                finally:
                    self._alias_busy.discard(key)
                return ANY
            if isinstance(r, tuple) and r[0] == "ext":
                return ("ext", r[1].split(".")[-1])
            return ANY
        if isinstance(node, ast.Attribute):
            return ("ext", node.attr)
        if isinstance(node, ast.Subscript):
            base = node.value
            bname = base.id if isinstance(base, ast.Name) else (base.attr if isinstance(base, ast.Attribute) else "")
            args = node.slice.elts if isinstance(node.slice, ast.Tuple) else [node.slice]
            if bname in ("List", "list", "Iterable", "Sequence", "Iterator", "Generator"):
                return ("list", self.ann(args[0], mod))
            if bname in ("Set", "set", "FrozenSet"):
                return ("set", self.ann(args[0], mod))
            if bname in ("Dict", "dict", "Mapping"):
                if len(args) == 2:
                    return ("dict", self.ann(args[0], mod), self.ann(args[1], mod))
                return ("dict", ANY, ANY)
            if bname in ("Tuple", "tuple"):
                elts = [a for a in args if not (isinstance(a, ast.Constant) and a.value is Ellipsis)]
                if len(elts) != len(args):
                    return ("list", self.ann(elts[0], mod)) if elts else ("list", ANY)
                return ("tuple", tuple(self.ann(a, mod) for a in elts))
            if bname == "Optional":
                return union([self.ann(args[0], mod), NONE])
            if bname == "Union":
                return union(self.ann(a, mod) for a in args)
            return ANY
        if isinstance(node, ast.BinOp) and isinstance(node.op, ast.BitOr):
            return union([self.ann(node.left, mod), self.ann(node.right, mod)])
        return ANY

    # ------------------------------------------------------------------ attributes
    def attr_type(self, cls: Class, name: str) -> T:
        key = (cls.name, name)
        if key in self._attr_cache:
            return self._attr_cache[key]
        self._attr_cache[key] = ANY  # recursion guard
        t = self._attr_type(cls, name)
        self._attr_cache[key] = t
        return t

    def _attr_type(self, cls: Class, name: str) -> T:
        g = cls.lookup_getter(name)
        if g is not None:
            t = self.ann(g.node.returns, g.module)
            if t != ANY:
                return t
            return self.return_type(g, cls)
        m = cls.lookup_method(name)
        if m is not None:
            return ("func", m)
        found: List[T] = []
        for c in cls.mro:
            for f in c.all_funcs():
                for n in own_nodes(f.node):
                    if isinstance(n, ast.AnnAssign) and _is_self_attr(n.target, name):
                        found.append(self.ann(n.annotation, f.module))
                    elif isinstance(n, ast.Assign):
                        for tg in n.targets:
                            if _is_self_attr(tg, name):
                                found.append(self.expr_type(n.value, f, c))
        found = [t for t in found if t != ANY]
        weak = (not found) or all(t in (("list", ANY), ("set", ANY), NONE) for t in found)
        if weak:
            # the base class only holds a placeholder ([] / None): look at what subclasses store
            for sub in self.prog.subclasses(cls):
                if sub is cls:
                    continue
                for f in sub.all_funcs():
                    for n in own_nodes(f.node):
                        if isinstance(n, ast.AnnAssign) and _is_self_attr(n.target, name):
                            found.append(self.ann(n.annotation, f.module))
            found = [t for t in found if t != ANY]
        return union(found) if found else ANY

    def return_type(self, f: Func, self_cls: Optional[Class] = None) -> T:
        t = self.ann(f.node.returns, f.module)
        if t != ANY:
            return t
        if f.name == "copy" and f.cls is not None:
            return ("cls", self_cls or f.cls)
        return ANY

    # ------------------------------------------------------------------ locals
    def local_env(self, f: Func, self_cls: Optional[Class] = None) -> Dict[str, T]:
        key = (id(f), self_cls.name if self_cls else None)
        if key in self._env_cache:
            return self._env_cache[key]
        env: Dict[str, T] = {}
        self._env_cache[key] = env
        a = f.node.args
        params = a.posonlyargs + a.args + a.kwonlyargs
        for i, p in enumerate(params):
            if i == 0 and f.is_bound:
                env[p.arg] = ("cls", self_cls or f.cls)  # type: ignore[arg-type]
            elif i == 0 and f.kind == "classmethod":
                env[p.arg] = ("type", self_cls or f.cls)
            else:
                env[p.arg] = self.ann(p.annotation, f.module)
        if a.kwarg:
            env[a.kwarg.arg] = ("dict", STR, ANY)
        if a.vararg:
            env[a.vararg.arg] = ("list", ANY)
        # two passes so that later definitions feed earlier uses (flow-insensitive)
        declared: Dict[str, T] = {}
        for n in own_nodes(f.node):
            if isinstance(n, ast.AnnAssign) and isinstance(n.target, ast.Name):
                t = self.ann(n.annotation, f.module)
                if t != ANY:
                    declared[n.target.id] = t
        for _ in range(5):
            before = dict(env)
            acc: Dict[str, List[T]] = {}
            for n in own_nodes(f.node):
                if isinstance(n, ast.AnnAssign) and isinstance(n.target, ast.Name):
                    acc.setdefault(n.target.id, []).append(self.ann(n.annotation, f.module))
                elif isinstance(n, ast.Assign):
                    vt = self.expr_type(n.value, f, self_cls, env)
                    if isinstance(n.value, ast.Name) and _guarded_not_none(n, n.value.id, f.node):
                        vt = union([m for m in members(vt) if m != NONE]) if [m for m in members(vt) if m != NONE] else vt
                    for tg in n.targets:
                        self._bind(tg, vt, acc)
                elif isinstance(n, ast.NamedExpr) and isinstance(n.target, ast.Name):
                    acc.setdefault(n.target.id, []).append(self.expr_type(n.value, f, self_cls, env))
                elif isinstance(n, (ast.For, ast.comprehension)):
                    it = self.expr_type(n.iter, f, self_cls, env)
                    et = elem(it)
                    if isinstance(n.iter, ast.Call) and isinstance(n.iter.func, ast.Name) and n.iter.func.id == "enumerate" and n.iter.args:
                        et = ("tuple", (INT, elem(self.expr_type(n.iter.args[0], f, self_cls, env))))
                    if isinstance(n.iter, ast.Call) and isinstance(n.iter.func, ast.Name) and n.iter.func.id == "zip" and n.iter.args and not n.iter.keywords and not any(isinstance(a, ast.Starred) for a in n.iter.args):
                        et = ("tuple", tuple(elem(self.expr_type(a, f, self_cls, env)) for a in n.iter.args))
                    self._bind(n.target, et, acc)
                elif isinstance(n, ast.ExceptHandler) and n.name:
                    acc.setdefault(n.name, []).append(("ext", "Exception"))
            for k, ts in acc.items():
                if k in [p.arg for p in params] and env.get(k, ANY) != ANY:
                    continue  # annotated parameter wins over re-assignment
                if k in declared:
                    env[k] = declared[k]  # a declared local keeps its declared type
                    continue
                env[k] = union(ts)
            if env == before:
                break
        return env

    def _bind(self, target: ast.AST, vt: T, acc: Dict[str, List[T]]) -> None:
        if isinstance(target, ast.Name):
            acc.setdefault(target.id, []).append(vt)
        elif isinstance(target, (ast.Tuple, ast.List)):
            for i, e in enumerate(target.elts):
                subs: List[T] = []
                for m in members(vt):
                    if m[0] == "tuple" and i < len(m[1]) and not any(isinstance(x, ast.Starred) for x in target.elts):
                        subs.append(m[1][i])
                    elif m[0] in ("list", "set"):
                        subs.append(m[1])
                    else:
                        subs.append(ANY)
                sub = union(subs) if subs else ANY
                if isinstance(e, ast.Starred):
                    self._bind(e.value, ("list", sub), acc)
                else:
                    self._bind(e, sub, acc)

    # ------------------------------------------------------------------ expressions
    def expr_type(self, e: ast.AST, f: Func, self_cls: Optional[Class] = None, env: Optional[Dict[str, T]] = None) -> T:  # noqa: C901
        if env is None:
            env = self.local_env(f, self_cls)
        mod = f.module
        if isinstance(e, ast.Constant):
            v = e.value
            if v is None:
                return NONE
            if isinstance(v, bool):
                return BOOL
            if isinstance(v, str):
                return STR
            if isinstance(v, int):
                return INT
            return ANY
        if isinstance(e, ast.JoinedStr):
            return STR
        if isinstance(e, ast.Name):
            if e.id in env:
                return env[e.id]
            r = self.prog.resolve_name(mod, e.id)
            if isinstance(r, Class):
                return ("type", r)
            if isinstance(r, Func):
                return ("func", r)
            if isinstance(r, Module):
                return ("mod", r)
            if isinstance(r, tuple) and r[0] == "ext":
                return ("extmod", r[1])
            if isinstance(r, tuple) and r[0] == "const":
                exprs = r[1].consts.get(r[2], [])
                if exprs and isinstance(exprs[-1], (ast.Dict, ast.DictComp)):
                    return ("dict", ANY, ANY)
                if exprs and isinstance(exprs[-1], (ast.List, ast.ListComp)):
                    return ("list", ANY)
                if exprs and isinstance(exprs[-1], ast.Tuple):
                    return ("list", ANY)
                if exprs and isinstance(exprs[-1], ast.Constant):
                    return self.expr_type(exprs[-1], f, self_cls, env)
                if exprs and isinstance(exprs[-1], ast.Call) and isinstance(exprs[-1].func, ast.Name) and exprs[-1].func.id == "dict":
                    return ("dict", ANY, ANY)
            return ANY
        if isinstance(e, ast.Attribute):
            bt = self.expr_type(e.value, f, self_cls, env)
            out = []
            for m in members(bt):
                if m[0] == "cls":
                    if e.attr == "__class__":
                        out.append(("type", m[1]))
                    elif e.attr == "__dict__":
                        out.append(("dict", STR, ANY))
                    else:
                        out.append(self.attr_type(m[1], e.attr))
                elif m[0] == "type":
                    meth = m[1].lookup_method(e.attr)
                    out.append(("func", meth) if meth else ANY)
                elif m[0] == "mod":
                    r = self.prog.resolve_name(m[1], e.attr)
                    if isinstance(r, Class):
                        out.append(("type", r))
                    elif isinstance(r, Func):
                        out.append(("func", r))
                    else:
                        out.append(ANY)
                elif m[0] == "extmod":
                    out.append(("extfunc", f"{m[1]}.{e.attr}"))
                elif m[0] == "ext":
                    out.append(("extattr", m[1], e.attr))
                elif m[0] in ("str", "list", "dict", "set", "tuple", "int"):
                    out.append(("builtin_method", m[0], e.attr, m))
                else:
                    out.append(ANY)
            return union(out)
        if isinstance(e, ast.Call):
            return self._call_type(e, f, self_cls, env)
        if isinstance(e, (ast.List, ast.ListComp)):
            if isinstance(e, ast.List):
                return ("list", union(self.expr_type(x.value if isinstance(x, ast.Starred) else x, f, self_cls, env) if not isinstance(x, ast.Starred) else elem(self.expr_type(x.value, f, self_cls, env)) for x in e.elts) if e.elts else ANY)
            return ("list", self._comp_elt(e, f, self_cls, env))
        if isinstance(e, (ast.Set, ast.SetComp)):
            if isinstance(e, ast.Set):
                return ("set", union(self.expr_type(x, f, self_cls, env) for x in e.elts))
            return ("set", self._comp_elt(e, f, self_cls, env))
        if isinstance(e, ast.GeneratorExp):
            return ("list", self._comp_elt(e, f, self_cls, env))
        if isinstance(e, ast.Tuple):
            return ("tuple", tuple(self.expr_type(x, f, self_cls, env) for x in e.elts))
        if isinstance(e, (ast.Dict, ast.DictComp)):
            return ("dict", ANY, ANY)
        if isinstance(e, ast.Subscript):
            bt = self.expr_type(e.value, f, self_cls, env)
            if isinstance(e.slice, ast.Slice):
                return bt
            out = []
            for m in members(bt):
                if m[0] in ("list", "set"):
                    out.append(m[1])
                elif m[0] == "dict":
                    out.append(m[2])
                elif m[0] == "tuple":
                    if isinstance(e.slice, ast.Constant) and isinstance(e.slice.value, int) and -len(m[1]) <= e.slice.value < len(m[1]):
                        out.append(m[1][e.slice.value])
                    else:
                        out.append(union(m[1]) if m[1] else ANY)
                elif m[0] == "str":
                    out.append(STR)
                else:
                    out.append(ANY)
            return union(out)
        if isinstance(e, ast.BoolOp):
            return union(self.expr_type(v, f, self_cls, env) for v in e.values)
        if isinstance(e, ast.IfExp):
            return union([self.expr_type(e.body, f, self_cls, env), self.expr_type(e.orelse, f, self_cls, env)])
        if isinstance(e, ast.NamedExpr):
            return self.expr_type(e.value, f, self_cls, env)
        if isinstance(e, ast.Compare):
            return BOOL
        if isinstance(e, ast.UnaryOp):
            return BOOL if isinstance(e.op, ast.Not) else self.expr_type(e.operand, f, self_cls, env)
        if isinstance(e, ast.BinOp):
            lt = self.expr_type(e.left, f, self_cls, env)
            return lt if lt[0] in ("str", "int", "list") else ANY
        if isinstance(e, ast.Starred):
            return self.expr_type(e.value, f, self_cls, env)
        return ANY

    def _comp_elt(self, e, f: Func, self_cls, env) -> T:
        env2 = dict(env)
        for g in e.generators:
            et = elem(self.expr_type(g.iter, f, self_cls, env2))
            if isinstance(g.iter, ast.Call) and isinstance(g.iter.func, ast.Name) and g.iter.func.id == "enumerate" and g.iter.args:
                et = ("tuple", (INT, elem(self.expr_type(g.iter.args[0], f, self_cls, env2))))
            if isinstance(g.iter, ast.Call) and isinstance(g.iter.func, ast.Name) and g.iter.func.id == "zip" and g.iter.args and not g.iter.keywords and not any(isinstance(a, ast.Starred) for a in g.iter.args):
                et = ("tuple", tuple(elem(self.expr_type(a, f, self_cls, env2)) for a in g.iter.args))
            acc: Dict[str, List[T]] = {}
            self._bind(g.target, et, acc)
            for k, v in acc.items():
                env2[k] = union(v)
        # isinstance filter narrows the element
        elt_t = self.expr_type(e.elt, f, self_cls, env2)
        for g in e.generators:
            for cond in g.ifs:
                nar = self._isinstance_narrow(cond, e.elt, f)
                if nar is not None:
                    elt_t = nar
        return elt_t

    def _isinstance_narrow(self, cond: ast.AST, subject: ast.AST, f: Func) -> Optional[T]:
        if isinstance(cond, ast.Call) and isinstance(cond.func, ast.Name) and cond.func.id == "isinstance" and len(cond.args) == 2:
            if ast.dump(cond.args[0]) == ast.dump(subject):
                spec = cond.args[1]
                elts = spec.elts if isinstance(spec, ast.Tuple) else [spec]
                ts = [self.ann(x, f.module) for x in elts]
                return union(ts)
        return None

    def _call_type(self, e: ast.Call, f: Func, self_cls, env) -> T:  # noqa: C901
        fn = e.func
        # re.search / re.match / re.fullmatch (module functions or methods of a compiled pattern) give Optional[Match]
        if isinstance(fn, ast.Attribute) and fn.attr in ("search", "match", "fullmatch") and isinstance(fn.value, ast.Name) and fn.value.id not in env:
            r_ = self.prog.resolve_name(f.module, fn.value.id)
            if isinstance(r_, tuple) and r_[0] == "ext" and r_[1] == "re":
                return union([("ext", "re.Match"), NONE])
        if isinstance(fn, ast.Name):
            if fn.id not in env:
                b = {
                    "str": STR,
                    "int": INT,
                    "bool": BOOL,
                    "len": INT,
                    "repr": STR,
                    "isinstance": BOOL,
                    "hasattr": BOOL,
                    "format": STR,
                }
                if fn.id in b and self.prog.resolve_name(f.module, fn.id) is None:
                    return b[fn.id]
                if fn.id in ("list", "sorted", "reversed") and e.args:
                    return ("list", elem(self.expr_type(e.args[0], f, self_cls, env)))
                if fn.id in ("set", "frozenset") and e.args:
                    return ("set", elem(self.expr_type(e.args[0], f, self_cls, env)))
                if fn.id in ("list",):
                    return ("list", ANY)
                if fn.id in ("set",):
                    return ("set", ANY)
                if fn.id == "dict":
                    return ("dict", STR, ANY)
                if fn.id == "tuple":
                    return ("list", elem(self.expr_type(e.args[0], f, self_cls, env))) if e.args else ("tuple", ())
                if fn.id == "range":
                    return ("list", INT)
                if fn.id == "super":
                    base = self_cls or f.cls
                    if base is not None and f.cls is not None:
                        mro = base.mro
                        if f.cls in mro:
                            rest = mro[mro.index(f.cls) + 1 :]
                            return ("super", tuple(rest), base)
                    return ANY
                if fn.id == "getattr" and len(e.args) >= 2 and isinstance(e.args[1], ast.Constant):
                    fake = ast.Attribute(value=e.args[0], attr=e.args[1].value, ctx=ast.Load())
                    return self.expr_type(fake, f, self_cls, env)
        ft = self.expr_type(fn, f, self_cls, env)
        out = []
        for m in members(ft):
            if m[0] == "type":
                out.append(("cls", m[1]))
            elif m[0] == "func":
                g: Func = m[1]
                if g.name == "copy" and isinstance(fn, ast.Attribute):
                    rt = self.expr_type(fn.value, f, self_cls, env)
                    cl = classes_of(rt)
                    out.append(union(("cls", c) for c in cl) if cl else ANY)
                else:
                    out.append(self.return_type(g))
            elif m[0] == "extfunc":
                nm = m[1].split(".")[-1]
                out.append(("ext", nm) if nm[:1].isupper() else ANY)
            elif m[0] == "extmod":
                nm = m[1].split(".")[-1]
                out.append(("ext", nm) if nm[:1].isupper() else ANY)
            elif m[0] == "builtin_method":
                _, base, meth, recv = m
                if base == "str":
                    if meth in ("split", "splitlines", "rsplit"):
                        out.append(("list", STR))
                    elif meth in ("startswith", "endswith", "isdigit", "isalpha"):
                        out.append(BOOL)
                    elif meth in ("find", "index", "count"):
                        out.append(INT)
                    else:
                        out.append(STR)
                elif base in ("list", "set") and meth in ("copy", "union", "intersection", "difference"):
                    out.append(recv)
                elif base == "list" and meth == "pop":
                    out.append(recv[1])
                elif base == "dict" and meth in ("get", "pop", "setdefault"):
                    out.append(recv[2])
                elif base == "dict" and meth == "items":
                    out.append(("list", ("tuple", (recv[1], recv[2]))))
                elif base == "dict" and meth == "values":
                    out.append(("list", recv[2]))
                elif base == "dict" and meth == "keys":
                    out.append(("list", recv[1]))
                elif base == "dict" and meth == "copy":
                    out.append(recv)
                else:
                    out.append(ANY)
            else:
                out.append(ANY)
        return union(out)


def _guarded_not_none(stmt: ast.AST, name: str, top: ast.AST) -> bool:
    """`stmt` stands in the body of an `if` whose test has the conjunct `name is not None` (or `name` itself)."""
    child = stmt
    par = getattr(stmt, "_parent", None)
    while par is not None and par is not top:
        if isinstance(par, ast.If) and any(child is b for b in par.body):
            conj = par.test.values if isinstance(par.test, ast.BoolOp) and isinstance(par.test.op, ast.And) else [par.test]
            for c in conj:
                if isinstance(c, ast.Compare) and len(c.ops) == 1 and isinstance(c.ops[0], ast.IsNot) and isinstance(c.left, ast.Name) and c.left.id == name and isinstance(c.comparators[0], ast.Constant) and c.comparators[0].value is None:
                    return True
                if isinstance(c, ast.Name) and c.id == name:
                    return True
        child, par = par, getattr(par, "_parent", None)
    return False


def _is_self_attr(node: ast.AST, attr: str) -> bool:
    return isinstance(node, ast.Attribute) and isinstance(node.value, ast.Name) and node.value.id == "self" and node.attr == attr
