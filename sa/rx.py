"""E9 regex facts from `re._parser` over *folded pattern strings* (stdlib code on a constant)."""

from __future__ import annotations

import re
from typing import Any, List, Optional, Set, Tuple

try:
    import re._parser as sre_parse  # py311+
    import re._constants as sre_c
except ImportError:  # pragma: no cover
    import sre_parse  # type: ignore
    import sre_constants as sre_c  # type: ignore

MAXREPEAT = sre_c.MAXREPEAT


def parse(pattern: str, flags: int = 0):
    return sre_parse.parse(pattern, flags)


def group_count(pattern: str) -> int:
    return re.compile(pattern).groups


def _items(sub) -> List[Tuple[Any, Any]]:
    return list(sub)


def alternation_literals(pattern: str) -> List[str]:
    """Literal prefixes of the top-level alternation branches (descending into non-capturing groups).

    'any|host X|(?:object-group|addrgroup) \\S+' -> ['any', 'host ', 'object-group', 'addrgroup', ...]
    """
    out: List[str] = []

    def prefixes(sub) -> List[str]:
        items = _items(sub)
        if not items:
            return [""]
        op, av = items[0]
        if op is sre_c.BRANCH and len(items) == 1:
            res: List[str] = []
            for br in av[1]:
                res.extend(prefixes(br))
            return res
        acc = [""]
        for op, av in items:
            if op is sre_c.LITERAL:
                acc = [a + chr(av) for a in acc]
            elif op is sre_c.SUBPATTERN:
                inner = prefixes(av[3])
                acc = [a + b for a in acc for b in inner]
                # a sub-pattern with an alternation ends the deterministic prefix
                if any(o is sre_c.BRANCH for o, _ in _items(av[3])):
                    return acc
            elif op is sre_c.BRANCH:
                res = []
                for br in av[1]:
                    res.extend(a + b for a in acc for b in prefixes(br))
                return res
            else:
                return acc
        return acc

    out = prefixes(parse(pattern))
    return out


def capture_groups(pattern: str) -> List[Tuple[int, Optional[str], str]]:
    """(group number, name, source-ish dump) of every capturing group in order of opening."""
    comp = re.compile(pattern)
    names = {v: k for k, v in comp.groupindex.items()}
    out: List[Tuple[int, Optional[str], str]] = []

    def walk(sub):
        for op, av in _items(sub):
            if op is sre_c.SUBPATTERN:
                gid = av[0]
                if gid is not None:
                    out.append((gid, names.get(gid), ""))
                walk(av[3])
            elif op is sre_c.BRANCH:
                for br in av[1]:
                    walk(br)
            elif op in (sre_c.MAX_REPEAT, sre_c.MIN_REPEAT):
                walk(av[2])
            elif op in (sre_c.ASSERT, sre_c.ASSERT_NOT):
                walk(av[1])
            elif op is sre_c.GROUPREF_EXISTS:
                walk(av[1])
                if av[2]:
                    walk(av[2])

    walk(parse(pattern))
    out.sort()
    return out


# ------------------------------------------------------------------ backtracking hazards


def _first_set(sub) -> Tuple[Set[str], bool]:
    """(set of 'classes' that can start the sub-pattern, nullable)."""
    first: Set[str] = set()
    for op, av in _items(sub):
        if op is sre_c.LITERAL:
            first.add(f"c{av}")
            return first, False
        if op is sre_c.NOT_LITERAL:
            first.add("ANY")
            return first, False
        if op is sre_c.ANY:
            first.add("ANY")
            return first, False
        if op is sre_c.IN:
            for o2, a2 in av:
                if o2 is sre_c.LITERAL:
                    first.add(f"c{a2}")
                elif o2 is sre_c.CATEGORY:
                    first.add(str(a2))
                elif o2 is sre_c.RANGE:
                    first.add(f"r{a2[0]}-{a2[1]}")
                elif o2 is sre_c.NEGATE:
                    first.add("ANY")
            return first, False
        if op is sre_c.SUBPATTERN:
            f2, nul = _first_set(av[3])
            first |= f2
            if not nul:
                return first, False
            continue
        if op is sre_c.BRANCH:
            nul_any = False
            for br in av[1]:
                f2, nul = _first_set(br)
                first |= f2
                nul_any = nul_any or nul
            if not nul_any:
                return first, False
            continue
        if op in (sre_c.MAX_REPEAT, sre_c.MIN_REPEAT):
            lo, hi, body = av
            f2, nul = _first_set(body)
            first |= f2
            if lo > 0 and not nul:
                return first, False
            continue
        if op is sre_c.AT:
            continue
        first.add("ANY")
        return first, False
    return first, True


def _overlap(a: Set[str], b: Set[str]) -> bool:
    if not a or not b:
        return False
    if "ANY" in a or "ANY" in b:
        return True
    if a & b:
        return True
    # categories vs literals: be conservative
    cats_a = {x for x in a if x.startswith("CATEGORY")}
    cats_b = {x for x in b if x.startswith("CATEGORY")}

    def lit_in_cat(l: str, c: str) -> bool:
        if not l.startswith("c"):
            return True
        ch = chr(int(l[1:]))
        if "DIGIT" in c:
            return ch.isdigit() != ("NOT" in c)
        if "SPACE" in c:
            return ch.isspace() != ("NOT" in c)
        if "WORD" in c:
            return (ch.isalnum() or ch == "_") != ("NOT" in c)
        return True

    for c in cats_a:
        for l in b:
            if l.startswith("CATEGORY"):
                if l == c or ("NOT" in l) or ("NOT" in c):
                    return True
            elif lit_in_cat(l, c):
                return True
    for c in cats_b:
        for l in a:
            if not l.startswith("CATEGORY") and lit_in_cat(l, c):
                return True
    return False


def unbounded(lo, hi) -> bool:
    return hi is MAXREPEAT or hi == MAXREPEAT


def hazards(pattern: str) -> Tuple[List[str], int]:
    """(exponential hazards, polynomial degree estimate).

    Exponential: an unbounded repeat whose body contains an unbounded repeat (star height 2) where
    the inner body can match what follows it inside the outer body (ambiguous split), or an
    alternation under an unbounded repeat whose branches overlap.
    Polynomial degree: the largest number of adjacent unbounded repeats over overlapping classes.
    """
    exp: List[str] = []
    degree = [1]

    def contains_unbounded(sub) -> bool:
        for op, av in _items(sub):
            if op in (sre_c.MAX_REPEAT, sre_c.MIN_REPEAT):
                if unbounded(av[0], av[1]):
                    return True
                if contains_unbounded(av[2]):
                    return True
            elif op is sre_c.SUBPATTERN and contains_unbounded(av[3]):
                return True
            elif op is sre_c.BRANCH and any(contains_unbounded(b) for b in av[1]):
                return True
        return False

    def walk(sub, under_unbounded: bool):
        items = _items(sub)
        run = 0
        prev_first: Set[str] = set()
        for op, av in items:
            if op in (sre_c.MAX_REPEAT, sre_c.MIN_REPEAT):
                lo, hi, body = av
                ub = unbounded(lo, hi)
                f2, _ = _first_set(body)
                if ub and contains_unbounded(body):
                    exp.append(f"nested unbounded repeat: {body}")
                if ub:
                    if run and _overlap(prev_first, f2):
                        run += 1
                    else:
                        run = 1
                    prev_first = f2
                    degree[0] = max(degree[0], run)
                walk(body, under_unbounded or ub)
            elif op is sre_c.SUBPATTERN:
                # optional/plain group: look inside for adjacency as well
                inner_items = _items(av[3])
                walk(av[3], under_unbounded)
                if contains_unbounded(av[3]):
                    f2, _ = _first_set(av[3])
                    # adjacency across group borders is approximated by the first set of the group
                    if run and _overlap(prev_first, {"ANY"} if any(o is sre_c.ANY for o, _ in inner_items) else f2):
                        run += 1
                    else:
                        run = 1
                    prev_first = {"ANY"} if _has_any_repeat(av[3]) else f2
                    degree[0] = max(degree[0], run)
            elif op is sre_c.BRANCH:
                firsts = []
                for br in av[1]:
                    walk(br, under_unbounded)
                    firsts.append(_first_set(br)[0])
                if under_unbounded:
                    for i in range(len(firsts)):
                        for j in range(i + 1, len(firsts)):
                            if _overlap(firsts[i], firsts[j]):
                                exp.append("overlapping alternation under unbounded repeat")
            elif op in (sre_c.ASSERT, sre_c.ASSERT_NOT):
                walk(av[1], under_unbounded)
            else:
                if op is not sre_c.AT:
                    # a mandatory literal/class between repeats does not reset polynomial ambiguity when
                    # the neighbours are `.+`; keep the run only if previous first-set is ANY
                    if "ANY" not in prev_first:
                        run = 0
                        prev_first = set()

    def _has_any_repeat(sub) -> bool:
        for op, av in _items(sub):
            if op in (sre_c.MAX_REPEAT, sre_c.MIN_REPEAT):
                if unbounded(av[0], av[1]) and any(o is sre_c.ANY for o, _ in _items(av[2])):
                    return True
            elif op is sre_c.SUBPATTERN and _has_any_repeat(av[3]):
                return True
        return False

    walk(parse(pattern), False)
    return exp, degree[0]


def is_nonspace_run(pattern: str) -> bool:
    """The pattern is one maximal run of non-whitespace characters: \\S+ , [^\\s]+ , [^ ]+ (possibly in one group)."""
    try:
        items = _items(parse(pattern))
    except re.error:
        return False
    while len(items) == 1 and items[0][0] is sre_c.SUBPATTERN:
        items = _items(items[0][1][3])
    if len(items) != 1 or items[0][0] not in (sre_c.MAX_REPEAT,):
        return False
    lo, hi, body = items[0][1]
    if lo != 1 or hi != MAXREPEAT:
        return False
    b = _items(body)
    if len(b) != 1 or b[0][0] is not sre_c.IN:
        if len(b) == 1 and b[0][0] is sre_c.NOT_LITERAL and chr(b[0][1]) == " ":
            return True
        return False
    cls = list(b[0][1])
    if cls == [(sre_c.CATEGORY, sre_c.CATEGORY_NOT_SPACE)]:
        return True
    if cls and cls[0][0] is sre_c.NEGATE:
        rest = cls[1:]
        if rest == [(sre_c.CATEGORY, sre_c.CATEGORY_SPACE)] or rest == [(sre_c.LITERAL, ord(" "))]:
            return True
    return False


def is_space_run(pattern: str) -> bool:
    """The pattern matches only runs of whitespace: \\s+ , ' +' , [ \\t]+ ."""
    try:
        items = _items(parse(pattern))
    except re.error:
        return False
    if len(items) != 1 or items[0][0] is not sre_c.MAX_REPEAT:
        return False
    lo, hi, body = items[0][1]
    if lo != 1 or hi != MAXREPEAT:
        return False
    b = _items(body)
    if len(b) != 1:
        return False
    op, av = b[0]
    if op is sre_c.LITERAL:
        return chr(av).isspace()
    if op is sre_c.IN:
        return all((o is sre_c.CATEGORY and a is sre_c.CATEGORY_SPACE) or (o is sre_c.LITERAL and chr(a).isspace()) for o, a in av)
    return False


def group_spans(pattern: str) -> List[Tuple[int, int, Optional[str]]]:
    """(start, end, name) of every capturing group's *body* in the pattern text, in group-number order."""
    out: List[Tuple[int, int, Optional[str]]] = []
    stack: List[Tuple[int, bool, Optional[str], int]] = []  # (body start, capturing, name, slot)
    i, n = 0, len(pattern)
    in_class = False
    while i < n:
        c = pattern[i]
        if c == "\\":
            i += 2
            continue
        if in_class:
            if c == "]":
                in_class = False
            i += 1
            continue
        if c == "[":
            in_class = True
            i += 1
            if i < n and pattern[i] == "^":
                i += 1
            if i < n and pattern[i] == "]":
                i += 1
            continue
        if c == "(":
            name = None
            capturing = True
            j = i + 1
            if pattern.startswith("(?P<", i):
                k = pattern.index(">", i)
                name = pattern[i + 4 : k]
                j = k + 1
            elif pattern.startswith("(?", i):
                capturing = False
                # skip the extension marker up to ':' for (?:...) ; other extensions are not bodies we need
                j = i + 3 if pattern.startswith("(?:", i) else i + 2
            slot = -1
            if capturing:
                out.append((j, -1, name))
                slot = len(out) - 1
            stack.append((j, capturing, name, slot))
            i = j
            continue
        if c == ")":
            if stack:
                start, capturing, name, slot = stack.pop()
                if capturing:
                    out[slot] = (start, i, name)
            i += 1
            continue
        i += 1
    return out


def group_text(pattern: str, which) -> Optional[str]:
    """Body text of a capturing group given by number (1-based) or name."""
    spans = group_spans(pattern)
    for idx, (a, b, name) in enumerate(spans, start=1):
        if which == idx or (isinstance(which, str) and which == name):
            return pattern[a:b] if b >= 0 else None
    return None


def leading_optional_digits(pattern: str) -> bool:
    """The pattern starts (after ^) with an optional capturing group whose body is one or more decimal digits."""
    try:
        items = _items(parse(pattern))
    except re.error:
        return False
    if items and items[0][0] is sre_c.AT:
        items = items[1:]
    if not items or items[0][0] is not sre_c.MAX_REPEAT:
        return False
    lo, hi, body = items[0][1]
    b = _items(body)
    if (lo, hi) != (0, 1) or len(b) != 1 or b[0][0] is not sre_c.SUBPATTERN:
        return False
    inner = _items(b[0][1][3])
    if len(inner) != 1 or inner[0][0] is not sre_c.MAX_REPEAT:
        return False
    lo2, hi2, body2 = inner[0][1]
    b2 = _items(body2)
    return lo2 == 1 and hi2 == MAXREPEAT and len(b2) == 1 and b2[0][0] is sre_c.IN and list(b2[0][1]) == [(sre_c.CATEGORY, sre_c.CATEGORY_DIGIT)]
