"""E7 exception summaries: which exception classes may escape a function, with the raising site.

Explicit `raise` statements and a table of raising external callables are the sources; enclosing
`try` handlers subtract what they catch (class hierarchy and handler order respected) and add what
their bodies raise.  Implicit raisers (subscripts, unpacking, ...) are *obligations* handled by the
C20 rules, not by this summary.
"""

from __future__ import annotations

import ast
from typing import Dict, List, Optional, Set, Tuple

from .cfg import exc_is_subclass, handler_classes, raised_class
from .model import Class, Func, own_nodes

# external callables that raise on bad input -> exception classes
EXT_RAISES: Dict[str, Tuple[str, ...]] = {
    "ipaddress.IPv4Address": ("AddressValueError",),
    "ipaddress.IPv4Network": ("AddressValueError", "NetmaskValueError", "ValueError"),
    "builtins.int": ("ValueError",),
    "netports.SwVersion": (),
    "netports.iip": ("ValueError", "TypeError"),
    "netports.itcp": ("ValueError", "TypeError"),
    "vhelpers.vlist.to_multi": (),
    "vhelpers.vlist.flatten": (),
}

Site = Tuple[str, int, str]  # qualname, line, text


class Excs:
    def __init__(self, ctx):
        self.ctx = ctx
        self._sum: Dict[int, Dict[str, Site]] = {}
        self._busy: Set[int] = set()
        self._stable = False
        self._solve()

    # ------------------------------------------------------------------ public
    def escapes(self, f: Func) -> Dict[str, Site]:
        return self._sum.get(id(f), {})

    def may_raise(self, f: Func) -> bool:
        return bool(self.escapes(f))

    def call_raises(self, caller: Func, call: ast.AST) -> Dict[str, Site]:
        """Exception classes a call site may raise (before enclosing handlers)."""
        out: Dict[str, Site] = {}
        for e in self.ctx.cg.all_edges(caller):
            if e.site is not call:
                continue
            if isinstance(e.target, Func):
                if e.weak:
                    continue
                for k, v in self.escapes(e.target).items():
                    out.setdefault(k, v)
                if e.kind == "setter" or e.kind == "getter":
                    pass
            elif isinstance(e.target, str):
                for k in self._ext(caller, call, e.target):
                    out.setdefault(k, (caller.qualname, getattr(call, "lineno", 0), _txt(call)))
        return out

    # ------------------------------------------------------------------ internals
    def _ext(self, caller: Func, call: ast.AST, name: str) -> Tuple[str, ...]:
        if name in EXT_RAISES:
            if name == "builtins.int" and isinstance(call, ast.Call) and call.args:
                t = self.ctx.types.expr_type(call.args[0], caller)
                if t in (("int",), ("bool",)):
                    return ()
            return EXT_RAISES[name]
        short = name.split(".")[-1]
        for k, v in EXT_RAISES.items():
            if k.split(".")[-1] == short and short[:1].isupper():
                return v
        return ()

    def _solve(self) -> None:
        funcs = list(self.ctx.prog.funcs)
        for f in funcs:
            self._sum[id(f)] = {}
        for _ in range(12):
            changed = False
            for f in funcs:
                new = self._scan(f)
                old = self._sum[id(f)]
                if set(new) != set(old):
                    merged = dict(old)
                    for k, v in new.items():
                        merged.setdefault(k, v)
                    if set(merged) != set(old):
                        self._sum[id(f)] = merged
                        changed = True
            if not changed:
                break

    def _scan(self, f: Func) -> Dict[str, Site]:
        out: Dict[str, Site] = {}
        edges_by_site: Dict[int, list] = {}
        for e in self.ctx.cg.all_edges(f):
            edges_by_site.setdefault(id(e.site), []).append(e)

        def raised_at(n: ast.AST) -> Dict[str, Site]:
            r: Dict[str, Site] = {}
            if isinstance(n, ast.Raise):
                name = raised_class(n)
                if name is None:
                    # bare raise / raise type(ex)(...): the classes of the enclosing handler
                    h = _enclosing_handler(n, f.node)
                    for c in handler_classes(h) if h is not None else ["Exception"]:
                        r[c] = (f.qualname, n.lineno, _txt(n))
                else:
                    r[name] = (f.qualname, n.lineno, _txt(n))
            for e in edges_by_site.get(id(n), []):
                if isinstance(e.target, Func):
                    if e.weak or e.target is f:
                        continue
                    for k, v in self._sum.get(id(e.target), {}).items():
                        r.setdefault(k, v)
                elif isinstance(e.target, str) and isinstance(n, ast.Call):
                    for k in self._ext(f, n, e.target):
                        r.setdefault(k, (f.qualname, getattr(n, "lineno", 0), _txt(n)))
            return r

        for n in own_nodes(f.node):
            if not isinstance(n, (ast.Raise, ast.Call, ast.Attribute)):
                continue
            r = raised_at(n)
            if not r:
                continue
            for cls_name, site in r.items():
                if not self._caught(n, cls_name, f.node):
                    out.setdefault(cls_name, site)
        return out

    @staticmethod
    def _caught(n: ast.AST, cls_name: str, fn: ast.AST) -> bool:
        """Is an exception of class cls_name raised at node n caught by an enclosing try (inside fn)?"""
        child = n
        p = getattr(n, "_parent", None)
        while p is not None and p is not fn:
            if isinstance(p, ast.Try) and _in_body(child, p):
                for h in p.handlers:
                    caught = handler_classes(h)
                    if not caught or any(exc_is_subclass(cls_name, c) for c in caught):
                        return True
            child = p
            p = getattr(p, "_parent", None)
        return False


def _in_body(child: ast.AST, t: ast.Try) -> bool:
    return any(child is s for s in t.body)


def _enclosing_handler(n: ast.AST, fn: ast.AST) -> Optional[ast.ExceptHandler]:
    p = getattr(n, "_parent", None)
    while p is not None and p is not fn:
        if isinstance(p, ast.ExceptHandler):
            return p
        p = getattr(p, "_parent", None)
    return None


def _txt(n: ast.AST) -> str:
    try:
        return " ".join(ast.unparse(n).split())[:90]
    except Exception:  # pragma: no cover
        return type(n).__name__
