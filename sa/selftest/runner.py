"""E14 self-test: apply qualname-addressed edits to a scratch copy of the tree and run the checker on it.

Mutants must fire (VIOLATION naming the mutated function); twins (behaviour-preserving edits) must
stay silent (exit 0, no ANALYSIS-ERROR).  The library is never executed: only the checker runs.
"""

from __future__ import annotations

import ast
import io
import json
import os
import shutil
import sys
import tempfile
import time
from concurrent.futures import ProcessPoolExecutor
from contextlib import redirect_stdout
from typing import Any, Dict, List, Optional, Tuple


def _func_span(source: str, qual: str) -> Tuple[int, int]:
    """(start offset, end offset) of the function/class/module-level region addressed by `qual`.

    qual: 'Class.method', 'Class.prop.setter', 'Class.prop.getter', 'function', 'Class', '<module>'.
    """
    if qual == "<module>":
        return 0, len(source)
    tree = ast.parse(source)
    parts = qual.split(".")
    lines = source.splitlines(keepends=True)
    offs = [0]
    for ln in lines:
        offs.append(offs[-1] + len(ln))

    def span(node) -> Tuple[int, int]:
        start = node.lineno
        if getattr(node, "decorator_list", None):
            start = min(d.lineno for d in node.decorator_list)
        return offs[start - 1], offs[node.end_lineno]

    def find(body, name, want_kind=None):
        for n in body:
            if isinstance(n, (ast.FunctionDef, ast.ClassDef)) and n.name == name:
                if want_kind is None:
                    decs = [ast.unparse(d) for d in getattr(n, "decorator_list", [])]
                    if any(d.endswith(".setter") for d in decs):
                        continue
                    return n
                decs = [ast.unparse(d) for d in n.decorator_list]
                if want_kind == "setter" and any(d.endswith(".setter") for d in decs):
                    return n
                if want_kind == "getter" and "property" in decs:
                    return n
        return None

    node: Any = tree
    i = 0
    while i < len(parts):
        kind = None
        if i + 1 < len(parts) and parts[i + 1] in ("getter", "setter"):
            kind = parts[i + 1]
        nxt = find(node.body, parts[i], kind)
        if nxt is None:
            raise KeyError(qual)
        node = nxt
        i += 2 if kind else 1
    return span(node)


def apply_edits(root: str, edits: List[Dict[str, str]]) -> Optional[str]:
    """Apply edits in place under root; return None on success or a reason when an anchor is absent."""
    for e in edits:
        path = os.path.join(root, "cisco_acl", e["file"])
        if not os.path.exists(path):
            return f"file {e['file']} absent"
        with open(path, "r", encoding="utf-8") as fh:
            s = fh.read()
        try:
            a, b = _func_span(s, e["qual"])
        except KeyError:
            return f"anchor {e['qual']} absent"
        region = s[a:b]
        if region.count(e["old"]) != 1:
            return f"pattern occurs {region.count(e['old'])}x in {e['qual']}"
        region = region.replace(e["old"], e["new"])
        s2 = s[:a] + region + s[b:]
        try:
            compile(s2, path, "exec")
        except SyntaxError as ex:
            return f"mutant does not compile: {ex}"
        with open(path, "w", encoding="utf-8") as fh:
            fh.write(s2)
    return None


def _run_one(args) -> Dict[str, Any]:
    case, root, props = args
    tmp = tempfile.mkdtemp(prefix="verif-mut-")
    try:
        shutil.copytree(os.path.join(root, "cisco_acl"), os.path.join(tmp, "cisco_acl"))
        if case.get("base"):
            # the mutant is written against a kept behaviour-preserving refactoring: apply that first
            import subprocess

            verif = os.path.dirname(os.path.dirname(os.path.dirname(os.path.abspath(__file__))))
            patch = os.path.join(verif, "twins", case["base"], "patch.diff")
            p = subprocess.run(["git", "apply", "--unsafe-paths", f"--directory={tmp}", patch], cwd=tmp, capture_output=True, text=True)
            if p.returncode != 0:
                return {"id": case["id"], "status": "n/a", "why": f"twin {case['base']} does not apply to the current tree"}
        why = apply_edits(tmp, case["edits"])
        if why is not None:
            return {"id": case["id"], "status": "n/a", "why": why}
        from sa import check as chk

        res = {}
        for pid in props:
            buf = io.StringIO()
            outd = os.path.join(tmp, "out")
            evd = os.path.join(tmp, "ev")
            with redirect_stdout(buf):
                try:
                    code = chk.run_property(pid, "quick", tmp, outd, evd, quiet=False)
                except Exception as ex:  # noqa: BLE001
                    code = 2
                    print(f"ANALYSIS-ERROR {type(ex).__name__}: {ex}")
            res[pid] = {"exit": code, "out": buf.getvalue()}
        return {"id": case["id"], "status": "ran", "res": res}
    finally:
        shutil.rmtree(tmp, ignore_errors=True)


def run_cases(cases: List[Dict[str, Any]], root: str, jobs: int = 16) -> List[Dict[str, Any]]:
    work = []
    for c in cases:
        work.append((c, root, c["props"]))
    if not work:
        return []
    from sa.check import preload

    preload()
    with ProcessPoolExecutor(max_workers=min(jobs, len(work))) as ex:
        return list(ex.map(_run_one, work))


def evaluate(cases: List[Dict[str, Any]], results: List[Dict[str, Any]]) -> Dict[str, Any]:
    by_id = {r["id"]: r for r in results}
    applied = fired = 0
    weak: List[str] = []
    na: List[str] = []
    twins = twins_silent = 0
    noisy: List[str] = []
    for c in cases:
        r = by_id[c["id"]]
        if r["status"] == "n/a":
            na.append(f"{c['id']}: {r['why']}")
            continue
        if c.get("twin"):
            twins += 1
            bad = [p for p, x in r["res"].items() if x["exit"] != 0]
            if bad:
                noisy.append(f"{c['id']}: " + "; ".join(f"{p} exit={r['res'][p]['exit']} " + _first_line(r['res'][p]['out']) for p in bad))
            else:
                twins_silent += 1
            continue
        applied += 1
        ok = True
        for p in c["props"]:
            x = r["res"][p]
            hit = x["exit"] == 1 and "VIOLATION" in x["out"]
            if hit and c.get("expect"):
                hit = c["expect"] in x["out"]
            if not hit:
                ok = False
                weak.append(f"{c['id']} [{p}] exit={x['exit']} {_first_line(x['out'])}")
        if ok:
            fired += 1
    return {"applied": applied, "fired": fired, "weak": weak, "not_applicable_on_this_tree": na, "twins": twins, "twins_silent": twins_silent, "noisy_twins": noisy}


def _first_line(out: str) -> str:
    for ln in out.splitlines():
        if ln.startswith(("ANALYSIS-ERROR", "VIOLATION", "  R")):
            return ln[:200]
    return ""


def _run_seed(args) -> Dict[str, Any]:
    """Apply a kept, independently seeded change to a scratch copy of the current tree and run one property on it."""
    name, patch, pid, root = args
    import subprocess

    tmp = tempfile.mkdtemp(prefix="verif-seedrun-")
    try:
        shutil.copytree(os.path.join(root, "cisco_acl"), os.path.join(tmp, "cisco_acl"))
        p = subprocess.run(["git", "apply", "--unsafe-paths", f"--directory={tmp}", patch], cwd=tmp, capture_output=True, text=True)
        if p.returncode != 0:
            p = subprocess.run(["patch", "-p1", "-s", "-i", patch], cwd=tmp, capture_output=True, text=True)
            if p.returncode != 0:
                return {"seed": name, "status": "n/a", "why": "patch does not apply to the current tree"}
        from sa import check as chk

        buf = io.StringIO()
        with redirect_stdout(buf):
            try:
                code = chk.run_property(pid, "quick", tmp, os.path.join(tmp, "out"), os.path.join(tmp, "ev"), quiet=False)
            except Exception as ex:  # noqa: BLE001
                code = 2
                print(f"ANALYSIS-ERROR {type(ex).__name__}: {ex}")
        return {"seed": name, "status": "ran", "exit": code, "first": _first_line(buf.getvalue())}
    finally:
        shutil.rmtree(tmp, ignore_errors=True)


def run_seeds_for_property(pid: str, root: str) -> Dict[str, Any]:
    """Every kept seed that breaks `pid` (per its meta.json) must make `pid`'s check exit 1 on the current tree + seed."""
    import glob

    verif = os.path.dirname(os.path.dirname(os.path.dirname(os.path.abspath(__file__))))
    work = []
    documented: List[str] = []
    for d in sorted(glob.glob(os.path.join(verif, "seeded", "*"))):
        try:
            with open(os.path.join(d, "meta.json"), "r", encoding="utf-8") as fh:
                meta = json.load(fh)
        except (OSError, ValueError):
            continue
        if meta.get("breaks_property") == pid:
            if meta.get("documented_miss"):
                documented.append(f"{os.path.basename(d)}: {meta['documented_miss']}")
                continue
            work.append((os.path.basename(d), os.path.join(d, "patch.diff"), pid, root))
    out = {"seeds": len(work), "caught": 0, "missed": [], "not_applicable": [], "documented_misses": documented}
    if not work:
        return out
    from sa.check import preload

    preload()
    with ProcessPoolExecutor(max_workers=min(8, len(work))) as ex:
        for r in ex.map(_run_seed, work):
            if r["status"] == "n/a":
                out["not_applicable"].append(r["seed"])
            elif r["exit"] == 1:
                out["caught"] += 1
            else:
                out["missed"].append(f"{r['seed']} exit={r['exit']} {r['first']}")
    return out


def run_kept_twins_for_property(pid: str, root: str) -> Dict[str, Any]:
    """Every kept behaviour-preserving refactoring (/verif/twins/*) must leave `pid`'s check at exit 0."""
    import glob

    verif = os.path.dirname(os.path.dirname(os.path.dirname(os.path.abspath(__file__))))
    work = [(os.path.basename(d), os.path.join(d, "patch.diff"), pid, root) for d in sorted(glob.glob(os.path.join(verif, "twins", "*"))) if os.path.exists(os.path.join(d, "patch.diff"))]
    out = {"twins": len(work), "silent": 0, "noisy": [], "not_applicable": []}
    if not work:
        return out
    from sa.check import preload

    preload()
    with ProcessPoolExecutor(max_workers=min(12, len(work))) as ex:
        for r in ex.map(_run_seed, work):
            if r["status"] == "n/a":
                out["not_applicable"].append(r["seed"])
            elif r["exit"] == 0:
                out["silent"] += 1
            else:
                out["noisy"].append(f"{r['seed']} exit={r['exit']} {r['first']}")
    return out


def run_for_property(pid: str, root: str) -> Dict[str, Any]:
    from .mutants import MUTANTS, TWINS

    cases = [dict(m, props=[pid]) for m in MUTANTS if pid in m["props"]]
    cases += [dict(t, props=[pid], twin=True) for t in TWINS]
    res = run_cases(cases, root)
    out = evaluate(cases, res)
    out["independent_seeds"] = run_seeds_for_property(pid, root)
    out["independent_twins"] = run_kept_twins_for_property(pid, root)
    return out


def main(argv=None) -> int:
    import argparse

    from .mutants import MUTANTS, TWINS

    ap = argparse.ArgumentParser()
    ap.add_argument("--root", default=os.environ.get("VERIF_REPO", "/repo"))
    ap.add_argument("--only", default="")
    ap.add_argument("--props", default="")
    ap.add_argument("-v", action="store_true")
    a = ap.parse_args(argv)
    from sa.check import CLAIMED

    t0 = time.time()
    cases = [dict(m) for m in MUTANTS]
    implemented = [p for p in CLAIMED if _implemented(p)]
    for t in TWINS:
        cases.append(dict(t, props=implemented, twin=True))
    if a.only:
        cases = [c for c in cases if a.only in c["id"]]
    if a.props:
        want = set(a.props.split(","))
        cases = [dict(c, props=[p for p in c["props"] if p in want]) for c in cases]
        cases = [c for c in cases if c["props"]]
    cases = [dict(c, props=[p for p in c["props"] if p in implemented]) for c in cases]
    cases = [c for c in cases if c["props"]]
    res = run_cases(cases, a.root)
    summary = evaluate(cases, res)
    if a.v:
        for r in res:
            if r["status"] == "ran":
                for p, x in r["res"].items():
                    print(f"--- {r['id']} [{p}] exit={x['exit']}")
                    print("\n".join(l for l in x["out"].splitlines() if not l.startswith("RULE")))
    print(json.dumps(summary, indent=1))
    print(f"selftest: {summary['fired']}/{summary['applied']} mutants fired, {summary['twins_silent']}/{summary['twins']} twins silent, {time.time() - t0:.1f}s")
    return 0 if not summary["weak"] and not summary["noisy_twins"] else 1


def _implemented(pid: str) -> bool:
    import importlib

    m = importlib.import_module(f"sa.rules.{pid.lower()}")
    return getattr(m, "EXPLANATION", "") != "not implemented"


if __name__ == "__main__":
    sys.exit(main())
