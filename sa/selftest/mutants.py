"""Mutants (must fire) and refactor twins (must stay silent), addressed by qualname + pattern."""

from __future__ import annotations

from typing import Any, Dict, List


def E(file: str, qual: str, old: str, new: str) -> Dict[str, str]:
    return {"file": file, "qual": qual, "old": old, "new": new}


def M(id_: str, props: List[str], edits, expect: str = "") -> Dict[str, Any]:
    if isinstance(edits, dict):
        edits = [edits]
    return {"id": id_, "props": props, "edits": edits, "expect": expect}


MUTANTS: List[Dict[str, Any]] = [
    # ------------------------------------------------------------------ C03 / C04 / C11
    M("c03-drop-dstport-conjunct", ["C03", "C04", "C11"], E("ace.py", "Ace.shadow_of", "        if not self._shadow_of__dstport(other):\n            return False\n", ""), "Ace.shadow_of"),
    M("c03-drop-action-conjunct", ["C03"], E("ace.py", "Ace.shadow_of", "        if self._action != other.action:\n            return False\n", ""), "field _action"),
    M("c03-action-eq", ["C03"], E("ace.py", "Ace.shadow_of", "if self._action != other.action:", "if self._action == other.action:"), "field _action"),
    M("c03-option-returns-true", ["C03"], E("ace.py", "Ace.shadow_of", "        if not self._shadow_of__option(other):\n            return False\n", "        if not self._shadow_of__option(other):\n            return True\n"), "field _option"),
    M("c03-skip-elif (revert F4)", ["C03", "C11"], [E("ace.py", "Ace._shadow_of__srcaddr", '        if "nc_wildcard" in skip_:', '        elif "nc_wildcard" in skip_:'), E("ace.py", "Ace._shadow_of__dstaddr", '        if "nc_wildcard" in skip_:', '        elif "nc_wildcard" in skip_:')], "not independent"),
    M("c03-skip-returns-true", ["C03", "C11"], E("ace.py", "Ace._shadow_of__srcaddr", '            if "addrgroup" in [self.srcaddr.type, other.srcaddr.type]:\n                return False', '            if "addrgroup" in [self.srcaddr.type, other.srcaddr.type]:\n                return True'), "skip token"),
    M("c03-skip-not-forwarded", ["C03", "C11"], E("ace.py", "Ace.shadow_of", "self._shadow_of__dstaddr(other=other, skip=skip)", "self._shadow_of__dstaddr(other=other, skip=None)"), "forwarded"),
    M("c03-sibling-dst-reads-src", ["C03", "C11"], E("ace.py", "Ace._shadow_of__dstaddr", "tops = other.dstaddr.ipnets()", "tops = other.srcaddr.ipnets()"), "_shadow_of__"),
    M("c03-ports-truthiness (revert F5)", ["C03", "C04"], E("ace.py", "Ace._shadow_of__srcport", "        if not other.srcport.operator:\n            return True\n        top = set(other.srcport.ports)\n        if bottom := set(self._srcport.ports):\n            diff = bottom.intersection(top)\n            return diff == bottom\n        return False\n", "        if top := set(other.srcport.ports):\n            if bottom := set(self._srcport.ports):\n                diff = bottom.intersection(top)\n                return diff == bottom\n            return False\n        return True\n"), "_shadow_of__srcport"),
    M("c03-port-inclusion-reversed", ["C03"], E("ace.py", "Ace._shadow_of__dstport", "return diff == bottom", "return diff == top"), "wrong way"),
    M("c03-flag-inclusion-equality", ["C03"], E("ace.py", "Ace._shadow_of__option", "                diff = bottom.intersection(top)\n                return diff == bottom", "                return top == bottom"), "equal"),
    M("c03-protocol-wildcard-on-self", ["C03"], E("ace.py", "Ace._shadow_of__protocol", 'if other.protocol.name == "ip":', 'if self.protocol.name == "ip":'), "_shadow_of__protocol"),
    M("c03-protocol-always-true", ["C03"], E("ace.py", "Ace._shadow_of__protocol", "return other.protocol.number == self._protocol.number", "return True"), "_protocol"),
    M("c03-subnet_of-direction", ["C03"], E("helpers.py", "subnet_of", "if bottom.subnet_of(top):", "if top.subnet_of(bottom):"), "helpers.subnet_of"),
    M("c03-subnet_of-any-bottom", ["C03"], E("helpers.py", "subnet_of", "        else:\n            return False\n", "        else:\n            continue\n"), "helpers.subnet_of"),
    M("c03-subnet_of-empty-guard", ["C03"], E("helpers.py", "subnet_of", "    if not (tops and bottoms):\n        return False\n", ""), "empty"),
    M("c03-tops-bottoms-swapped", ["C03"], E("ace.py", "Ace._shadow_of__dstaddr", "return h.subnet_of(tops=tops, bottoms=bottoms)", "return h.subnet_of(tops=bottoms, bottoms=tops)"), "_shadow_of__dstaddr"),
    M("c03-ip-name-moved", ["C03", "C09"], E("protocol.py", "<module>", 'PROTOCOLS_NXOS = {\n    "ip": 0,\n    "icmp": 1,', 'PROTOCOLS_NXOS = {\n    "ip": 1,\n    "icmp": 1,'), ""),
    # ------------------------------------------------------------------ C04 / C11 (shading, delete_shadow)
    M("c04-self-shadow-slice", ["C04", "C11"], E("acl.py", "Acl.shading", "aces_bottom = aces[idx + 1 :]", "aces_bottom = aces[idx:]"), "Acl.shading"),
    M("c04-receiver-swapped", ["C04", "C11"], E("acl.py", "Acl.shading", "if ace_bottom.shadow_of(other=ace_top, skip=skip):", "if ace_top.shadow_of(other=ace_bottom, skip=skip):"), "Acl.shading"),
    M("c04-return-empty-report", ["C04"], E("acl.py", "Acl.delete_shadow", "        self.items = acl_new.items\n        return shading_d\n", "        self.items = acl_new.items\n        return {}\n"), "report"),
    M("c04-report-mutated", ["C04"], E("acl.py", "Acl.delete_shadow", "        shadow: LStr = [s for ls in shading_d.values() for s in ls]\n", "        shadow: LStr = [s for ls in shading_d.values() for s in ls]\n        shading_d.pop(next(iter(shading_d)))\n"), "modified"),
    M("c04-filter-whole-list", ["C04"], E("acl.py", "Acl.delete_shadow", "            items_bot = acl_new.items[idx:]\n", "            items_bot = acl_new.items\n            items_top = []\n"), "delete_shadow"),
    M("c04-index-without-plus-one", ["C04"], E("acl.py", "Acl.delete_shadow", "idx = aces.index(top) + 1", "idx = aces.index(top)"), "top itself"),
    M("c04-no-regroup", ["C04"], E("acl.py", "Acl.delete_shadow", "        if self.group_by:\n            acl_new.group(self.group_by)\n", ""), "regroup"),
    M("c04-regroup-inverted", ["C04"], E("acl.py", "Acl.delete_shadow", "        if self.group_by:\n            acl_new.group(self.group_by)\n", "        if not self.group_by:\n            acl_new.group(self.group_by)\n"), "regroup"),
    M("c04-shading-mutates-self", ["C04"], E("acl.py", "Acl.shading", "        acl_o = self.copy()\n        acl_o.ungroup()\n", "        acl_o = self\n        acl_o.ungroup()\n"), "modifies the ACL"),
    M("c04-skip-dropped", ["C04"], E("acl.py", "Acl.delete_shadow", "shading_d: DLStr = self.shading(skip)", "shading_d: DLStr = self.shading()"), "skip"),
    M("c04-extra-removal", ["C04"], E("acl.py", "Acl.delete_shadow", "        if self.group_by:\n            acl_new.group(self.group_by)\n", "        if self.group_by:\n            acl_new.group(self.group_by)\n        if acl_new.items:\n            acl_new.items.pop()\n"), "removed by a statement"),
    M("c04-sorted-aces", ["C04", "C11"], E("acl.py", "Acl.shading", "aces = [o for o in acl_o.items if isinstance(o, Ace)]", "aces = sorted(o for o in acl_o.items if isinstance(o, Ace))"), "Acl.shading"),
    M("c11-append-outside-guard", ["C11"], E("acl.py", "Acl.shading", "                    if ace_bottom.line not in shadow:\n                        shading_d.setdefault(ace_top.line, []).append(ace_bottom.line)\n", "                    shading_d.setdefault(ace_top.line, []).append(ace_bottom.line)\n"), "guard"),
    M("c11-add-inside-guard-only-else", ["C11"], E("acl.py", "Acl.shading", "                    shadow.add(ace_bottom.line)\n", ""), "Acl.shading"),
    M("c11-tops-reversed", ["C11"], E("acl.py", "Acl.shading", "for idx, ace_top in enumerate(aces):", "for idx, ace_top in reversed(list(enumerate(aces))):"), "list order"),
    M("c11-shadow-reset-per-top", ["C11"], E("acl.py", "Acl.shading", "            aces_bottom = aces[idx + 1 :]\n", "            aces_bottom = aces[idx + 1 :]\n            shadow = set()\n"), "reset"),
    M("c11-append-on-negative", ["C11"], E("acl.py", "Acl.shading", "                if ace_bottom.shadow_of(other=ace_top, skip=skip):", "                if not ace_bottom.shadow_of(other=ace_top, skip=skip):"), "Acl.shading"),
    M("c11-key-is-bottom", ["C11"], E("acl.py", "Acl.shading", "shading_d.setdefault(ace_top.line, []).append(ace_bottom.line)", "shading_d.setdefault(ace_bottom.line, []).append(ace_top.line)"), "under its top"),
    M("c11-ncw-reads-only-self", ["C11"], E("ace.py", "Ace._shadow_of__srcaddr", "if not (self.srcaddr.ipnet and other.srcaddr.ipnet):", "if not self.srcaddr.ipnet:"), "nc_wildcard"),
    # ------------------------------------------------------------------ C05 / C17
    M("c05-lru-cache (revert F1)", ["C05", "C17"], [E("wildcard.py", "<module>", "from ipaddress import NetmaskValueError", "from functools import lru_cache\nfrom ipaddress import NetmaskValueError"), E("wildcard.py", "Wildcard.ipnets", "    def ipnets(self) -> LIpNet:", "    @lru_cache\n    def ipnets(self) -> LIpNet:"), E("wildcard.py", "Wildcard.ipnets", "        if self._ipnets:\n            return self._ipnets\n", ""), E("wildcard.py", "Wildcard.ipnets", "        self._ipnets = ipnets\n", "")], "lru_cache"),
    M("c05-memo-not-reset", ["C05", "C17"], E("wildcard.py", "Wildcard.line.setter", "        self._prefixlen = prefixlen\n        self._ipnets = []\n", "        self._prefixlen = prefixlen\n"), "memo"),
    M("c05-store-before-check (revert F7)", ["C05"], E("wildcard.py", "Wildcard.line.setter", "        ipnet = self._create_ipnet(prefix_o, wildmask_o)\n        ncwb, prefixlen = self._create_ncwb(wildmask_o)\n        self._prefix = prefix_o\n        self._wildmask = wildmask_o\n", "        ipnet = self._create_ipnet(prefix_o, wildmask_o)\n        self._prefix = prefix_o\n        self._wildmask = wildmask_o\n        ncwb, prefixlen = self._create_ncwb(wildmask_o)\n"), "hybrid"),
    M("c05-limit-ge", ["C05"], E("wildcard.py", "Wildcard._ncw_bits", "if count > self.max_ncwb:", "if count >= self.max_ncwb:"), "count>=limit"),
    M("c05-limit-truncates", ["C05"], E("wildcard.py", "Wildcard._ncw_bits", "            raise NetmaskValueError(msg)\n", "            return ncwb[: self.max_ncwb]\n"), "_ncw_bits"),
    M("c05-limit-on-other-list", ["C05"], E("wildcard.py", "Wildcard._ncw_bits", "count = len(ncwb)", "count = len(wb_idxs) - 32"), "_ncw_bits"),
    M("c05-max-31", ["C05"], E("wildcard.py", "<module>", "MAX_NCWB = 30", "MAX_NCWB = 31"), "0..30"),
    M("c05-max-no-lower-bound", ["C05"], E("wildcard.py", "init_max_ncwb", "if not 0 <= max_ncwb <= MAX_NCWB:", "if not max_ncwb <= MAX_NCWB:"), "0..30"),
    M("c05-reraise-removed", ["C05", "C12"], E("ace_group.py", "AceGroup._line_to_oace", "            except NetmaskValueError:\n                raise\n", ""), "_line_to_oace"),
    M("c05-ipnet-try-encloses-check", ["C05"], E("wildcard.py", "Wildcard.line.setter", "        ncwb, prefixlen = self._create_ncwb(wildmask_o)\n", "        try:\n            ncwb, prefixlen = self._create_ncwb(wildmask_o)\n        except ValueError:\n            ncwb, prefixlen = [], 32\n"), "re-raising"),
    M("c05-setter-partial-path", ["C05"], E("wildcard.py", "Wildcard.line.setter", "        self._ncwb = ncwb\n", "        if ipnet is not None:\n            return\n        self._ncwb = ncwb\n"), "previous line"),
    M("c05-max_ncwb-second-writer", ["C05"], E("wildcard.py", "Wildcard.__init__", "        self.max_ncwb: int = init_max_ncwb(**kwargs)\n", "        self.max_ncwb: int = init_max_ncwb(**kwargs)\n        self._max_ncwb = kwargs.get(\"max_ncwb\") or 16\n"), "one writer"),
    # ------------------------------------------------------------------ C10
    M("c10-decorator-removed", ["C10"], E("addr_group.py", "AddrGroup.resequence", "    @h.check_start_step_sequence\n", ""), "AddrGroup.resequence"),
    M("c10-start-upper-off-by-one", ["C10"], E("helpers.py", "check_start_step_sequence", "if not 0 <= start <= SEQUENCE_MAX:", "if not 0 <= start < SEQUENCE_MAX:"), "accepted start"),
    M("c10-start-negative-ok", ["C10"], E("helpers.py", "check_start_step_sequence", "if not 0 <= start <= SEQUENCE_MAX:", "if start > SEQUENCE_MAX:"), "accepted start"),
    M("c10-step-zero-ok", ["C10"], E("helpers.py", "check_start_step_sequence", "if start and step < 1:", "if start and step < 0:"), "step"),
    M("c10-result-ge", ["C10"], E("helpers.py", "check_start_step_sequence", "if sequence > SEQUENCE_MAX:", "if sequence >= SEQUENCE_MAX:"), "accepted result"),
    M("c10-result-check-dropped", ["C10"], E("helpers.py", "check_start_step_sequence", "        if sequence > SEQUENCE_MAX:\n            raise ValueError(f\"last {sequence=} expected=1..{SEQUENCE_MAX}\")\n", ""), "result"),
    M("c10-seqmax-wrong", ["C10"], E("helpers.py", "<module>", "SEQUENCE_MAX = 4294967295", "SEQUENCE_MAX = 4294967296"), "accepted"),
    M("c10-step-not-forced", ["C10"], E("helpers.py", "check_start_step_sequence", "        if not start:\n            step = 0\n", ""), "start == 0"),
    M("c10-args-swapped", ["C10"], E("helpers.py", "check_start_step_sequence", "sequence = method(ace_o, start, step, **kwargs)", "sequence = method(ace_o, step, start, **kwargs)"), "unchanged"),
    M("c10-clears-note", ["C10", "C16"], E("ace_group.py", "AceGroup.resequence", "            item.sequence = sequence\n", "            item.sequence = sequence\n            item.note = \"\"\n"), "nothing but sequence"),
    M("c10-increment-unconditional", ["C10"], E("ace_group.py", "AceGroup.resequence", "            if id_ < count:\n                sequence += step\n", "            sequence += step\n"), "increment"),
    M("c10-increment-le", ["C10"], E("addr_group.py", "AddrGroup.resequence", "            if id_ < count:\n", "            if id_ <= count:\n"), "increment"),
    M("c10-no-descent", ["C10"], E("ace_group.py", "AceGroup.resequence", "            if isinstance(item, AceGroup):\n                params = dict(items=item.items)\n                sequence = self.resequence(start=sequence, step=step, **params)\n", ""), "nested groups"),
    M("c10-descent-result-dropped", ["C10"], E("ace_group.py", "AceGroup.resequence", "sequence = self.resequence(start=sequence, step=step, **params)", "self.resequence(start=sequence, step=step, **params)"), "descent"),
    M("c10-reversed-order", ["C10"], E("addr_group.py", "AddrGroup.resequence", "for id_, item in enumerate(items, start=1):", "for id_, item in enumerate(reversed(items), start=1):"), "order"),
    M("c10-returns-start", ["C10"], E("addr_group.py", "AddrGroup.resequence", "        return sequence\n", "        return int(start)\n"), "running number"),
    # ------------------------------------------------------------------ C08
    M("c08-lt-interior (revert F2)", ["C08"], E("port.py", "Port._ports_to_items", "return [ports[-1] + 1] if ports else [1]", "return [ports[1] + 1] if ports else [1]"), "interior"),
    M("c08-lt-low-end", ["C08"], E("port.py", "Port._ports_to_items", "return [ports[-1] + 1] if ports else [1]", "return [ports[0] + 1] if ports else [1]"), "_ports_to_items"),
    M("c08-gt-no-offset", ["C08"], E("port.py", "Port._ports_to_items", "return [ports[0] - 1] if ports else [65535]", "return [ports[0]] if ports else [65535]"), "_ports_to_items"),
    M("c08-gt-empty-unguarded (revert F2b)", ["C08"], E("port.py", "Port._ports_to_items", "return [ports[0] - 1] if ports else [65535]", "return [ports[0] - 1]"), "empty"),
    M("c08-gt-empty-wrong-boundary", ["C08"], E("port.py", "Port._ports_to_items", "return [ports[0] - 1] if ports else [65535]", "return [ports[0] - 1] if ports else [65534]"), "empty set"),
    M("c08-ports-setter-unsorted (revert F3)", ["C08"], E("port.py", "Port.ports.setter", "ports = sorted(ports)", "ports = list(ports)"), "sorted"),
    M("c08-gt-not-strict", ["C08"], E("port.py", "Port._items_to_ports", "items = [i for i in all_ports if i > items[0]]", "items = [i for i in all_ports if i >= items[0]]"), "strict"),
    M("c08-lt-not-strict", ["C08"], E("port.py", "Port._items_to_ports", "items = [i for i in all_ports if i < items[0]]", "items = [i for i in all_ports if i <= items[0]]"), "strict"),
    M("c08-range-exclusive", ["C08"], E("port.py", "Port._items_to_ports", "items = list(range(items[0], items[-1] + 1))", "items = list(range(items[0], items[-1]))"), "inclusive"),
    M("c08-universe-from-zero", ["C08"], E("port.py", "Port._items_to_ports", "all_ports = list(range(1, 65535 + 1))", "all_ports = list(range(0, 65535 + 1))"), "1..65535"),
    M("c08-codec-universe", ["C08"], E("helpers.py", "string_to_ports", "ports_ = [i for i in ports_calc if 1 <= i <= 65535]", "ports_ = [i for i in ports_calc if 1 <= i < 65535]"), "1..65535"),
    M("c08-items-unsorted", ["C08"], E("port.py", "Port._line__items_to_ints", "return sorted(ports)", "return ports"), "sorted"),
    M("c08-unknown-operator-falls-through", ["C08"], E("port.py", "Port._items_to_ports", '        raise ValueError(f"invalid port {operator=}")', "        return items"), "unknown operator"),
    M("c08-neq-branch-missing", ["C08"], E("port.py", "Port._items_to_ports", '        if operator == "neq":\n            items = [i for i in all_ports if i not in items]\n            return items\n', ""), "neq"),
    M("c08-range-arity", ["C08"], E("port.py", "Port._line__items_to_ints", 'if operator == "range" and len(ports) != 2:', 'if operator == "range" and len(ports) < 2:'), "operand count"),
    M("c08-nxos-multi-eq", ["C08"], E("port.py", "Port._line__items_to_ints", 'if platform in ["asa", "nxos"] and len(ports) != 1:', 'if platform in ["asa"] and len(ports) != 1:'), "operand count"),
    M("c08-ports-setter-stores-directly", ["C08"], E("port.py", "Port.ports.setter", '        self.line = " ".join(items)\n', '        self._ports = ports\n        self.line = " ".join(items)\n'), "_ports"),
    M("c08-line-setter-forgets-sport", ["C08"], E("port.py", "Port.line.setter", "        self._ports = ports\n        self._sport = h.ports_to_string(ports)\n", "        self._ports = ports\n"), "_sport"),
    M("c08-sport-from-items", ["C08"], E("port.py", "Port.line.setter", "self._sport = h.ports_to_string(ports)", "self._sport = h.ports_to_string(_items)"), "_sport"),
    M("c08-sport-setter-no-rebuild", ["C08"], E("port.py", "Port.sport.setter", "self.ports = h.string_to_ports(sport)", "self._sport = sport"), "sport"),
    M("c08-operator-not-validated", ["C08"], E("port.py", "Port._line__operator", "        if operator not in expected:\n            raise ValueError(f\"invalid port {operator=}, {expected=}\")\n", ""), "_line__operator"),
    # ------------------------------------------------------------------ C09
    M("c09-www-8080", ["C09"], E("port_name.py", "<module>", '    "gopher": 70,\n    "finger": 79,\n    "www": 80,\n    "hostname": 101,\n    "pop2": 109,\n    "pop3": 110,\n    "sunrpc": 111,\n    "ident": 113,\n    "nntp": 119,\n    "bgp": 179,', '    "gopher": 70,\n    "finger": 79,\n    "www": 8080,\n    "hostname": 101,\n    "pop2": 109,\n    "pop3": 110,\n    "sunrpc": 111,\n    "ident": 113,\n    "nntp": 119,\n    "bgp": 179,'), "www"),
    M("c09-igrp-88-in-ios", ["C09"], E("protocol.py", "<module>", '    "eigrp": 88,\n    "ospf": 89,\n    "nos": 94,\n    "pim": 103,\n    "pcp": 108,\n}\nPROTOCOLS_NXOS', '    "eigrp": 88,\n    "igrp": 88,\n    "ospf": 89,\n    "nos": 94,\n    "pim": 103,\n    "pcp": 108,\n}\nPROTOCOLS_NXOS'), "igrp"),
    M("c09-getter-drops-version", ["C09"], E("port.py", "Port.line.getter", "PortName(protocol=self._protocol, platform=self._platform, version=self.version)", "PortName(protocol=self._protocol, platform=self._platform)"), "Port.line.getter"),
    M("c09-names-nxos-missing", ["C09"], E("port_name.py", "PortName.names", '            elif self.platform == "nxos":\n                names_d = UDP_NAME_PORT__NXOS.copy()\n', ""), "platform=nxos"),
    M("c09-vocabulary-drops-asa", ["C09"], E("port_name.py", "all_known_names", "    items.update(set(TCP_NAME_PORT__ASA))\n", ""), "vocabulary"),
    M("c09-ports-not-from-names", ["C09"], E("port_name.py", "PortName.ports", "names_d: DInt = self.names()", "names_d: DInt = TCP_NAME_PORT__IOS_16"), "PortName.ports"),
    M("c09-switch-in-parser", ["C09"], E("port.py", "Port._line__items_to_ints", "            if item.isdigit():", "            if item.isdigit() or self._port_nr:"), "switch port_nr"),
    M("c09-protocol-range-256", ["C09"], E("protocol.py", "Protocol.line.setter", "if not 0 <= number <= 255:", "if not 0 <= number <= 256:"), "0..255"),
    M("c09-name-collides-operator", ["C09"], E("port_name.py", "<module>", 'TCP_NAME_PORT__BASE = {\n    "echo": 7,\n    "discard": 9,', 'TCP_NAME_PORT__BASE = {\n    "echo": 7,\n    "range": 9,'), "collides"),
]


TWINS: List[Dict[str, Any]] = [
    {"id": "twin-wrapper-two-guards", "edits": [E("helpers.py", "check_start_step_sequence", "        if not 0 <= start <= SEQUENCE_MAX:\n            raise ValueError(f\"{start=} expected=0..{SEQUENCE_MAX}\")\n", "        if start < 0:\n            raise ValueError(f\"{start=} expected=0..{SEQUENCE_MAX}\")\n        if start >= SEQUENCE_MAX + 1:\n            raise ValueError(f\"{start=} expected=0..{SEQUENCE_MAX}\")\n")]},
    {"id": "twin-wrapper-step-le-zero", "edits": [E("helpers.py", "check_start_step_sequence", "if start and step < 1:", "if start and step <= 0:")]},
    {"id": "twin-reseq-ne-count", "edits": [E("addr_group.py", "AddrGroup.resequence", "            if id_ < count:\n", "            if id_ != count:\n")]},
    {"id": "twin-wildcard-limit-flipped", "edits": [E("wildcard.py", "Wildcard._ncw_bits", "if count > self.max_ncwb:", "if self.max_ncwb < count:")]},
    {"id": "twin-wildcard-no-memo", "edits": [E("wildcard.py", "Wildcard.ipnets", "        if self._ipnets:\n            return self._ipnets\n", ""), E("wildcard.py", "Wildcard.ipnets", "        self._ipnets = ipnets\n", "")]},
    {"id": "twin-max-ncwb-two-ifs", "edits": [E("wildcard.py", "init_max_ncwb", "    if not 0 <= max_ncwb <= MAX_NCWB:\n        raise ValueError(f\"invalid {max_ncwb=}, allowed in range 0..{MAX_NCWB}\")\n", "    if max_ncwb < 0:\n        raise ValueError(f\"invalid {max_ncwb=}, allowed in range 0..{MAX_NCWB}\")\n    if max_ncwb > MAX_NCWB:\n        raise ValueError(f\"invalid {max_ncwb=}, allowed in range 0..{MAX_NCWB}\")\n")]},
    {"id": "twin-port-inverse-minmax", "edits": [E("port.py", "Port._ports_to_items", "return [ports[0] - 1] if ports else [65535]", "return [min(ports) - 1] if ports else [65535]"), E("port.py", "Port._ports_to_items", "return [ports[-1] + 1] if ports else [1]", "return [max(ports) + 1] if ports else [1]")]},
    {"id": "twin-gt-ge-plus-one", "edits": [E("port.py", "Port._items_to_ports", "items = [i for i in all_ports if i > items[0]]", "items = [i for i in all_ports if i >= items[0] + 1]")]},
    {"id": "twin-range-arity-form", "edits": [E("port.py", "Port._line__items_to_ints", 'if operator == "range" and len(ports) != 2:', 'if operator == "range" and not len(ports) == 2:')]},
    {"id": "twin-shading-combinations", "edits": [E("acl.py", "Acl.shading", "        for idx, ace_top in enumerate(aces):\n            aces_bottom = aces[idx + 1 :]\n            for ace_bottom in aces_bottom:\n                if ace_bottom.shadow_of(other=ace_top, skip=skip):\n                    if ace_bottom.line not in shadow:\n                        shading_d.setdefault(ace_top.line, []).append(ace_bottom.line)\n                    shadow.add(ace_bottom.line)\n", "        for idx, ace_top in enumerate(aces):\n            for ace_bottom in aces[idx + 1 :]:\n                if not ace_bottom.shadow_of(other=ace_top, skip=skip):\n                    continue\n                if ace_bottom.line not in shadow:\n                    shading_d.setdefault(ace_top.line, []).append(ace_bottom.line)\n                    shadow.add(ace_bottom.line)\n")]},
    {"id": "twin-delete-shadow-early-return", "edits": [E("acl.py", "Acl.delete_shadow", "        if not shading_d:\n            return {}\n", "        if not shading_d:\n            return shading_d\n")]},
    {"id": "twin-shadow_of-and-chain", "edits": [E("ace.py", "Ace.shadow_of", "        if not self._shadow_of__option(other):\n            return False\n        return True\n", "        return self._shadow_of__option(other)\n")]},
    {"id": "twin-srcaddr-no-temp", "edits": [E("ace.py", "Ace._shadow_of__srcaddr", "        is_subnet = h.subnet_of(tops=tops, bottoms=bottoms)\n        return is_subnet\n", "        return h.subnet_of(tops=tops, bottoms=bottoms)\n")]},
    {"id": "twin-port-issubset", "edits": [E("ace.py", "Ace._shadow_of__srcport", "            diff = bottom.intersection(top)\n            return diff == bottom\n", "            return bottom.issubset(top)\n"), E("ace.py", "Ace._shadow_of__dstport", "            diff = bottom.intersection(top)\n            return diff == bottom\n", "            return bottom.issubset(top)\n")]},
    {"id": "twin-action-eq-form", "edits": [E("ace.py", "Ace.shadow_of", "        if self._action != other.action:\n            return False\n", "        if not self._action == other.action:\n            return False\n")]},
    {"id": "twin-rename-local-skip", "edits": [E("ace.py", "Ace._shadow_of__srcaddr", "skip_ = list(skip or [])", "options = list(skip or [])"), E("ace.py", "Ace._shadow_of__srcaddr", 'if "addrgroup" in skip_:', 'if "addrgroup" in options:'), E("ace.py", "Ace._shadow_of__srcaddr", 'if "nc_wildcard" in skip_:', 'if "nc_wildcard" in options:'), E("ace.py", "Ace._shadow_of__dstaddr", "skip_ = list(skip or [])", "options = list(skip or [])"), E("ace.py", "Ace._shadow_of__dstaddr", 'if "addrgroup" in skip_:', 'if "addrgroup" in options:'), E("ace.py", "Ace._shadow_of__dstaddr", 'if "nc_wildcard" in skip_:', 'if "nc_wildcard" in options:')]},
    {"id": "twin-swap-dictcomp", "edits": [E("port_name.py", "_swap", "    data: DiStr = {}\n    for name, port in name_port.items():\n        if port not in data:\n            data[port] = name\n    return data\n", "    data: DiStr = {}\n    for name, port in reversed(list(name_port.items())):\n        data[port] = name\n    return data\n")]},
    {"id": "twin-subnet_of-flag", "edits": [E("helpers.py", "subnet_of", "    if not (tops and bottoms):\n        return False\n", "    if not tops:\n        return False\n    if not bottoms:\n        return False\n")]},
    {"id": "twin-new-port-name", "edits": [E("port_name.py", "<module>", '    "vxlan": 4789,\n    "sip": 5060,', '    "vxlan": 4789,\n    "geneve": 6081,\n    "sip": 5060,')]},
]
