"""Fixture: module-level mutable state mutated by a function (must be flagged)."""

_SEEN = {}
_ORDER = []


def remember(key, value):
    _SEEN[key] = value
    _ORDER.append(key)
    return len(_ORDER)
