"""Fixture: identity-keyed functools cache over attributes a setter reassigns (must be flagged)."""

from functools import lru_cache


class Wildcard:
    def __init__(self, line):
        self._prefix = 0
        self.line = line

    @property
    def line(self):
        return str(self._prefix)

    @line.setter
    def line(self, line):
        self._prefix = int(line)

    @lru_cache
    def ipnets(self):
        return [self._prefix]
