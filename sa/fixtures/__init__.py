"""Positive fixtures for rules whose expected count on a healthy tree is zero.

Each fixture is a tiny source tree that *violates* one rule; the rule must match it on every run,
otherwise the run fails as ANALYSIS-ERROR (a rule that cannot fire is worthless).
The fixture sources are only parsed, never imported.
"""

from __future__ import annotations

import os
from typing import Callable, Dict

from ..model import AnalysisError

_ctx_cache: Dict[str, object] = {}


def fixture_ctx(name: str):
    from ..core import Ctx

    if name not in _ctx_cache:
        root = os.path.join(os.path.dirname(os.path.abspath(__file__)), name)
        _ctx_cache[name] = Ctx(root)
    return _ctx_cache[name]


def run_fixture(name: str, rule_fn: Callable, expect_violation: str) -> None:
    from ..core import Report

    ctx = fixture_ctx(name)
    rep = Report("FIXTURE")
    rule_fn(ctx, rep)
    hits = [v for v in rep.violations if expect_violation in (v["construct"] + " " + v["reason"] + " " + v["qualname"])]
    if not hits:
        raise AnalysisError(f"positive fixture {name!r} no longer triggers its rule (expected a violation mentioning {expect_violation!r})")
