"""Fixture: state shared between calls and between instances (must be flagged)."""


class Box:
    items = []  # one list for every Box

    def add(self, item, seen=[]):
        seen.append(item)  # one list for every call
        self.items.append(item)
        return len(seen)
