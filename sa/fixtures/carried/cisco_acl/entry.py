"""Fixture: a result flag kept across calls although it depends on nested objects, and entries used as dict keys."""


class Port:
    def __init__(self):
        self.items = []


class Entry:
    def __init__(self):
        self.port = Port()
        self._done = False
        self._items = []

    def split(self):
        if self._done:
            return [self]
        if len(self.port.items) <= 1:
            self._done = True
            return [self]
        return [self, self]

    def split_all(self):
        parts = {o: o.split() for o in self._items}
        out = []
        for o in self._items:
            out.extend(parts[o])
        return out


class Names:
    def __init__(self, kind):
        self.kind = kind


class Holder:
    def __init__(self, kind):
        self._kind = kind
        self._names = Names(self._kind)

    @property
    def kind(self):
        return self._kind

    @kind.setter
    def kind(self, kind):
        self._kind = kind
