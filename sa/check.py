"""CLI: /venv/bin/python -m sa.check <ID> [--tier quick|thorough] [--replay FILE]

Exit 0: property held on everything analysed (KNOWN-FINDING lines allowed).
Exit 1: at least one `VIOLATION property=<id> replay=<path>` line.
Exit 2: ANALYSIS-ERROR (the analyser cannot stand behind a verdict) — never a VIOLATION.
"""

from __future__ import annotations

import argparse
import importlib
import json
import os
import sys
import time
import traceback
from typing import Any, Dict, List

from .core import VERIF, Ctx, Report
from .model import AnalysisError

CLAIMED = ["C01", "C02", "C03", "C04", "C05", "C06", "C07", "C08", "C09", "C10", "C11", "C12", "C13", "C15", "C16", "C17", "C19", "C20"]


def load_known() -> Dict[str, Any]:
    p = os.path.join(VERIF, "known_findings.json")
    if not os.path.exists(p):
        return {"known": [], "fixed": []}
    with open(p, "r", encoding="utf-8") as fh:
        return json.load(fh)


def match_known(v: Dict[str, Any], known: List[Dict[str, Any]]):
    keys = [(v["property"], v["rule"])]
    if v.get("origin"):
        # a premise checked under another property: the finding is listed once, under the property that owns the rule
        keys.append((v["origin"][0], v["origin"][1]))
    for prop, rule in keys:
        for k in known:
            if k.get("property") != prop:
                continue
            if k.get("rule") != rule or k.get("qualname") != v["qualname"]:
                continue
            if " ".join(k.get("construct", "").split()) == v["construct"]:
                return k
    return None


def preload() -> None:
    """Import every rule module now: worker processes forked afterwards analyse with the code as it is at this moment
    (edits to the checker while a long battery runs do not reach them)."""
    import glob as _glob

    for path in sorted(_glob.glob(os.path.join(os.path.dirname(os.path.abspath(__file__)), "rules", "*.py"))):
        nm = os.path.basename(path)[:-3]
        if nm != "__init__":
            importlib.import_module(f"sa.rules.{nm}")
    for nm in ("fixtures", "selftest.mutants"):
        try:
            importlib.import_module(f"sa.{nm}")
        except ImportError:
            pass


def run_property(pid: str, tier: str, root: str, out_dir: str, evidence_dir: str, quiet: bool = False) -> int:
    t0 = time.time()
    seed = int(os.environ.get("VERIF_SEED", "0") or 0)
    mod = importlib.import_module(f"sa.rules.{pid.lower()}")
    rep = Report(pid)
    ctx = Ctx(root)
    mod.run(ctx, rep, tier)
    selftest = None
    if tier == "thorough":
        from .selftest import runner

        selftest = runner.run_for_property(pid, root)
    known = load_known()
    new: List[Dict[str, Any]] = []
    kf: List[Dict[str, Any]] = []
    for v in rep.violations:
        k = match_known(v, known.get("known", []))
        if k is not None:
            kf.append({"v": v, "k": k})
        else:
            new.append(v)
    say = (lambda *a: None) if quiet else print
    for rid, rc in rep.rule_counts.items():
        say(f"RULE {rid} instances={rc['instances']} obligations={rc['obligations']} pass={rc['pass']} violations={rc['violations']}")
    for n in rep.notes:
        say(f"NOTE {n}")
    seen_kf = set()
    for item in kf:
        k = item["k"]
        key = (k["rule"], k["qualname"], k["construct"])
        if key in seen_kf:
            continue
        seen_kf.add(key)
        via = "" if k["property"] == pid else f" (premise: listed under {k['property']})"
        print(f"KNOWN-FINDING: property={pid}{via} rule={k['rule']} construct={k['qualname']}: {k['construct']} -- {k.get('what', '')} input={k.get('input', '')}")
    os.makedirs(out_dir, exist_ok=True)
    for i, v in enumerate(new):
        path = os.path.join(out_dir, f"{pid}-{i}.json")
        with open(path, "w", encoding="utf-8") as fh:
            json.dump(v, fh, indent=1)
        say(f"  {v['rule']} {v['where']} {v['qualname']}: {v['construct']} -- {v['reason']}")
        print(f"VIOLATION property={pid} replay={path}")
    wall = time.time() - t0
    write_evidence(pid, tier, seed, mod, rep, ctx, new, kf, wall, evidence_dir, selftest)
    if selftest is not None:
        say(f"SELFTEST mutants_applied={selftest['applied']} fired={selftest['fired']} weak={len(selftest['weak'])} twins={selftest['twins']} twins_silent={selftest['twins_silent']}")
        for w in selftest["weak"]:
            say(f"SELFTEST-WEAK {w}")
        sd = selftest.get("independent_seeds")
        if sd:
            say(f"SELFTEST independent_seeds={sd['seeds']} caught={sd['caught']} missed={len(sd['missed'])} n/a={len(sd['not_applicable'])}")
            for w in sd["missed"]:
                say(f"SELFTEST-WEAK seed {w}")
            for w in sd.get("documented_misses", []):
                say(f"SELFTEST documented miss (outside what this check decides) {w[:200]}")
        tw = selftest.get("independent_twins")
        if tw:
            say(f"SELFTEST independent_twins={tw['twins']} silent={tw['silent']} noisy={len(tw['noisy'])} n/a={len(tw['not_applicable'])}")
            for w in tw["noisy"]:
                say(f"SELFTEST-NOISY twin {w}")
    return 1 if new else 0


def write_evidence(pid, tier, seed, mod, rep: Report, ctx: Ctx, new, kf, wall, evidence_dir, selftest) -> None:
    insts = rep.instances
    distinct = {(i["rule"], i["construct"]) for i in insts if i.get("nontrivial")}
    samples = []
    seen_rules = set()
    for i in insts:
        if i["rule"] not in seen_rules or i["verdict"] != "PASS":
            seen_rules.add(i["rule"])
            samples.append({k: i[k] for k in ("rule", "construct", "verdict", "detail", "where")})
    samples = samples[:60]
    cov: Dict[str, Any] = {
        "explanation": mod.EXPLANATION,
        "evaluations": max(1, len(insts)),
        "distinct_nontrivial": len(distinct),
        "rule": "one evaluation = one rule obligation examined on /repo's current source (function, statement, table row, call-graph path); "
        "non-trivial = discharged or violated by a fact derived from the code (not a vacuous match); distinct = different (rule, construct)",
        "samples": samples or [{"note": "no instance"}],
        "rules": rep.rule_counts,
        "instance_floors": {k: {"seen": a, "floor": b} for k, (a, b) in rep.floors.items()},
        "modules": len(ctx.prog.modules),
        "classes": len(ctx.prog.classes),
        "functions": len(ctx.prog.funcs),
        "receivers_seen": ctx.cg.stats["receivers"],
        "receivers_resolved": ctx.cg.stats["resolved"],
        "source_digest": ctx.prog.digest,
        "notes": rep.notes,
        "known_findings_reported": [f"{x['k']['rule']} {x['k']['qualname']}" for x in kf],
        "new_violations": [f"{v['rule']} {v['qualname']}: {v['construct']}" for v in new],
        "engine_build_s": round(ctx.build_s, 3),
    }
    extra = getattr(mod, "extra_coverage", None)
    if extra is not None:
        cov.update(extra(ctx, rep))
    if selftest is not None:
        cov["selftest"] = selftest
    ev = {
        "property_id": pid,
        "tier": tier,
        "seed": seed,
        "level": mod.LEVEL,
        "coverage": cov,
        "assumptions": list(getattr(mod, "ASSUMPTIONS", [])),
        "wall_s": round(wall, 3),
        "violations": len(new),
    }
    os.makedirs(evidence_dir, exist_ok=True)
    path = os.path.join(evidence_dir, f"{pid}.json")
    tmp = path + ".tmp"
    with open(tmp, "w", encoding="utf-8") as fh:
        json.dump(ev, fh, indent=1, default=str)
    os.replace(tmp, path)


def main(argv=None) -> int:
    ap = argparse.ArgumentParser()
    ap.add_argument("property", nargs="?")
    ap.add_argument("--tier", default=os.environ.get("VERIF_TIER") or "quick", choices=["quick", "thorough"])
    ap.add_argument("--root", default=os.environ.get("VERIF_REPO", "/repo"))
    ap.add_argument("--out", default=os.path.join(VERIF, "out"))
    ap.add_argument("--evidence", default=os.path.join(VERIF, "evidence"))
    ap.add_argument("--replay")
    ap.add_argument("--selfcheck", action="store_true")
    ap.add_argument("--quiet", action="store_true")
    a = ap.parse_args(argv)
    if a.selfcheck:
        try:
            ctx = Ctx(a.root)
            for pid in CLAIMED:
                importlib.import_module(f"sa.rules.{pid.lower()}")
            print(f"selfcheck ok: {len(ctx.prog.modules)} modules, {len(ctx.prog.funcs)} functions, engine {ctx.build_s:.2f}s")
            return 0
        except Exception as ex:  # noqa: BLE001
            print(f"ANALYSIS-ERROR selfcheck: {type(ex).__name__}: {ex}")
            return 2
    if a.replay:
        with open(a.replay, "r", encoding="utf-8") as fh:
            v = json.load(fh)
        print(json.dumps(v, indent=1))
        pid = v.get("property", a.property)
        a.property = pid
    if not a.property:
        ap.error("property id required")
    pid = a.property.upper()
    try:
        return run_property(pid, a.tier, a.root, a.out, a.evidence, a.quiet)
    except AnalysisError as ex:
        print(f"ANALYSIS-ERROR property={pid}: {ex}")
        return 2
    except Exception as ex:  # noqa: BLE001
        print(f"ANALYSIS-ERROR property={pid}: internal {type(ex).__name__}: {ex}")
        traceback.print_exc(file=sys.stdout)
        return 2


if __name__ == "__main__":
    sys.exit(main())
