"""E1 program model: parse every cisco_acl/*.py, index modules, classes, functions, properties.

Nothing here imports or executes the analysed package: it is `ast` over source text only.
"""

from __future__ import annotations

import ast
import hashlib
import os
import symtable
from dataclasses import dataclass, field
from typing import Dict, Iterator, List, Optional, Tuple

PKG = "cisco_acl"

KNOWN_DECORATORS = {
    "property",
    "staticmethod",
    "classmethod",
    "abstractmethod",
    "total_ordering",
    "lru_cache",
    "cache",
    "cached_property",
    "wraps",
    "check_start_step_sequence",
    "time_spent",
}


class AnalysisError(Exception):
    """The analyser cannot stand behind a verdict (exit 2, never a VIOLATION)."""


@dataclass
class Func:
    """A function, method or property accessor."""

    module: "Module"
    cls: Optional["Class"]
    name: str  # plain name (for accessors: property name)
    node: ast.FunctionDef
    kind: str = "function"  # function | method | staticmethod | classmethod | getter | setter
    decorators: List[str] = field(default_factory=list)
    parent: Optional["Func"] = None  # enclosing function for nested defs

    @property
    def qualname(self) -> str:
        base = self.name
        if self.kind == "getter":
            base = f"{self.name}.getter"
        elif self.kind == "setter":
            base = f"{self.name}.setter"
        if self.parent is not None:
            return f"{self.parent.qualname}.<locals>.{base}"
        if self.cls is not None:
            return f"{self.cls.name}.{base}"
        return f"{self.module.short}.{base}"

    @property
    def where(self) -> str:
        return f"{self.module.relpath}:{self.node.lineno}"

    @property
    def params(self) -> List[str]:
        a = self.node.args
        names = [x.arg for x in a.posonlyargs + a.args]
        return names

    @property
    def is_bound(self) -> bool:
        return self.cls is not None and self.kind in ("method", "getter", "setter")

    def __hash__(self) -> int:
        return id(self)

    def __repr__(self) -> str:
        return f"<Func {self.qualname}>"


@dataclass
class Class:
    module: "Module"
    name: str
    node: ast.ClassDef
    base_names: List[str] = field(default_factory=list)
    methods: Dict[str, Func] = field(default_factory=dict)
    getters: Dict[str, Func] = field(default_factory=dict)
    setters: Dict[str, Func] = field(default_factory=dict)
    decorators: List[str] = field(default_factory=list)
    mro: List["Class"] = field(default_factory=list)

    def __hash__(self) -> int:
        return id(self)

    def __repr__(self) -> str:
        return f"<Class {self.name}>"

    def lookup_method(self, name: str) -> Optional[Func]:
        for c in self.mro:
            if name in c.methods:
                return c.methods[name]
        return None

    def lookup_getter(self, name: str) -> Optional[Func]:
        for c in self.mro:
            if name in c.getters:
                return c.getters[name]
            if name in c.methods:
                return None
        return None

    def lookup_setter(self, name: str) -> Optional[Func]:
        # A subclass that redefines the property without a setter hides the parent's setter.
        for c in self.mro:
            if name in c.setters:
                return c.setters[name]
            if name in c.getters:
                return None
        return None

    def has_property(self, name: str) -> bool:
        return any(name in c.getters for c in self.mro)

    def is_subclass_of(self, other: "Class") -> bool:
        return other in self.mro

    def all_funcs(self) -> Iterator[Func]:
        yield from self.methods.values()
        yield from self.getters.values()
        yield from self.setters.values()


@dataclass
class Module:
    name: str  # cisco_acl.ace
    short: str  # ace
    path: str
    relpath: str
    source: str
    tree: ast.Module
    classes: Dict[str, Class] = field(default_factory=dict)
    functions: Dict[str, Func] = field(default_factory=dict)
    # local alias -> ("module", "cisco_acl.helpers") | ("name", "cisco_acl.helpers", "IOS") | ("ext", "re")
    imports: Dict[str, Tuple[str, ...]] = field(default_factory=dict)
    consts: Dict[str, List[ast.expr]] = field(default_factory=dict)  # module-level assignments in order

    def __hash__(self) -> int:
        return id(self)


def _decorator_name(d: ast.expr) -> str:
    if isinstance(d, ast.Call):
        d = d.func
    if isinstance(d, ast.Attribute):
        if d.attr in ("setter", "getter", "deleter") and isinstance(d.value, ast.Name):
            return f"{d.value.id}.{d.attr}"
        return d.attr
    if isinstance(d, ast.Name):
        return d.id
    return ast.dump(d)


class Program:
    """All modules of the package under `root`."""

    def __init__(self, root: str):
        self.root = os.path.abspath(root)
        self.pkgdir = os.path.join(self.root, PKG)
        if not os.path.isdir(self.pkgdir):
            raise AnalysisError(f"package directory not found: {self.pkgdir}")
        self.modules: Dict[str, Module] = {}
        self.classes: Dict[str, Class] = {}
        self.funcs: List[Func] = []
        self.digest = ""
        self._load()
        self._link()

    # ------------------------------------------------------------------ loading
    def _load(self) -> None:
        h = hashlib.sha256()
        for fn in sorted(os.listdir(self.pkgdir)):
            if not fn.endswith(".py"):
                continue
            path = os.path.join(self.pkgdir, fn)
            with open(path, "r", encoding="utf-8") as fh:
                src = fh.read()
            h.update(fn.encode())
            h.update(src.encode())
            try:
                tree = ast.parse(src, filename=path)
                symtable.symtable(src, path, "exec")  # cross-check: the module compiles
            except SyntaxError as ex:
                raise AnalysisError(f"cannot parse {path}: {ex}") from ex
            short = fn[:-3]
            name = PKG if short == "__init__" else f"{PKG}.{short}"
            mod = Module(
                name=name,
                short=short,
                path=path,
                relpath=f"{PKG}/{fn}",
                source=src,
                tree=tree,
            )
            for n in ast.walk(tree):
                for ch in ast.iter_child_nodes(n):
                    ch._parent = n  # type: ignore[attr-defined]
            self.modules[short] = mod
            self._index_module(mod)
        self.digest = h.hexdigest()

    def _index_module(self, mod: Module) -> None:
        for st in mod.tree.body:
            if isinstance(st, ast.Import):
                for a in st.names:
                    local = a.asname or a.name.split(".")[0]
                    if a.name.startswith(PKG):
                        mod.imports[local] = ("module", a.name)
                    else:
                        mod.imports[local] = ("ext", a.name)
            elif isinstance(st, ast.ImportFrom):
                src = st.module or ""
                for a in st.names:
                    local = a.asname or a.name
                    if src == PKG:
                        # from cisco_acl import helpers as h  |  from cisco_acl import Ace
                        mod.imports[local] = ("pkgattr", PKG, a.name)
                    elif src.startswith(PKG + "."):
                        mod.imports[local] = ("name", src, a.name)
                    else:
                        mod.imports[local] = ("ext", f"{src}.{a.name}")
            elif isinstance(st, ast.ClassDef):
                self._index_class(mod, st)
            elif isinstance(st, ast.FunctionDef):
                f = Func(mod, None, st.name, st, "function", [_decorator_name(d) for d in st.decorator_list])
                mod.functions[st.name] = f
                self.funcs.append(f)
                self._index_nested(f)
            elif isinstance(st, (ast.Assign, ast.AnnAssign)):
                targets = st.targets if isinstance(st, ast.Assign) else [st.target]
                if st.value is None:
                    continue
                for t in targets:
                    if isinstance(t, ast.Name):
                        mod.consts.setdefault(t.id, []).append(st.value)

    def _index_nested(self, f: Func) -> None:
        for st in ast.walk(f.node):
            if st is f.node:
                continue
            if isinstance(st, ast.FunctionDef) and _enclosing_def(st) is f.node:
                g = Func(f.module, f.cls, st.name, st, "function", [_decorator_name(d) for d in st.decorator_list], parent=f)
                self.funcs.append(g)
                self._index_nested(g)

    def _index_class(self, mod: Module, node: ast.ClassDef) -> None:
        cls = Class(mod, node.name, node)
        cls.decorators = [_decorator_name(d) for d in node.decorator_list]
        for b in node.bases:
            if isinstance(b, ast.Name):
                cls.base_names.append(b.id)
            elif isinstance(b, ast.Attribute):
                cls.base_names.append(b.attr)
        for st in node.body:
            if not isinstance(st, ast.FunctionDef):
                continue
            decs = [_decorator_name(d) for d in st.decorator_list]
            kind = "method"
            if "property" in decs:
                kind = "getter"
            elif any(d.endswith(".setter") for d in decs):
                kind = "setter"
            elif "staticmethod" in decs:
                kind = "staticmethod"
            elif "classmethod" in decs:
                kind = "classmethod"
            f = Func(mod, cls, st.name, st, kind, decs)
            if kind == "getter":
                cls.getters[st.name] = f
            elif kind == "setter":
                cls.setters[st.name] = f
            else:
                cls.methods[st.name] = f
            self.funcs.append(f)
            self._index_nested(f)
        mod.classes[node.name] = cls
        if node.name in self.classes:
            raise AnalysisError(f"duplicate class name {node.name}")
        self.classes[node.name] = cls

    # ------------------------------------------------------------------ linking
    def _link(self) -> None:
        for cls in self.classes.values():
            cls.mro = self._c3(cls)
        for f in self.funcs:
            for d in f.decorators:
                base = d.split(".")[-1] if "." in d else d
                if base not in KNOWN_DECORATORS and not d.endswith((".setter", ".getter")):
                    raise AnalysisError(f"unknown decorator @{d} on {f.qualname} ({f.where}): not modelled")

    def _c3(self, cls: Class, _stack: Tuple[str, ...] = ()) -> List[Class]:
        if cls.name in _stack:
            raise AnalysisError(f"inheritance cycle at {cls.name}")
        bases = [self.classes[b] for b in cls.base_names if b in self.classes]
        seqs = [self._c3(b, _stack + (cls.name,)) for b in bases] + [list(bases)]
        res = [cls]
        seqs = [list(s) for s in seqs if s]
        while seqs:
            for s in seqs:
                cand = s[0]
                if not any(cand in t[1:] for t in seqs):
                    break
            else:
                raise AnalysisError(f"inconsistent MRO for {cls.name}")
            res.append(cand)
            seqs = [[x for x in s if x is not cand] for s in seqs]
            seqs = [s for s in seqs if s]
        return res

    # ------------------------------------------------------------------ queries
    def module(self, short: str) -> Module:
        if short not in self.modules:
            raise AnalysisError(f"anchor module vanished: {PKG}/{short}.py")
        return self.modules[short]

    def cls(self, name: str) -> Class:
        if name not in self.classes:
            raise AnalysisError(f"anchor class vanished: {name}")
        return self.classes[name]

    def func(self, qualname: str) -> Func:
        """Resolve 'Class.method', 'Class.prop.getter', 'Class.prop.setter' or 'module.function'.

        Methods are looked up along the MRO (an inherited definition counts).
        """
        f = self.find_func(qualname)
        if f is None:
            raise AnalysisError(f"anchor function vanished: {qualname}")
        return f

    def find_func(self, qualname: str) -> Optional[Func]:
        parts = qualname.split(".")
        if parts[0] in self.classes:
            cls = self.classes[parts[0]]
            if len(parts) == 3 and parts[2] == "getter":
                return cls.lookup_getter(parts[1])
            if len(parts) == 3 and parts[2] == "setter":
                return cls.lookup_setter(parts[1])
            if len(parts) == 2:
                return cls.lookup_method(parts[1])
            return None
        if parts[0] in self.modules and len(parts) >= 2:
            f = self.modules[parts[0]].functions.get(parts[1])
            for p in parts[2:]:
                if f is None or p == "<locals>":
                    continue
                f = next((g for g in self.funcs if g.parent is f and g.name == p), None)
            return f
        return None

    def subclasses(self, cls: Class) -> List[Class]:
        return [c for c in self.classes.values() if cls in c.mro]

    def resolve_name(self, mod: Module, name: str):
        """Resolve a bare name used in `mod` to a Class, Func, Module, ('const', Module, name) or ('ext', dotted)."""
        if name in mod.classes:
            return mod.classes[name]
        if name in mod.functions:
            return mod.functions[name]
        if name in mod.consts:
            return ("const", mod, name)
        imp = mod.imports.get(name)
        if imp is None:
            return None
        if imp[0] == "module":
            short = imp[1].split(".")[-1]
            return self.modules.get(short)
        if imp[0] == "pkgattr":
            if imp[2] in self.modules:
                return self.modules[imp[2]]
            if imp[2] in self.classes:
                return self.classes[imp[2]]
            return None
        if imp[0] == "name":
            short = imp[1].split(".")[-1]
            m = self.modules.get(short)
            if m is None:
                return None
            return self.resolve_name(m, imp[2])
        return ("ext", imp[1])

    def func_of_node(self, node: ast.AST) -> Optional[Func]:
        n = node
        while n is not None:
            if isinstance(n, ast.FunctionDef):
                for f in self.funcs:
                    if f.node is n:
                        return f
            n = getattr(n, "_parent", None)
        return None


def _enclosing_def(node: ast.AST) -> Optional[ast.AST]:
    n = getattr(node, "_parent", None)
    while n is not None and not isinstance(n, (ast.FunctionDef, ast.ClassDef, ast.Lambda)):
        n = getattr(n, "_parent", None)
    return n


def own_nodes(fn: ast.FunctionDef) -> Iterator[ast.AST]:
    """Walk the body of `fn` without descending into defs/classes nested in its statements.  (A def that is itself a
    statement of the body IS walked: the rules grew up reading a local helper's statements as the function's own; rules
    that must not - returns, local bindings - filter with `in_nested_def`.)"""
    stack: List[ast.AST] = list(reversed(fn.body))
    while stack:
        n = stack.pop()
        yield n
        for ch in ast.iter_child_nodes(n):
            if isinstance(ch, (ast.FunctionDef, ast.ClassDef, ast.AsyncFunctionDef)):
                continue
            stack.append(ch)


def in_nested_def(x: ast.AST, fn: ast.AST) -> bool:
    """x stands inside a def/lambda nested in fn (not in fn's own statements)."""
    par = getattr(x, "_parent", None)
    while par is not None and par is not fn:
        if isinstance(par, (ast.FunctionDef, ast.AsyncFunctionDef, ast.Lambda)):
            return True
        par = getattr(par, "_parent", None)
    return False


def src(node: ast.AST) -> str:
    """Normalised source text of a node (used for report keys; no line numbers)."""
    try:
        return ast.unparse(node)
    except Exception:  # pragma: no cover
        return ast.dump(node)


def is_self_attr(node: ast.AST, attr: Optional[str] = None, self_name: str = "self") -> bool:
    return (
        isinstance(node, ast.Attribute)
        and isinstance(node.value, ast.Name)
        and node.value.id == self_name
        and (attr is None or node.attr == attr)
    )
