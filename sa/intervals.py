"""E15a/b guard normal forms: integer interval sets and relational guards.

A guard that compares one integer variable with folded constants is turned into the set of
integers for which the guard holds, whatever mix of `< <= > >= == != not and or` and chained
comparisons it uses.  Intervals are facts about code shape plus folded constants; no values are
enumerated.
"""

from __future__ import annotations

import ast
from typing import Callable, List, Optional, Tuple

NEG = float("-inf")
POS = float("inf")


class IntSet:
    """Finite union of closed integer intervals [lo, hi] (lo may be -inf, hi may be +inf)."""

    def __init__(self, ivs: Optional[List[Tuple[float, float]]] = None):
        self.ivs = self._norm(ivs or [])

    @staticmethod
    def _norm(ivs):
        ivs = sorted((lo, hi) for lo, hi in ivs if lo <= hi)
        out: List[Tuple[float, float]] = []
        for lo, hi in ivs:
            if out and lo <= out[-1][1] + 1:
                out[-1] = (out[-1][0], max(out[-1][1], hi))
            else:
                out.append((lo, hi))
        return out

    @classmethod
    def all(cls) -> "IntSet":
        return cls([(NEG, POS)])

    @classmethod
    def empty(cls) -> "IntSet":
        return cls([])

    def union(self, o: "IntSet") -> "IntSet":
        return IntSet(self.ivs + o.ivs)

    def complement(self) -> "IntSet":
        out = []
        cur = NEG
        for lo, hi in self.ivs:
            if lo > cur:
                out.append((cur, lo - 1))
            cur = hi + 1
        if cur <= POS and (not self.ivs or self.ivs[-1][1] != POS):
            out.append((cur, POS))
        return IntSet(out)

    def intersect(self, o: "IntSet") -> "IntSet":
        return self.complement().union(o.complement()).complement()

    def __eq__(self, o) -> bool:
        return isinstance(o, IntSet) and self.ivs == o.ivs

    def __repr__(self) -> str:
        def f(x):
            return "-inf" if x == NEG else "+inf" if x == POS else str(int(x))

        return " U ".join(f"[{f(a)}, {f(b)}]" for a, b in self.ivs) or "{}"

    def contains(self, v: int) -> bool:
        return any(lo <= v <= hi for lo, hi in self.ivs)

    def is_single(self) -> bool:
        return len(self.ivs) == 1

    def bounds(self) -> Tuple[float, float]:
        if not self.ivs:
            return (POS, NEG)
        return (self.ivs[0][0], self.ivs[-1][1])


class NotInterval(Exception):
    pass


def cond_to_intset(test: ast.AST, is_var: Callable[[ast.AST], bool], fold: Callable[[ast.AST], object]) -> IntSet:
    """Set of integer values of the variable for which `test` is true.

    `is_var(node)` recognises the variable; `fold(node)` returns an int or raises/returns non-int.
    Sub-conditions that do not mention the variable raise NotInterval (caller decides).
    """
    if isinstance(test, ast.BoolOp):
        sets = [cond_to_intset(v, is_var, fold) for v in test.values]
        acc = sets[0]
        for s in sets[1:]:
            acc = acc.intersect(s) if isinstance(test.op, ast.And) else acc.union(s)
        return acc
    if isinstance(test, ast.UnaryOp) and isinstance(test.op, ast.Not):
        return cond_to_intset(test.operand, is_var, fold).complement()
    if isinstance(test, ast.Compare):
        operands = [test.left] + list(test.comparators)
        if not any(_mentions_var(o, is_var) for o in operands):
            v = fold(test)
            if isinstance(v, bool):
                return IntSet.all() if v else IntSet.empty()
            raise NotInterval("comparison without the variable does not fold")
        acc = IntSet.all()
        for a, op, b in zip(operands, test.ops, operands[1:]):
            acc = acc.intersect(_cmp(a, op, b, is_var, fold))
        return acc
    if is_var(test):
        # truthiness of an integer: v != 0
        return IntSet([(0, 0)]).complement()
    # a sub-condition that does not mention the variable but folds to a constant
    try:
        v = fold(test)
    except Exception:  # noqa: BLE001
        v = None
    if v is not None and type(v).__name__ != "_Unknown" and isinstance(v, (bool, int, str, list, tuple, dict, set)):
        return IntSet.all() if v else IntSet.empty()
    raise NotInterval(ast.dump(test))


def _mentions_var(node: ast.AST, is_var) -> bool:
    return any(is_var(x) for x in ast.walk(node))


def _const(node: ast.AST, fold) -> int:
    v = fold(node)
    if isinstance(v, bool) or not isinstance(v, int):
        raise NotInterval("non-integer bound")
    return v


def _offset_var(node: ast.AST, is_var, fold) -> Optional[int]:
    """node == var + k  ->  k ; node == var -> 0 ; else None."""
    if is_var(node):
        return 0
    if isinstance(node, ast.BinOp) and isinstance(node.op, (ast.Add, ast.Sub)):
        if is_var(node.left):
            try:
                k = _const(node.right, fold)
            except NotInterval:
                return None
            return k if isinstance(node.op, ast.Add) else -k
        if is_var(node.right) and isinstance(node.op, ast.Add):
            try:
                return _const(node.left, fold)
            except NotInterval:
                return None
    return None


def _cmp(a: ast.AST, op: ast.cmpop, b: ast.AST, is_var, fold) -> IntSet:
    ka = _offset_var(a, is_var, fold)
    kb = _offset_var(b, is_var, fold)
    if isinstance(op, (ast.In, ast.NotIn)) and ka is not None:
        # var [+k] in range(lo, hi) / in (c1, c2, ...) / in [c1, ...]
        s_: Optional[IntSet] = None
        if isinstance(b, ast.Call) and isinstance(b.func, ast.Name) and b.func.id == "range" and 1 <= len(b.args) <= 2 and not b.keywords:
            lo = _const(b.args[0], fold) if len(b.args) == 2 else 0
            hi = _const(b.args[-1], fold)
            s_ = IntSet([(lo - ka, hi - 1 - ka)]) if hi > lo else IntSet.empty()
        elif isinstance(b, (ast.Tuple, ast.List, ast.Set)):
            vals = [_const(e, fold) for e in b.elts]
            s_ = IntSet.empty()
            for v_ in vals:
                s_ = s_.union(IntSet([(v_ - ka, v_ - ka)]))
        if s_ is None:
            raise NotInterval("membership in a non-constant container")
        return s_ if isinstance(op, ast.In) else s_.complement()
    if ka is not None and kb is None:
        c = _const(b, fold) - ka  # var + ka OP c0  ->  var OP c0 - ka
        return _rel(op, c, var_left=True)
    if kb is not None and ka is None:
        c = _const(a, fold) - kb
        return _rel(op, c, var_left=False)
    raise NotInterval("comparison does not relate the variable to a constant")


def _rel(op: ast.cmpop, c: int, var_left: bool) -> IntSet:
    if not var_left:
        flip = {ast.Lt: ast.Gt, ast.LtE: ast.GtE, ast.Gt: ast.Lt, ast.GtE: ast.LtE}
        op = flip.get(type(op), type(op))()
    if isinstance(op, ast.Lt):
        return IntSet([(NEG, c - 1)])
    if isinstance(op, ast.LtE):
        return IntSet([(NEG, c)])
    if isinstance(op, ast.Gt):
        return IntSet([(c + 1, POS)])
    if isinstance(op, ast.GtE):
        return IntSet([(c, POS)])
    if isinstance(op, ast.Eq):
        return IntSet([(c, c)])
    if isinstance(op, ast.NotEq):
        return IntSet([(c, c)]).complement()
    raise NotInterval("operator")


# ---------------------------------------------------------------------------- relational guards (E15b)

def relation(test: ast.AST, is_a: Callable[[ast.AST], bool], is_b: Callable[[ast.AST], bool]) -> Optional[str]:
    """Canonical relation between two variables: 'a>b', 'a>=b', 'a<b', 'a<=b', 'a==b', 'a!=b' or None.

    `not a <= b`, `b < a`, `a > b` all normalise to 'a>b'.
    """
    neg = False
    while isinstance(test, ast.UnaryOp) and isinstance(test.op, ast.Not):
        neg = not neg
        test = test.operand
    if not (isinstance(test, ast.Compare) and len(test.ops) == 1):
        return None
    l, op, r = test.left, test.ops[0], test.comparators[0]
    name = {ast.Lt: "<", ast.LtE: "<=", ast.Gt: ">", ast.GtE: ">=", ast.Eq: "==", ast.NotEq: "!="}.get(type(op))
    if name is None:
        return None
    if is_a(l) and is_b(r):
        pass
    elif is_b(l) and is_a(r):
        name = {"<": ">", "<=": ">=", ">": "<", ">=": "<=", "==": "==", "!=": "!="}[name]
    else:
        return None
    if neg:
        name = {"<": ">=", "<=": ">", ">": "<=", ">=": "<", "==": "!=", "!=": "=="}[name]
    return f"a{name}b"
