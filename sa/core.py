"""Shared context (engine build) and per-property report object."""

from __future__ import annotations

import ast
import json
import os
import time
from typing import Any, Callable, Dict, List, Optional, Tuple

from .callgraph import CallGraph
from .cfg import CFG
from .fold import Folder
from .model import AnalysisError, Class, Func, Program, src
from .typeinf import Types

VERIF = os.path.dirname(os.path.dirname(os.path.abspath(__file__)))


class Ctx:
    """Everything built once per run from the source tree under `root`."""

    def __init__(self, root: str):
        t0 = time.time()
        self.root = root
        self.prog = Program(root)
        self.folder = Folder(self.prog)
        self.types = Types(self.prog)
        self.cg = CallGraph(self.prog, self.types)
        self._cfgs: Dict[Tuple[int, Tuple], CFG] = {}
        self.build_s = time.time() - t0
        self._effects = None
        self._excs = None

    def cfg(self, f: Func, const_params: Optional[Dict[str, object]] = None) -> CFG:
        key = (id(f), tuple(sorted((const_params or {}).items())))
        if key not in self._cfgs:
            self._cfgs[key] = CFG(f.node, const_params)
        return self._cfgs[key]

    @property
    def effects(self):
        if self._effects is None:
            from .effects import Effects

            self._effects = Effects(self)
        return self._effects

    @property
    def excs(self):
        if self._excs is None:
            from .excs import Excs

            self._excs = Excs(self)
        return self._excs

    def func(self, q: str) -> Func:
        return self.prog.func(q)

    def cls(self, n: str) -> Class:
        return self.prog.cls(n)


class Report:
    """Collects rule instances, obligations and violations for one property."""

    def __init__(self, property_id: str):
        self.property_id = property_id
        self.instances: List[Dict[str, Any]] = []
        self.violations: List[Dict[str, Any]] = []
        self.notes: List[str] = []
        self.rule_counts: Dict[str, Dict[str, int]] = {}
        self.floors: Dict[str, Tuple[int, int]] = {}
        self._rule = ""

    def rule(self, rule_id: str) -> None:
        self._rule = rule_id
        self.rule_counts.setdefault(rule_id, {"instances": 0, "obligations": 0, "pass": 0, "violations": 0})

    def ok(self, construct: str, detail: str, nontrivial: bool = True, where: str = "") -> None:
        rc = self.rule_counts[self._rule]
        rc["obligations"] += 1
        rc["pass"] += 1
        self.instances.append(
            {"rule": self._rule, "construct": construct, "verdict": "PASS", "detail": detail, "nontrivial": nontrivial, "where": where}
        )

    def instance(self, n: int = 1) -> None:
        self.rule_counts[self._rule]["instances"] += n

    def violation(self, qualname: str, construct: str, reason: str, where: str = "", path: Optional[List[str]] = None, inp: str = "") -> None:
        rc = self.rule_counts[self._rule]
        rc["obligations"] += 1
        rc["violations"] += 1
        v = {
            "property": self.property_id,
            "rule": self._rule,
            "qualname": qualname,
            "construct": " ".join(construct.split()),
            "reason": reason,
            "where": where,
        }
        if path:
            v["path"] = path
        if inp:
            v["input"] = inp
        self.violations.append(v)
        self.instances.append(
            {"rule": self._rule, "construct": f"{qualname}: {v['construct']}", "verdict": "VIOLATION", "detail": reason, "nontrivial": True, "where": where}
        )

    def note(self, text: str) -> None:
        self.notes.append(text)

    def absorb(self, other: "Report", prefix: str) -> None:
        """Take over the rule instances of another report (a premise checked under another property), relabelled."""
        for rid, rc in other.rule_counts.items():
            tgt = self.rule_counts.setdefault(f"{prefix}/{rid}", {"instances": 0, "obligations": 0, "pass": 0, "violations": 0})
            for k in tgt:
                tgt[k] += rc[k]
        for i in other.instances:
            j = dict(i)
            j["rule"] = f"{prefix}/{i['rule']}"
            self.instances.append(j)
        for v in other.violations:
            w = dict(v)
            w["property"] = self.property_id
            w["rule"] = f"{prefix}/{v['rule']}"
            if "origin" not in w:
                last = v["rule"].split("/")[-1]  # R19.1 -> the rule is owned by C19
                owner = "C" + last[1:3] if len(last) >= 3 and last[0] == "R" and last[1:3].isdigit() else v["property"]
                w["origin"] = [owner, last]
            self.violations.append(w)
        for n in other.notes:
            self.notes.append(n)

    def floor(self, expected_min: int, what: str = "") -> None:
        """Fail as analysis-broken when the rule saw fewer instances than were confirmed by hand."""
        got = self.rule_counts[self._rule]["instances"]
        self.floors[self._rule] = (got, expected_min)
        if got < expected_min:
            raise AnalysisError(
                f"rule {self._rule}: only {got} instance(s) of {what or 'its construct'} found, "
                f"hand-confirmed floor is {expected_min}: the rule would pass vacuously"
            )

    def require(self, cond: bool, msg: str) -> None:
        if not cond:
            raise AnalysisError(f"rule {self._rule}: {msg}")


def where(f: Func, node: Optional[ast.AST] = None) -> str:
    ln = getattr(node, "lineno", None) or f.node.lineno
    return f"{f.module.relpath}:{ln}"


def snippet(node: ast.AST, n: int = 120) -> str:
    s = " ".join(src(node).split())
    return s if len(s) <= n else s[: n - 3] + "..."
