"""E4 call graph: calls, property reads/writes, constructors, super(), decorator wrappers."""

from __future__ import annotations

import ast
from dataclasses import dataclass
from typing import Dict, Iterable, List, Optional, Set, Tuple

from .model import Class, Func, Module, Program, own_nodes
from .typeinf import ANY, Types, classes_of, members

BUILTIN_METHOD_NAMES = {
    "append", "extend", "sort", "copy", "items", "get", "update", "remove", "pop", "insert", "index",
    "count", "clear", "reverse", "add", "startswith", "endswith", "split", "join", "strip", "replace",
    "keys", "values", "setdefault", "format", "lower", "upper", "isdigit", "find", "intersection",
    "difference", "union", "issubset", "issuperset", "rstrip", "lstrip", "splitlines",
}


@dataclass(frozen=True)
class Edge:
    caller: Func
    site: ast.AST
    kind: str  # call | getter | setter | construct | ext
    target: object  # Func or str (external dotted name)
    weak: bool = False  # resolved by name only (receiver type unknown)
    recv_cls: Optional[Class] = None  # static class of the receiver, when known

    @property
    def lineno(self) -> int:
        return getattr(self.site, "lineno", 0)


class CallGraph:
    def __init__(self, prog: Program, types: Types):
        self.prog = prog
        self.types = types
        self._cache: Dict[Tuple[int, Optional[str]], List[Edge]] = {}
        self._all_cache: Dict[Tuple[int, Optional[str]], List[Edge]] = {}
        self.decorated: Dict[str, List[Func]] = {}
        for f in prog.funcs:
            for d in f.decorators:
                self.decorated.setdefault(d, []).append(f)
        self.stats = {"receivers": 0, "resolved": 0}

    # ------------------------------------------------------------------ dispatch helpers
    def _methods_on(self, cls: Class, name: str, exact: bool) -> List[Func]:
        out: List[Func] = []
        m = cls.lookup_method(name)
        if m is not None:
            out.append(m)
        if not exact:
            for sub in self.prog.subclasses(cls):
                if sub is cls:
                    continue
                m2 = sub.lookup_method(name)
                if m2 is not None and m2 not in out:
                    out.append(m2)
        return out

    def _getters_on(self, cls: Class, name: str, exact: bool) -> List[Func]:
        out: List[Func] = []
        g = cls.lookup_getter(name)
        if g is not None:
            out.append(g)
        if not exact:
            for sub in self.prog.subclasses(cls):
                g2 = sub.lookup_getter(name)
                if g2 is not None and g2 not in out:
                    out.append(g2)
        return out

    def _setters_on(self, cls: Class, name: str, exact: bool) -> List[Func]:
        out: List[Func] = []
        s = cls.lookup_setter(name)
        if s is not None:
            out.append(s)
        if not exact:
            for sub in self.prog.subclasses(cls):
                s2 = sub.lookup_setter(name)
                if s2 is not None and s2 not in out:
                    out.append(s2)
        return out

    def _by_name(self, name: str, what: str) -> List[Func]:
        out: List[Func] = []
        for c in self.prog.classes.values():
            d = {"method": c.methods, "getter": c.getters, "setter": c.setters}[what]
            if name in d:
                out.append(d[name])
        return out

    def _wrappers(self, f: Func) -> List[Func]:
        """Functions returned by package decorators applied to f (the call really enters these)."""
        out = []
        for d in f.decorators:
            dec = None
            for m in self.prog.modules.values():
                if d in m.functions:
                    dec = m.functions[d]
            if dec is None:
                continue
            for g in self.prog.funcs:
                if g.parent is dec:
                    out.append(g)
        return out

    # ------------------------------------------------------------------ edges
    def edges(self, f: Func, self_cls: Optional[Class] = None) -> List[Edge]:  # noqa: C901
        key = (id(f), self_cls.name if self_cls else None)
        if key in self._cache:
            return self._cache[key]
        out: List[Edge] = []
        self._cache[key] = out
        env = self.types.local_env(f, self_cls)
        exact_self = self_cls is not None
        self_name = f.params[0] if f.is_bound and f.params else None
        store_targets: Set[int] = set()
        for n in own_nodes(f.node):
            tgts: List[ast.AST] = []
            if isinstance(n, ast.Assign):
                tgts = list(n.targets)
            elif isinstance(n, (ast.AugAssign, ast.AnnAssign)):
                tgts = [n.target]
            for t in tgts:
                for x in ast.walk(t):
                    if isinstance(x, ast.Attribute) and isinstance(x.ctx, ast.Store):
                        store_targets.add(id(x))
        base_env = env
        # does the function call something it holds in a local / a table (a call whose callee is a plain name that is not a
        # module-level function or class, or a subscript)?
        local_names = {x.id for x in own_nodes(f.node) if isinstance(x, ast.Name) and isinstance(x.ctx, ast.Store)}
        has_indirect_call = any(isinstance(x, ast.Call) and ((isinstance(x.func, ast.Name) and x.func.id in local_names) or isinstance(x.func, (ast.Subscript, ast.IfExp))) for x in own_nodes(f.node))
        for n in own_nodes(f.node):
            if isinstance(n, (ast.Attribute, ast.Call)):
                env = self._narrowed_env(n, f, base_env)
            if isinstance(n, ast.Attribute):
                is_store = id(n) in store_targets or isinstance(n.ctx, ast.Store)
                # method calls are handled at the Call node
                par = getattr(n, "_parent", None)
                is_callee = isinstance(par, ast.Call) and par.func is n
                bt = self.types.expr_type(n.value, f, self_cls, env)
                is_self = isinstance(n.value, ast.Name) and n.value.id == self_name
                cls_list = classes_of(bt)
                self.stats["receivers"] += 1
                if cls_list:
                    self.stats["resolved"] += 1
                    for c in cls_list:
                        exact = exact_self and is_self
                        if is_store:
                            for s in self._setters_on(c, n.attr, exact):
                                out.append(Edge(f, n, "setter", s, False, c))
                            if isinstance(par, ast.AugAssign):
                                for g in self._getters_on(c, n.attr, exact):
                                    out.append(Edge(f, n, "getter", g, False, c))
                        elif not is_callee or c.has_property(n.attr):
                            for g in self._getters_on(c, n.attr, exact):
                                out.append(Edge(f, n, "getter", g, False, c))
                            # a bound method taken as a value (`reader = self._line__host`, a table of readers): whoever
                            # holds it may call it - an edge to the method, as if it were called here
                            if not is_callee and not c.has_property(n.attr) and has_indirect_call:
                                for g in self._methods_on(c, n.attr, exact):
                                    out.append(Edge(f, n, "call", g, False, c))
                elif any(m[0] in ("str", "int", "bool", "list", "dict", "set", "tuple", "mod", "extmod", "ext", "type", "none", "super", "func", "extfunc", "extattr", "builtin_method") for m in members(bt)):
                    self.stats["resolved"] += 1
                    for m in members(bt):
                        if m[0] == "super" and not is_callee:
                            for c in m[1]:
                                if n.attr in c.getters:
                                    out.append(Edge(f, n, "setter" if is_store else "getter", (c.setters if is_store else c.getters).get(n.attr) or c.getters[n.attr], False, c))
                                    break
                else:
                    # unknown receiver: name-based fallback
                    if is_store:
                        for s in self._by_name(n.attr, "setter"):
                            out.append(Edge(f, n, "setter", s, True))
                    elif not is_callee:
                        for g in self._by_name(n.attr, "getter"):
                            out.append(Edge(f, n, "getter", g, True))
            elif isinstance(n, ast.Call):
                out.extend(self._call_edges(n, f, self_cls, env, self_name, exact_self))
        return out

    def _narrowed_env(self, n: ast.AST, f: Func, env):
        """Refine `env` by the isinstance() tests whose true branch encloses `n`."""
        out = None
        child = n
        par = getattr(n, "_parent", None)
        while par is not None and par is not f.node:
            if isinstance(par, ast.If) and child in par.body:
                tests = [par.test]
                if isinstance(par.test, ast.BoolOp) and isinstance(par.test.op, ast.And):
                    tests = list(par.test.values)
                for t in tests:
                    if isinstance(t, ast.Call) and isinstance(t.func, ast.Name) and t.func.id == "isinstance" and len(t.args) == 2 and isinstance(t.args[0], ast.Name):
                        spec = t.args[1]
                        elts = spec.elts if isinstance(spec, ast.Tuple) else [spec]
                        ts = [self.types.ann(x, f.module) for x in elts]
                        if all(x[0] == "cls" for x in ts):
                            if out is None:
                                out = dict(env)
                            from .typeinf import union as _u

                            if t.args[0].id not in out or out is not env:
                                # innermost test wins: only set when not already narrowed deeper
                                out.setdefault("__narrowed__", set())
                                if t.args[0].id not in out["__narrowed__"]:
                                    out[t.args[0].id] = _u(ts)
                                    out["__narrowed__"].add(t.args[0].id)
            child = par
            par = getattr(par, "_parent", None)
        return out if out is not None else env

    def _call_edges(self, n: ast.Call, f: Func, self_cls, env, self_name, exact_self) -> List[Edge]:  # noqa: C901
        out: List[Edge] = []
        fn = n.func

        def add_func(g: Func, weak=False, recv=None):
            for w in self._wrappers(g):
                out.append(Edge(f, n, "call", w, weak, recv))
            out.append(Edge(f, n, "call", g, weak, recv))

        def add_ctor(c: Class, exact: bool):
            init = c.lookup_method("__init__")
            if init is not None:
                out.append(Edge(f, n, "construct", init, False, c))
            if not exact:
                for sub in self.prog.subclasses(c):
                    if sub is not c:
                        i2 = sub.lookup_method("__init__")
                        if i2 is not None and i2 is not init:
                            out.append(Edge(f, n, "construct", i2, False, sub))

        if isinstance(fn, ast.Name):
            # a closure variable that holds the decorated function (wrapper calling `method`)
            if f.parent is not None and fn.id in f.parent.params and fn.id not in f.params:
                for g in self.decorated.get(f.parent.name, []):
                    out.append(Edge(f, n, "call", g, False))
                return out
            if fn.id in env:
                t = env[fn.id]
                for m in members(t):
                    if m[0] == "func":
                        add_func(m[1])
                    elif m[0] == "type":
                        add_ctor(m[1], True)
                return out
            r = self.prog.resolve_name(f.module, fn.id)
            # nested function defined in this function
            for g in self.prog.funcs:
                if g.parent is f and g.name == fn.id:
                    r = g
                if f.parent is not None and g.parent is f.parent and g.name == fn.id:
                    r = g
            if isinstance(r, Func):
                add_func(r)
            elif isinstance(r, Class):
                add_ctor(r, True)
            elif isinstance(r, tuple) and r[0] == "ext":
                out.append(Edge(f, n, "ext", r[1]))
            elif r is None:
                out.append(Edge(f, n, "ext", f"builtins.{fn.id}"))
            return out
        if isinstance(fn, ast.Attribute):
            bt = self.types.expr_type(fn.value, f, self_cls, env)
            is_self = isinstance(fn.value, ast.Name) and fn.value.id == self_name
            resolved = False
            for m in members(bt):
                if m[0] == "cls":
                    resolved = True
                    c = m[1]
                    exact = exact_self and is_self
                    if fn.attr == "__class__":
                        continue
                    meths = self._methods_on(c, fn.attr, exact)
                    for g in meths:
                        add_func(g, False, c)
                    if not meths and not c.has_property(fn.attr):
                        # attribute holding a callable or a builtin-typed attribute: look at attr type
                        at = self.types.attr_type(c, fn.attr)
                        for mm in members(at):
                            if mm[0] == "func":
                                add_func(mm[1], False, c)
                elif m[0] == "type":
                    resolved = True
                    g = m[1].lookup_method(fn.attr)
                    if g is not None:
                        add_func(g, False, m[1])
                elif m[0] == "super":
                    resolved = True
                    for c in m[1]:
                        if fn.attr in c.methods:
                            add_func(c.methods[fn.attr], False, c)
                            break
                elif m[0] == "mod":
                    resolved = True
                    r = self.prog.resolve_name(m[1], fn.attr)
                    if isinstance(r, Func):
                        add_func(r)
                    elif isinstance(r, Class):
                        add_ctor(r, True)
                elif m[0] == "extmod":
                    resolved = True
                    out.append(Edge(f, n, "ext", f"{m[1]}.{fn.attr}"))
                elif m[0] in ("ext", "extattr"):
                    resolved = True
                    out.append(Edge(f, n, "ext", f"{m[1]}.{fn.attr}"))
                elif m[0] in ("str", "int", "list", "dict", "set", "tuple", "bool", "none"):
                    resolved = True
                    out.append(Edge(f, n, "ext", f"builtins.{m[0]}.{fn.attr}"))
            # x.__class__(**kw)
            if isinstance(fn, ast.Attribute) and fn.attr == "__class__":
                resolved = True
            if isinstance(fn.value, ast.Attribute) and fn.value.attr == "__class__":
                pass
            if not resolved:
                cands = self._by_name(fn.attr, "method")
                weak_only = fn.attr in BUILTIN_METHOD_NAMES
                for g in cands:
                    out.append(Edge(f, n, "call", g, True))
                    for w in self._wrappers(g):
                        out.append(Edge(f, n, "call", w, True))
                if not cands or weak_only:
                    out.append(Edge(f, n, "ext", f"?.{fn.attr}", True))
            return out
        # self.__class__(**kw)  /  type(self)(**kw)
        return out

    def ctor_edges_dunder_class(self, n: ast.Call, f: Func, self_cls: Optional[Class]) -> List[Class]:
        """Classes constructed by `X.__class__(...)` calls."""
        fn = n.func
        if isinstance(fn, ast.Attribute) and fn.attr == "__class__":
            bt = self.types.expr_type(fn.value, f, self_cls)
            cl = classes_of(bt)
            out = []
            for c in cl:
                if self_cls is not None and isinstance(fn.value, ast.Name) and fn.value.id == "self":
                    out.append(c)
                else:
                    out.extend(self.prog.subclasses(c))
            return out
        return []

    def all_edges(self, f: Func, self_cls: Optional[Class] = None) -> List[Edge]:
        key = (id(f), self_cls.name if self_cls else None)
        if key in self._all_cache:
            return self._all_cache[key]
        out = list(self.edges(f, self_cls))
        for n in own_nodes(f.node):
            if isinstance(n, ast.Call):
                for c in self.ctor_edges_dunder_class(n, f, self_cls):
                    init = c.lookup_method("__init__")
                    if init is not None:
                        out.append(Edge(f, n, "construct", init, False, c))
        self._all_cache[key] = out
        return out

    def reaching(self, target: Func, include_weak: bool = False) -> Set[Func]:
        """All functions from which `target` is reachable (reverse closure), target excluded unless recursive."""
        rev: Dict[Func, Set[Func]] = {}
        for g in self.prog.funcs:
            for e in self.all_edges(g):
                if isinstance(e.target, Func) and (include_weak or not e.weak):
                    rev.setdefault(e.target, set()).add(g)
        seen: Set[Func] = set()
        work = list(rev.get(target, ()))
        while work:
            x = work.pop()
            if x in seen:
                continue
            seen.add(x)
            work.extend(rev.get(x, ()))
        return seen

    # ------------------------------------------------------------------ closure
    def reach(self, roots: Iterable[Func], include_weak: bool = True, stop=None) -> Set[Func]:
        seen: Set[Func] = set()
        work = list(roots)
        while work:
            f = work.pop()
            if f in seen:
                continue
            seen.add(f)
            if stop is not None and stop(f):
                continue
            for e in self.all_edges(f):
                if isinstance(e.target, Func) and (include_weak or not e.weak):
                    if e.target not in seen:
                        work.append(e.target)
        return seen

    def sccs(self, funcs: Optional[Iterable[Func]] = None, include_weak: bool = False) -> List[List[Func]]:
        nodes = list(funcs) if funcs is not None else list(self.prog.funcs)
        nset = set(nodes)
        index: Dict[Func, int] = {}
        low: Dict[Func, int] = {}
        onstack: Set[Func] = set()
        stack: List[Func] = []
        res: List[List[Func]] = []
        counter = [0]

        def succs(f: Func) -> List[Func]:
            return [e.target for e in self.all_edges(f) if isinstance(e.target, Func) and e.target in nset and (include_weak or not e.weak)]

        for root in nodes:
            if root in index:
                continue
            work = [(root, iter(succs(root)))]
            index[root] = low[root] = counter[0]
            counter[0] += 1
            stack.append(root)
            onstack.add(root)
            while work:
                v, it = work[-1]
                advanced = False
                for w in it:
                    if w not in index:
                        index[w] = low[w] = counter[0]
                        counter[0] += 1
                        stack.append(w)
                        onstack.add(w)
                        work.append((w, iter(succs(w))))
                        advanced = True
                        break
                    elif w in onstack:
                        low[v] = min(low[v], index[w])
                if advanced:
                    continue
                work.pop()
                if work:
                    u = work[-1][0]
                    low[u] = min(low[u], low[v])
                if low[v] == index[v]:
                    comp = []
                    while True:
                        w = stack.pop()
                        onstack.discard(w)
                        comp.append(w)
                        if w is v:
                            break
                    if len(comp) > 1 or v in succs(v):
                        res.append(comp)
        return res
