"""Shared structural analysis of Acl.shading / Acl.delete_shadow (used by C04 and C11)."""

from __future__ import annotations

import ast
from dataclasses import dataclass, field
from typing import Dict, List, Optional, Set, Tuple

from ..cfg import CFG, Node
from ..core import Ctx, Report, snippet, where
from ..model import AnalysisError, Func, own_nodes, src
from .common import chain, mentions, names_in


def _norm_gl(ctx, q):
    """The method with a generator that is consumed by one loop written as the nested loops it stands for, and pairwise
    tuple assignments split (`a, b = x[:i], x[i:]`)."""
    from .normalise import normalised

    return normalised(ctx, ctx.func(q), "genloops")


@dataclass
class ShadingFacts:
    f: Func
    cfg: CFG
    probe: Optional[Node] = None  # cond node `bottom.shadow_of(other=top, skip=skip)`
    bottom: Optional[ast.AST] = None
    top: Optional[ast.AST] = None
    skip_arg: Optional[ast.AST] = None
    outer: Optional[Node] = None
    inner: Optional[Node] = None
    list_name: str = ""
    strictly_above: Optional[bool] = None
    above_reason: str = ""
    list_source: Optional[ast.AST] = None


def _int_offset(e: ast.AST, var: str) -> Optional[int]:
    """e == var + k -> k (k integer constant), e == var -> 0."""
    if isinstance(e, ast.Name) and e.id == var:
        return 0
    if isinstance(e, ast.BinOp) and isinstance(e.op, (ast.Add, ast.Sub)):
        if isinstance(e.left, ast.Name) and e.left.id == var and isinstance(e.right, ast.Constant) and isinstance(e.right.value, int):
            return e.right.value if isinstance(e.op, ast.Add) else -e.right.value
        if isinstance(e.op, ast.Add) and isinstance(e.right, ast.Name) and e.right.id == var and isinstance(e.left, ast.Constant) and isinstance(e.left.value, int):
            return e.left.value
    return None


def analyse_shading(ctx: Ctx) -> ShadingFacts:  # noqa: C901
    f = _norm_gl(ctx, "Acl.shading")
    cfg = ctx.cfg(f)
    sf = ShadingFacts(f=f, cfg=cfg)
    for c in cfg.live:
        if c.kind == "cond" and isinstance(c.ast, ast.Call) and isinstance(c.ast.func, ast.Attribute) and c.ast.func.attr == "shadow_of":
            sf.probe = c
            sf.bottom = c.ast.func.value
            for kw in c.ast.keywords:
                if kw.arg == "other":
                    sf.top = kw.value
                if kw.arg == "skip":
                    sf.skip_arg = kw.value
            if sf.top is None and c.ast.args:
                sf.top = c.ast.args[0]
            if sf.skip_arg is None and len(c.ast.args) > 1:
                sf.skip_arg = c.ast.args[1]
    if sf.probe is None:
        return sf
    # enclosing loops of the probe, innermost first
    loops: List[ast.For] = []
    p = getattr(sf.probe.ast, "_parent", None)
    while p is not None and p is not f.node:
        if isinstance(p, ast.For):
            loops.append(p)
        p = getattr(p, "_parent", None)
    if not loops:
        return sf
    b, t = src(sf.bottom), src(sf.top)
    local_defs: Dict[str, ast.AST] = {}
    for n in own_nodes(f.node):
        if isinstance(n, ast.Assign) and len(n.targets) == 1 and isinstance(n.targets[0], ast.Name):
            local_defs.setdefault(n.targets[0].id, n.value)
        elif isinstance(n, ast.AnnAssign) and isinstance(n.target, ast.Name) and n.value is not None:
            local_defs.setdefault(n.target.id, n.value)
    # idiom (c): for top, bottom in combinations(L, 2)
    if len(loops) >= 1:
        lp = loops[0]
        if isinstance(lp.iter, ast.Call) and src(lp.iter.func).endswith("combinations") and isinstance(lp.target, ast.Tuple) and len(lp.target.elts) == 2:
            first, second = (src(e) for e in lp.target.elts)
            sf.inner = sf.outer = cfg.node_of(lp)
            sf.list_name = src(lp.iter.args[0]) if lp.iter.args else ""
            sf.strictly_above = (t == first and b == second)
            sf.above_reason = f"combinations({sf.list_name}, 2) yields (earlier, later); top={t}, bottom={b}"
            sf.list_source = local_defs.get(sf.list_name)
            return sf
    if len(loops) < 2:
        return sf
    inner, outer = loops[0], loops[1]
    sf.inner, sf.outer = cfg.node_of(inner), cfg.node_of(outer)
    # idiom (a): for idx, top in enumerate(L): for bottom in L[idx + k:]
    if isinstance(outer.iter, ast.Call) and isinstance(outer.iter.func, ast.Name) and outer.iter.func.id == "enumerate" and isinstance(outer.target, ast.Tuple) and len(outer.target.elts) == 2:
        idx, topv = (src(e) for e in outer.target.elts)
        L = src(outer.iter.args[0]) if outer.iter.args else ""
        start = 0
        for kw in outer.iter.keywords:
            if kw.arg == "start" and isinstance(kw.value, ast.Constant):
                start = kw.value.value
        if len(outer.iter.args) > 1 and isinstance(outer.iter.args[1], ast.Constant):
            start = outer.iter.args[1].value
        sf.list_name = L
        sf.list_source = local_defs.get(L)
        it = inner.iter
        if isinstance(it, ast.Name) and it.id in local_defs:
            it = local_defs[it.id]
        if isinstance(it, ast.Subscript) and isinstance(it.slice, ast.Slice) and src(it.value) == L and it.slice.upper is None and it.slice.step is None:
            k = _int_offset(it.slice.lower, idx) if it.slice.lower is not None else None
            if k is None:
                sf.strictly_above = False
                sf.above_reason = f"candidates are {snippet(it)}: lower bound is not `{idx} + k`"
            else:
                # positions of candidates: >= idx - start + k ... relative to top position idx - start
                rel = k - start + start  # enumerate index i = pos + start ; slice from i + k -> pos >= pos_top + start + k
                first_pos_delta = start + k
                sf.strictly_above = first_pos_delta >= 1 and t == topv and b == src(inner.target)
                sf.above_reason = f"top at position p, candidates from {snippet(it)} = positions >= p + {first_pos_delta}; receiver={b}, other={t}"
            return sf
        sf.strictly_above = False
        sf.above_reason = f"inner loop iterates {snippet(inner.iter)}, not a tail slice of {L}"
        return sf
    # idiom (b): for i in range(len(L)): for j in range(i + k, len(L)): L[j].shadow_of(L[i])
    if isinstance(outer.iter, ast.Call) and src(outer.iter.func) == "range" and isinstance(inner.iter, ast.Call) and src(inner.iter.func) == "range":
        i, j = src(outer.target), src(inner.target)
        if inner.iter.args:
            k = _int_offset(inner.iter.args[0], i) if len(inner.iter.args) >= 2 else None
            bt, tt = sf.bottom, sf.top
            if isinstance(bt, ast.Name) and bt.id in local_defs:
                bt = local_defs[bt.id]
            if isinstance(tt, ast.Name) and tt.id in local_defs:
                tt = local_defs[tt.id]
            ok = isinstance(bt, ast.Subscript) and isinstance(tt, ast.Subscript) and src(bt.slice) == j and src(tt.slice) == i and src(bt.value) == src(tt.value)
            sf.list_name = src(bt.value) if isinstance(bt, ast.Subscript) else ""
            sf.list_source = local_defs.get(sf.list_name)
            sf.strictly_above = bool(ok and k is not None and k >= 1)
            sf.above_reason = f"index loops: bottom index from {snippet(inner.iter)}, top index {i}"
            return sf
    return sf


def check_strictly_above(ctx: Ctx, rep: Report, sf: ShadingFacts) -> None:
    f = sf.f
    rep.instance()
    if sf.probe is None:
        rep.violation("Acl.shading", "probe", "no `bottom.shadow_of(other=top, ...)` test decides what is reported", where(f))
        return
    if sf.strictly_above is None:
        rep.violation("Acl.shading", snippet(sf.probe.ast), "cannot establish that the tested entry stands strictly below the covering entry (unrecognised loop structure)", where(f, sf.probe.ast))
    elif not sf.strictly_above:
        rep.violation("Acl.shading", snippet(sf.probe.ast), f"the lower entry is not taken from positions strictly after the upper entry: {sf.above_reason}", where(f, sf.probe.ast), inp="every ACE would shadow itself and the ACL is emptied")
    else:
        rep.ok(f"Acl.shading: {snippet(sf.probe.ast)}", sf.above_reason, where=where(f, sf.probe.ast))
    # the list is the ACE-typed, order-preserving projection of the ungrouped copy
    rep.instance()
    ls = sf.list_source
    if ls is None:
        rep.violation("Acl.shading", f"list {sf.list_name}", "the compared list is not built in this function", where(f))
        return
    ok_order = isinstance(ls, ast.ListComp) and len(ls.generators) == 1 and src(ls.elt) == src(ls.generators[0].target)
    if isinstance(ls, ast.Call) and src(ls.func) in ("sorted", "reversed", "set"):
        ok_order = False
    if ok_order:
        rep.ok(f"Acl.shading: {sf.list_name} = {snippet(ls, 70)}", "order-preserving filter of the item list (upper entries come first)", where=where(f))
    else:
        rep.violation("Acl.shading", f"{sf.list_name} = {snippet(ls)}", "the compared list is not an order-preserving projection of the ACL items: 'above' and 'below' lose their meaning", where(f))
