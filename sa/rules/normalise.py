"""Behaviour-preserving rewrites applied to a *copy* of a function before a structural rule looks at it.

Structural rules recognise shapes.  The same behaviour can be written in several shapes (extract method,
one conjunction instead of a ladder of early returns, a loop over a tuple of fields instead of six
assignments, `getattr(self, "srcport")` behind a constant argument).  Each rewrite below maps one such
shape to the shape the rules were written for and changes no behaviour the rules reason about:

  delegation   body is `return self.m(args)` / `return Cls.m(args)`      -> m's body with parameters replaced
  call-stmts   `self._m(args)` as a statement, m private and value-less  -> m's body with parameters replaced
  unroll       `for v in (a, b, c): body` (literal tuple, no break/continue/else) -> body[a]; body[b]; body[c]
  getattr      `getattr(x, "lit")` / `setattr(x, "lit", v)`              -> x.lit / x.lit = v
  temps        `t = e` used once afterwards (no intervening statement)   -> e at the use
  predicate    `return A and B` / `return A or B` / `return bool(E)` in a `-> bool` function
               -> `if not A: return False` + `return B`  /  `if A: return True` + `return B`

Arguments substituted for parameters must be side-effect free access paths, names or constants, and the
callee must not re-bind its parameters; otherwise the rewrite is not applied and the rule sees the
original text.  The synthetic Func keeps the original's identity (module, class, name) and line numbers.
"""

from __future__ import annotations

import ast
import dataclasses
from typing import Dict, List, Optional

from ..core import Ctx
from ..model import Func
from .common import _SubstMany, _strip_doc, bind_call, callee_of_self_call, clone


def _pure_arg(e: ast.AST) -> bool:
    if isinstance(e, (ast.Name, ast.Constant, ast.Lambda)):
        return True
    if isinstance(e, ast.Attribute):
        return _pure_arg(e.value)
    if isinstance(e, (ast.Tuple, ast.List)):
        return all(_pure_arg(x) for x in e.elts)
    return False


def _stores(fn: ast.AST) -> set:
    out = set()
    for n in ast.walk(fn):
        if isinstance(n, ast.Name) and isinstance(n.ctx, (ast.Store, ast.Del)):
            out.add(n.id)
    return out


def _callee(ctx: Ctx, f: Func, call: ast.Call) -> Optional[Func]:
    m = callee_of_self_call(ctx, f, call)
    if m is not None:
        return m
    fn = call.func
    # a function defined inside f, a module-level helper of the same module, or h.helper(...)
    if isinstance(fn, ast.Name):
        local = next((h_ for h_ in ctx.prog.funcs if h_.parent is f and h_.name == fn.id), None)
        if local is not None:
            return local
        return f.module.functions.get(fn.id)
    if isinstance(fn, ast.Attribute) and isinstance(fn.value, ast.Name):
        target = f.module.imports.get(fn.value.id)
        if target and target[0] == "module":
            mod = ctx.prog.modules.get(target[1].split(".")[-1])
            if mod is not None:
                return mod.functions.get(fn.attr)
    return None


def _instantiate(ctx: Ctx, f: Func, call: ast.Call, want_value: bool, allow_yield: bool = False, allow_rebound_params: bool = True) -> Optional[List[ast.stmt]]:
    """Body of the callee with its parameters replaced by the call's arguments, or None."""
    m = _callee(ctx, f, call)
    if m is None or m is f or m.node is f.node:
        return None
    if any(isinstance(x, (ast.YieldFrom, ast.Await, ast.Global, ast.Nonlocal)) or (isinstance(x, ast.Yield) and not allow_yield) for x in ast.walk(m.node)):
        return None
    bound = m.cls is not None and m.parent is None
    binding = bind_call(m, call, bound=bound)
    if binding is None:
        return None
    # a parameter the callee re-binds (`ports = list(set(ports))`) becomes a local of its own, initialised with the argument
    rebound = set(binding) & _stores(m.node)
    if rebound and not allow_rebound_params:
        return None
    # an argument that is not a plain name / constant is evaluated once, before the body, into a temporary (same order)
    hoisted: List[ast.stmt] = []
    for k in list(binding):
        v = binding[k]
        if not _pure_arg(v):
            tmp = f"{k}__arg"
            hoisted.append(ast.Assign(targets=[ast.Name(id=tmp, ctx=ast.Store())], value=v, lineno=getattr(call, "lineno", 1), col_offset=0))
            binding[k] = ast.Name(id=tmp, ctx=ast.Load())
    # the callee's `self` must be the caller's `self`
    if m.kind in ("method", "getter", "setter") and m.parent is None:
        recv = call.func.value if isinstance(call.func, ast.Attribute) else None
        if not (isinstance(recv, ast.Name) and recv.id == "self"):
            return None
    # locals of the callee must not collide with names of the caller
    caller_names = {n.id for n in ast.walk(f.node) if isinstance(n, ast.Name)} | {a.arg for a in f.node.args.args}
    callee_locals = _stores(m.node)
    rename: Dict[str, ast.AST] = {}
    for name in callee_locals:
        if name in rebound:
            continue
        if name in caller_names:
            rename[name] = name + "__i"
    for name in sorted(rebound):
        new_name = name + "__p"
        hoisted.append(ast.Assign(targets=[ast.Name(id=new_name, ctx=ast.Store())], value=binding.pop(name), lineno=getattr(call, "lineno", 1), col_offset=0))
        rename[name] = new_name
    body = clone(_strip_doc(list(m.node.body)))
    if not want_value:
        # value-less helper: only bare `return` as last statement tolerated
        rets = [n for st in body for n in ast.walk(st) if isinstance(n, ast.Return)]
        if any(r.value is not None and not (isinstance(r.value, ast.Constant) and r.value.value is None) for r in rets):
            return None
        if rets and not (len(rets) == 1 and body and body[-1] is rets[0]):
            return None
        if rets:
            body = body[:-1]
    mod = ast.Module(body=body, type_ignores=[])
    if rename:
        for n in ast.walk(mod):
            if isinstance(n, ast.Name) and n.id in rename:
                n.id = rename[n.id]  # type: ignore[assignment]
    mod = _SubstMany(binding).visit(mod)
    return hoisted + mod.body


def inline_delegation(ctx: Ctx, f: Func, fn: ast.FunctionDef, whole_only: bool = False) -> bool:
    """`return self._m(args)` (a tail call of a private helper of the object, a local function or a module helper)
    -> the helper's body: its returns become the caller's returns.  A helper that can fall off its end gets an explicit
    `return None` appended."""
    changed = False

    def block(stmts: List[ast.stmt]) -> List[ast.stmt]:
        nonlocal changed
        out: List[ast.stmt] = []
        for st in stmts:
            if isinstance(st, (ast.FunctionDef, ast.AsyncFunctionDef, ast.ClassDef)):
                out.append(st)
                continue
            for fld in ("body", "orelse", "finalbody"):
                v = getattr(st, fld, None)
                if isinstance(v, list) and v and isinstance(v[0], ast.stmt):
                    setattr(st, fld, block(v))
            if isinstance(st, ast.Try):
                for h in st.handlers:
                    h.body = block(h.body)
            if isinstance(st, ast.Return) and isinstance(st.value, ast.Call):
                c = st.value
                name = c.func.attr if isinstance(c.func, ast.Attribute) else (c.func.id if isinstance(c.func, ast.Name) else "")
                whole = len(_strip_doc(list(fn.body))) == 1
                if whole or (not whole_only and name.startswith("_") and not name.startswith("__")):
                    m = _callee(ctx, f, c)
                    # a tail call inside try would move the helper's body under the handlers: only outside try
                    new = _instantiate(ctx, f, c, want_value=True) if m is not None and not _inside_try(fn, st) else None
                    if new is not None:
                        if not new or not isinstance(new[-1], (ast.Return, ast.Raise)):
                            new = new + [ast.copy_location(ast.Return(value=ast.copy_location(ast.Constant(value=None), st)), st)]
                        out.extend(new)
                        changed = True
                        continue
            out.append(st)
        return out

    fn.body = block(fn.body)
    return changed


def _inside_try(fn: ast.AST, node: ast.AST) -> bool:
    for t in ast.walk(fn):
        if isinstance(t, ast.Try):
            for part in (t.body, t.orelse):
                if any(node is x for b in part for x in ast.walk(b)):
                    return True
    return False


def inline_call_statements(ctx: Ctx, f: Func, fn: ast.FunctionDef) -> bool:
    changed = False

    def block(stmts: List[ast.stmt]) -> List[ast.stmt]:
        nonlocal changed
        out: List[ast.stmt] = []
        for st in stmts:
            for fld in ("body", "orelse", "finalbody"):
                v = getattr(st, fld, None)
                if isinstance(v, list) and v and isinstance(v[0], ast.stmt):
                    setattr(st, fld, block(v))
            if isinstance(st, ast.Try):
                for h in st.handlers:
                    h.body = block(h.body)
            if isinstance(st, ast.Expr) and isinstance(st.value, ast.Call):
                c = st.value
                name = c.func.attr if isinstance(c.func, ast.Attribute) else (c.func.id if isinstance(c.func, ast.Name) else "")
                if name.startswith("_") and not name.startswith("__"):
                    new = _instantiate(ctx, f, c, want_value=False)
                    if new is not None:
                        for x in new:
                            for y in ast.walk(x):
                                if hasattr(y, "lineno"):
                                    y.lineno = st.lineno
                                    y.end_lineno = getattr(st, "end_lineno", st.lineno)
                        out.extend(new)
                        changed = True
                        continue
            out.append(st)
        return out

    fn.body = block(fn.body)
    return changed


class _Beta(ast.NodeTransformer):
    """(lambda a, b: E)(x, y) -> E[a := x, b := y] for side-effect free arguments."""

    changed = False

    def visit_Call(self, node: ast.Call):
        self.generic_visit(node)
        lam = node.func
        if isinstance(lam, ast.Lambda) and not node.keywords and not lam.args.vararg and not lam.args.kwarg and not lam.args.kwonlyargs and not lam.args.defaults:
            ps = [a.arg for a in lam.args.posonlyargs + lam.args.args]
            if len(ps) == len(node.args) and all(_pure_arg(a) for a in node.args):
                bound = {n.id for n in ast.walk(lam.body) if isinstance(n, ast.Name) and isinstance(n.ctx, ast.Store)}
                if not (bound & set(ps)):
                    self.changed = True
                    return ast.copy_location(_SubstMany(dict(zip(ps, node.args))).visit(clone(lam.body)), node)
        return node


class _Quant(ast.NodeTransformer):
    """all(E(v) for v in (t1, t2, ...)) -> E(t1) and E(t2) and ... ; any(...) -> or  (same evaluation order, same
    short circuit).  The tuple may be a local bound exactly once to a tuple literal."""

    def __init__(self, local_tuples: Dict[str, ast.AST]):
        self.local_tuples = local_tuples
        self.changed = False

    def visit_Call(self, node: ast.Call):
        self.generic_visit(node)
        if isinstance(node.func, ast.Name) and node.func.id in ("all", "any") and len(node.args) == 1 and not node.keywords and isinstance(node.args[0], (ast.GeneratorExp, ast.ListComp)):
            g = node.args[0]
            if len(g.generators) == 1 and not g.generators[0].ifs and isinstance(g.generators[0].target, ast.Name):
                it = g.generators[0].iter
                if isinstance(it, ast.Name) and it.id in self.local_tuples:
                    it = self.local_tuples[it.id]
                if isinstance(it, (ast.Tuple, ast.List)) and 0 < len(it.elts) <= 12 and all(_pure_arg(e) for e in it.elts):
                    v = g.generators[0].target.id
                    vals = [_SubstMany({v: e}).visit(clone(g.elt)) for e in it.elts]
                    self.changed = True
                    if len(vals) == 1:
                        return ast.copy_location(ast.Call(func=ast.Name(id="bool", ctx=ast.Load()), args=vals, keywords=[]), node)
                    return ast.copy_location(ast.BoolOp(op=ast.And() if node.func.id == "all" else ast.Or(), values=vals), node)
        return node


def _local_tuples(fn: ast.FunctionDef) -> Dict[str, ast.AST]:
    binds: Dict[str, int] = {}
    for n in ast.walk(fn):
        if isinstance(n, ast.Name) and isinstance(n.ctx, (ast.Store, ast.Del)):
            binds[n.id] = binds.get(n.id, 0) + 1
    out: Dict[str, ast.AST] = {}
    for n in ast.walk(fn):
        tg, val = None, None
        if isinstance(n, ast.Assign) and len(n.targets) == 1 and isinstance(n.targets[0], ast.Name):
            tg, val = n.targets[0].id, n.value
        elif isinstance(n, ast.AnnAssign) and isinstance(n.target, ast.Name) and n.value is not None:
            tg, val = n.target.id, n.value
        if tg and isinstance(val, ast.Tuple) and binds.get(tg) == 1 and all(_pure_arg(e) for e in val.elts):
            out[tg] = val
    return out


def expand_quantifiers(fn: ast.FunctionDef) -> bool:
    t = _Quant(_local_tuples(fn))
    t.visit(fn)
    return t.changed


_OPERATOR_FUNCS = {"operator.gt": ast.Gt, "operator.lt": ast.Lt, "operator.ge": ast.GtE, "operator.le": ast.LtE, "operator.eq": ast.Eq, "operator.ne": ast.NotEq}


class _OperatorCalls(ast.NodeTransformer):
    """operator.gt(a, b) -> a > b (and lt, ge, le, eq, ne; `operator.contains(a, b)` -> b in a), by the name the module
    imported them under."""

    def __init__(self, resolve):
        self.resolve = resolve
        self.changed = False

    def visit_Call(self, node: ast.Call):
        self.generic_visit(node)
        if node.keywords or len(node.args) != 2:
            return node
        fq = None
        if isinstance(node.func, ast.Name):
            fq = self.resolve(node.func.id)
        elif isinstance(node.func, ast.Attribute) and isinstance(node.func.value, ast.Name):
            base = self.resolve(node.func.value.id)
            fq = f"{base}.{node.func.attr}" if base else None
        if fq in _OPERATOR_FUNCS:
            self.changed = True
            return ast.copy_location(ast.Compare(left=node.args[0], ops=[_OPERATOR_FUNCS[fq]()], comparators=[node.args[1]]), node)
        if fq == "operator.contains":
            self.changed = True
            return ast.copy_location(ast.Compare(left=node.args[1], ops=[ast.In()], comparators=[node.args[0]]), node)
        return node


def beta_reduce(fn: ast.FunctionDef, resolve=None) -> bool:
    t = _Beta()
    t.visit(fn)
    changed = t.changed
    if resolve is not None:
        o = _OperatorCalls(resolve)
        o.visit(fn)
        changed |= o.changed
    return changed


def beta_reduce_local_defs(fn: ast.FunctionDef) -> bool:
    """`def covered(x): return E` defined in the body of fn (bound once, body one return) and called by its bare name
    with plain arguments: every call `covered(a)` is E[x := a], wherever it stands (a test, an operand)."""
    defs: Dict[str, ast.FunctionDef] = {}
    for st in fn.body:
        if isinstance(st, ast.FunctionDef) and not st.decorator_list:
            body = _strip_doc(list(st.body))
            a = st.args
            if len(body) == 1 and isinstance(body[0], ast.Return) and body[0].value is not None and not (a.vararg or a.kwarg or a.kwonlyargs or a.defaults or a.posonlyargs):
                if not any(isinstance(x, (ast.Yield, ast.YieldFrom, ast.Await, ast.NamedExpr, ast.Lambda)) for x in ast.walk(body[0].value)):
                    defs[st.name] = st
    # bound exactly once (the def itself) and not called recursively
    for name in list(defs):
        stores = sum(1 for x in ast.walk(fn) if (isinstance(x, ast.Name) and x.id == name and isinstance(x.ctx, ast.Store)) or (isinstance(x, ast.FunctionDef) and x.name == name and x is not fn))
        rec = any(isinstance(x, ast.Name) and x.id == name for x in ast.walk(defs[name]))
        if stores != 1 or rec:
            del defs[name]
    if not defs:
        return False
    changed = False

    class _T(ast.NodeTransformer):
        def visit_FunctionDef(self, node: ast.FunctionDef):
            if node is fn:
                self.generic_visit(node)
            return node

        def visit_Call(self, node: ast.Call):
            nonlocal changed
            self.generic_visit(node)
            if isinstance(node.func, ast.Name) and node.func.id in defs and not node.keywords:
                d = defs[node.func.id]
                ps = [a.arg for a in d.args.args]
                if len(ps) == len(node.args) and all(_pure_arg(a) for a in node.args):
                    changed = True
                    body = _strip_doc(list(d.body))
                    return ast.copy_location(_SubstMany(dict(zip(ps, node.args))).visit(clone(body[0].value)), node)
            return node

    _T().visit(fn)
    if changed:
        ast.fix_missing_locations(fn)
    return changed


def hoist_helper_arguments(fn: ast.FunctionDef) -> bool:
    """`r = m(a, s, _fix(s, p), **kw)` at the top level of fn, with `_fix` a private helper that is handed the parameter
    `p`, `p` not read anywhere after this statement and the arguments before it plain names  ->  `p = _fix(s, p)` followed
    by `r = m(a, s, p, **kw)`: the value is computed at the same point (the earlier arguments have no effects) and only
    this call sees it.  The multi-return inliner then writes the helper out."""
    params = {a.arg for a in fn.args.args}
    changed = False
    for i, st in enumerate(list(fn.body)):
        val = getattr(st, "value", None) if isinstance(st, (ast.Assign, ast.AnnAssign, ast.Expr, ast.Return)) else None
        if not isinstance(val, ast.Call):
            continue
        for j, a in enumerate(val.args):
            if not (isinstance(a, ast.Call) and isinstance(a.func, ast.Name) and a.func.id.startswith("_") and not a.keywords and all(isinstance(x, ast.Name) for x in a.args)):
                continue
            ps = [x.id for x in a.args if x.id in params]
            if len(ps) < 1 or not all(isinstance(x, (ast.Name, ast.Constant)) for x in val.args[:j]):
                continue
            p_ = ps[-1]
            later = [y for s2 in fn.body[fn.body.index(st) + 1 :] for y in ast.walk(s2) if isinstance(y, ast.Name) and y.id == p_]
            here = [y for y in ast.walk(st) if isinstance(y, ast.Name) and y.id == p_ and not any(y is z for z in ast.walk(a))]
            if later or here:
                continue
            new = ast.copy_location(ast.Assign(targets=[ast.Name(id=p_, ctx=ast.Store())], value=a), st)
            val.args[j] = ast.copy_location(ast.Name(id=p_, ctx=ast.Load()), a)
            fn.body.insert(fn.body.index(st), new)
            changed = True
            break
    if changed:
        ast.fix_missing_locations(fn)
    return changed


def collapse_inlining_aliases(fn: ast.FunctionDef) -> bool:
    """`addresses = addresses__i` left behind by inlining (the callee's local was renamed because the caller uses the same
    name for the result): when both names are bound exactly once, the caller's name stands for the callee's list - the
    copy is dropped and the callee's local takes the caller's name."""
    import re as _re_

    changed = False
    stores: Dict[str, int] = {}
    for n in ast.walk(fn):
        if isinstance(n, ast.Name) and isinstance(n.ctx, (ast.Store, ast.Del)):
            stores[n.id] = stores.get(n.id, 0) + 1
    params = {a.arg for a in fn.args.args + fn.args.kwonlyargs}
    ren: Dict[str, str] = {}
    drop: List[ast.stmt] = []
    for n in ast.walk(fn):
        tg, v = None, None
        if isinstance(n, ast.Assign) and len(n.targets) == 1 and isinstance(n.targets[0], ast.Name) and isinstance(n.value, ast.Name):
            tg, v = n.targets[0].id, n.value.id
        elif isinstance(n, ast.AnnAssign) and isinstance(n.target, ast.Name) and isinstance(n.value, ast.Name):
            tg, v = n.target.id, n.value.id
        if tg and v and _re_.search(r"(__i|__p)$|^(drained__|acc__|arg__)", v) and stores.get(tg) == 1 and stores.get(v) == 1 and tg not in params and v not in params and v not in ren and tg not in ren.values():
            ren[v] = tg
            drop.append(n)
    if not ren:
        return False

    def block(stmts: List[ast.stmt]) -> List[ast.stmt]:
        out = []
        for st in stmts:
            if any(st is d for d in drop):
                continue
            for fld in ("body", "orelse", "finalbody"):
                v = getattr(st, fld, None)
                if isinstance(v, list) and v and isinstance(v[0], ast.stmt):
                    setattr(st, fld, block(v) or [ast.Pass()])
            if isinstance(st, ast.Try):
                for h in st.handlers:
                    h.body = block(h.body) or [ast.Pass()]
            out.append(st)
        return out

    fn.body = block(fn.body)
    for n in ast.walk(fn):
        if isinstance(n, ast.Name) and n.id in ren:
            n.id = ren[n.id]
            changed = True
    if changed:
        ast.fix_missing_locations(fn)
    return changed


def beta_reduce_module_helpers(ctx: Ctx, f: Func, fn: ast.FunctionDef) -> bool:
    """`_first(x)` with `_first` a private function of the same module whose body is one `return E` (no defaults, no
    star parameters, no call-by-keyword) and plain arguments: the call is E[param := argument], wherever it stands."""
    changed = False

    class _T(ast.NodeTransformer):
        def visit_FunctionDef(self, node: ast.FunctionDef):
            if node is fn:
                self.generic_visit(node)
            return node

        def visit_Call(self, node: ast.Call):
            nonlocal changed
            self.generic_visit(node)
            if isinstance(node.func, ast.Name) and node.func.id.startswith("_") and not node.func.id.startswith("__") and not node.keywords:
                m = f.module.functions.get(node.func.id)
                if m is None or m.node is fn or m.node is f.node:
                    return node
                d = m.node
                a = d.args
                body = _strip_doc(list(d.body))
                if not (len(body) == 1 and isinstance(body[0], ast.Return) and body[0].value is not None) or a.vararg or a.kwarg or a.kwonlyargs or a.defaults or a.posonlyargs or d.decorator_list:
                    return node
                if any(isinstance(x, (ast.Yield, ast.YieldFrom, ast.Await, ast.NamedExpr, ast.Lambda)) for x in ast.walk(body[0].value)):
                    return node
                if any(isinstance(x, ast.Name) and x.id == d.name for x in ast.walk(body[0].value)):
                    return node
                ps = [x.arg for x in a.args]
                if len(ps) == len(node.args) and all(_pure_arg(x) for x in node.args):
                    # names of the callee's module are the caller's module's names: same module
                    changed = True
                    return ast.copy_location(_SubstMany(dict(zip(ps, node.args))).visit(clone(body[0].value)), node)
            return node

    _T().visit(fn)
    if changed:
        ast.fix_missing_locations(fn)
    return changed


def inline_value_calls(ctx: Ctx, f: Func, fn: ast.FunctionDef, only_local: bool = False) -> bool:
    """`x = self._m(a, self._n())` where the private helpers end in their only `return <expr>`:
    helper bodies are written out in front of the statement (arguments that are such calls are hoisted into
    temporaries first, in evaluation order) and the call is replaced by the returned expression."""
    changed = False
    counter = [0]

    def single_tail_return(m: Func) -> bool:
        body = _strip_doc(list(m.node.body))
        rets = [n for st in body for n in ast.walk(st) if isinstance(n, ast.Return)]
        return bool(body) and len(rets) == 1 and body[-1] is rets[0] and rets[0].value is not None

    def inlinable(c: ast.AST) -> Optional[Func]:
        if not isinstance(c, ast.Call):
            return None
        name = c.func.attr if isinstance(c.func, ast.Attribute) else (c.func.id if isinstance(c.func, ast.Name) else "")
        if only_local:
            # a function defined inside f (any name), called by its bare name
            if not isinstance(c.func, ast.Name):
                return None
            m = next((h_ for h_ in ctx.prog.funcs if h_.parent is f and h_.name == name), None)
            if m is None or not single_tail_return(m) or any(isinstance(x, (ast.Yield, ast.YieldFrom, ast.Nonlocal)) for x in ast.walk(m.node)):
                return None
            return m
        if not (name.startswith("_") and not name.startswith("__")):
            return None
        m = _callee(ctx, f, c)
        if m is None or m is f or m.node is f.node or not single_tail_return(m):
            return None
        return m

    def expand(c: ast.Call, at: ast.stmt, depth: int = 0):
        """(statements to put in front, expression that replaces the call) or None."""
        if depth > 3:
            return None
        pre: List[ast.stmt] = []
        c2 = clone(c)
        for i, a in enumerate(c2.args):
            if inlinable(a) is not None:
                r = expand(a, at, depth + 1)
                if r is None:
                    return None
                counter[0] += 1
                tmp = f"arg__{counter[0]}"
                pre.extend(r[0])
                pre.append(ast.copy_location(ast.Assign(targets=[ast.Name(id=tmp, ctx=ast.Store())], value=r[1]), at))
                c2.args[i] = ast.copy_location(ast.Name(id=tmp, ctx=ast.Load()), a)
        body = _instantiate(ctx, f, c2, want_value=True)
        if body is None or not body or not isinstance(body[-1], ast.Return):
            return None
        return pre + body[:-1], body[-1].value

    def block(stmts: List[ast.stmt]) -> List[ast.stmt]:
        nonlocal changed
        out: List[ast.stmt] = []
        for st in stmts:
            for fld in ("body", "orelse", "finalbody"):
                v = getattr(st, fld, None)
                if isinstance(v, list) and v and isinstance(v[0], ast.stmt):
                    setattr(st, fld, block(v))
            if isinstance(st, ast.Try):
                for h in st.handlers:
                    h.body = block(h.body)
            val = getattr(st, "value", None) if isinstance(st, (ast.Assign, ast.AnnAssign, ast.Return)) else None
            if val is not None and inlinable(val) is not None:
                r = expand(val, st)
                if r is not None:
                    pre, expr = r
                    for x in pre:
                        for y in ast.walk(x):
                            if hasattr(y, "lineno"):
                                y.lineno = st.lineno
                                y.end_lineno = getattr(st, "end_lineno", st.lineno)
                    out.extend(pre)
                    new = clone(st)
                    new.value = expr
                    out.append(new)
                    changed = True
                    continue
            out.append(st)
        return out

    fn.body = block(fn.body)
    return changed


def inline_drained_generators(ctx: Ctx, f: Func, fn: ast.FunctionDef) -> bool:
    """`x = list(self._gen(a))` / `return list(self._gen(a))` with `_gen` a private generator that only yields as a
    statement and has no `return`: the generator is drained on the spot, so it is the loop it contains with every
    `yield e` appending to a fresh list - `acc = []; <body, yield e -> acc.append(e)>; x = acc`."""
    changed = False
    counter = [0]

    def gen_of(c: ast.AST) -> Optional[ast.Call]:
        if not (isinstance(c, ast.Call) and isinstance(c.func, ast.Name) and c.func.id in ("list",) and len(c.args) == 1 and not c.keywords and isinstance(c.args[0], ast.Call)):
            return None
        inner = c.args[0]
        name = inner.func.attr if isinstance(inner.func, ast.Attribute) else (inner.func.id if isinstance(inner.func, ast.Name) else "")
        if not (name.startswith("_") and not name.startswith("__")):
            return None
        m = _callee(ctx, f, inner)
        if m is None or m is f or m.node is f.node:
            return None
        nodes = [x for x in ast.walk(m.node)]
        if not any(isinstance(x, ast.Yield) for x in nodes) or any(isinstance(x, (ast.Return, ast.YieldFrom)) for x in nodes):
            return None
        if any(isinstance(x, (ast.FunctionDef, ast.Lambda)) and x is not m.node for x in nodes):
            return None
        # every yield is a statement of its own
        stmts_y = {id(x.value) for x in nodes if isinstance(x, ast.Expr) and isinstance(x.value, ast.Yield)}
        if any(isinstance(x, ast.Yield) and id(x) not in stmts_y for x in nodes):
            return None
        return inner

    def block(stmts: List[ast.stmt]) -> List[ast.stmt]:
        nonlocal changed
        out: List[ast.stmt] = []
        for st in stmts:
            if isinstance(st, (ast.FunctionDef, ast.AsyncFunctionDef, ast.ClassDef)):
                out.append(st)
                continue
            for fld in ("body", "orelse", "finalbody"):
                v = getattr(st, fld, None)
                if isinstance(v, list) and v and isinstance(v[0], ast.stmt):
                    setattr(st, fld, block(v))
            if isinstance(st, ast.Try):
                for h in st.handlers:
                    h.body = block(h.body)
            val = getattr(st, "value", None) if isinstance(st, (ast.Assign, ast.AnnAssign, ast.Return)) else None
            inner = gen_of(val) if val is not None else None
            if inner is not None:
                body = _instantiate(ctx, f, inner, want_value=True, allow_yield=True)
                if body is not None:
                    counter[0] += 1
                    acc = f"drained__{counter[0]}"

                    class _Y(ast.NodeTransformer):
                        def visit_Expr(self, node: ast.Expr):
                            if isinstance(node.value, ast.Yield):
                                arg = node.value.value if node.value.value is not None else ast.Constant(value=None)
                                call = ast.Call(func=ast.Attribute(value=ast.Name(id=acc, ctx=ast.Load()), attr="append", ctx=ast.Load()), args=[arg], keywords=[])
                                return ast.copy_location(ast.Expr(value=call), node)
                            return node

                    body = [_Y().visit(b) for b in body]
                    pre = [ast.Assign(targets=[ast.Name(id=acc, ctx=ast.Store())], value=ast.List(elts=[], ctx=ast.Load()))] + body
                    for x in pre:
                        for y in ast.walk(x):
                            y.lineno = getattr(y, "lineno", None) or st.lineno
                            if not hasattr(y, "col_offset"):
                                y.col_offset = 0
                    out.extend(pre)
                    new = clone(st)
                    new.value = ast.copy_location(ast.Name(id=acc, ctx=ast.Load()), val)
                    out.append(new)
                    changed = True
                    continue
            out.append(st)
        return out

    fn.body = block(fn.body)
    if changed:
        ast.fix_missing_locations(fn)
    return changed


def _returns_to_assignments(stmts: List[ast.stmt], target: str) -> Optional[List[ast.stmt]]:
    """The statements with every `return E` turned into `target = E`, early returns turned into if/else nesting (what
    follows an `if` whose branch returns is moved into the branch that goes on).  None when a return sits in a loop / try."""

    def terminates(block: List[ast.stmt]) -> bool:
        if not block:
            return False
        last = block[-1]
        if isinstance(last, (ast.Return, ast.Raise)):
            return True
        return isinstance(last, ast.If) and bool(last.orelse) and terminates(last.body) and terminates(last.orelse)

    def has_return(node: ast.AST) -> bool:
        return any(isinstance(x, ast.Return) for x in ast.walk(node))

    def conv(block: List[ast.stmt]) -> Optional[List[ast.stmt]]:
        if not block:
            return []
        first, rest = block[0], block[1:]
        if isinstance(first, ast.Return):
            v = first.value if first.value is not None else ast.Constant(value=None)
            return [ast.copy_location(ast.Assign(targets=[ast.Name(id=target, ctx=ast.Store())], value=v), first)]
        if isinstance(first, ast.Raise):
            return [first]
        if isinstance(first, ast.If) and has_return(first):
            b = conv(list(first.body) + ([] if terminates(first.body) else rest))
            o = conv(list(first.orelse) + ([] if terminates(first.orelse) and first.orelse else rest))
            if b is None or o is None:
                return None
            return [ast.copy_location(ast.If(test=first.test, body=b or [ast.Pass()], orelse=o), first)]
        if has_return(first):
            return None  # a return inside a loop / try / with
        tail = conv(rest)
        return None if tail is None else [first] + tail

    return conv(stmts)


def inline_multi_return_calls(ctx: Ctx, f: Func, fn: ast.FunctionDef) -> bool:
    """`x = _helper(a, b)` (statement level, private module/class helper with several returns, none inside a loop):
    the helper's body is written out with `return E` turned into `x = E`."""
    changed = False

    def block(stmts: List[ast.stmt]) -> List[ast.stmt]:
        nonlocal changed
        out: List[ast.stmt] = []
        for st in stmts:
            for fld in ("body", "orelse", "finalbody"):
                v = getattr(st, fld, None)
                if isinstance(v, list) and v and isinstance(v[0], ast.stmt):
                    setattr(st, fld, block(v))
            tgt = None
            if isinstance(st, ast.Assign) and len(st.targets) == 1 and isinstance(st.targets[0], ast.Name):
                tgt = st.targets[0].id
            elif isinstance(st, ast.AnnAssign) and isinstance(st.target, ast.Name) and st.value is not None:
                tgt = st.target.id
            c = getattr(st, "value", None)
            if tgt and isinstance(c, ast.Call) and not _inside_try(fn, st):
                name = c.func.attr if isinstance(c.func, ast.Attribute) else (c.func.id if isinstance(c.func, ast.Name) else "")
                m = _callee(ctx, f, c) if name.startswith("_") and not name.startswith("__") else None
                if m is not None and m is not f and sum(1 for x in ast.walk(m.node) if isinstance(x, ast.Return)) >= 2:
                    body = _instantiate(ctx, f, c, want_value=True)
                    if body is not None:
                        res = f"{tgt}__r"
                        conv = _returns_to_assignments(body, res)
                        if conv is not None:
                            for x in conv:
                                for y in ast.walk(x):
                                    if hasattr(y, "lineno"):
                                        y.lineno = st.lineno
                                        y.end_lineno = getattr(st, "end_lineno", st.lineno)
                            out.extend(conv)
                            new = clone(st)
                            new.value = ast.Name(id=res, ctx=ast.Load())
                            out.append(new)
                            changed = True
                            continue
            out.append(st)
        return out

    fn.body = block(fn.body)
    return changed


def _guards_to_else(body: List[ast.stmt]) -> List[ast.stmt]:
    """A loop body whose top-level guard clauses end in `continue` (`if c: [...]; continue` followed by the rest) written
    as `if c: [...] else: <rest>` - the same control flow without the jump, so that the body can be copied per element."""
    for i, st in enumerate(body):
        if isinstance(st, ast.If) and not st.orelse and st.body and isinstance(st.body[-1], ast.Continue) and not any(isinstance(x, (ast.Break, ast.Continue)) for b in st.body[:-1] for x in ast.walk(b)):
            rest = _guards_to_else(body[i + 1 :])
            new_if = ast.copy_location(ast.If(test=st.test, body=(st.body[:-1] or [ast.copy_location(ast.Pass(), st)]), orelse=rest), st)
            return body[:i] + [new_if]
    return body


def unroll_literal_loops(fn: ast.FunctionDef, consts: Optional[Dict[str, ast.AST]] = None) -> bool:
    """consts: module-level names bound once to a tuple/list literal (a dispatch table iterated by the function)."""
    changed = False
    consts = consts or {}
    # locals bound exactly once to a tuple literal (immutable): `fields = (self._a, self._b)` / `for x in fields:`
    binds: Dict[str, List[ast.AST]] = {}
    for n in ast.walk(fn):
        if isinstance(n, ast.Name) and isinstance(n.ctx, (ast.Store, ast.Del)):
            binds.setdefault(n.id, []).append(n)
    local_tuples: Dict[str, ast.AST] = {}
    for n in ast.walk(fn):
        tg, val = None, None
        if isinstance(n, ast.Assign) and len(n.targets) == 1 and isinstance(n.targets[0], ast.Name):
            tg, val = n.targets[0].id, n.value
        elif isinstance(n, ast.AnnAssign) and isinstance(n.target, ast.Name) and n.value is not None:
            tg, val = n.target.id, n.value
        if tg and isinstance(val, ast.Tuple) and len(binds.get(tg, [])) == 1 and all(_pure_arg(e) for e in val.elts):
            local_tuples[tg] = val

    def block(stmts: List[ast.stmt]) -> List[ast.stmt]:
        nonlocal changed
        out: List[ast.stmt] = []
        for st in stmts:
            for fld in ("body", "orelse", "finalbody"):
                v = getattr(st, fld, None)
                if isinstance(v, list) and v and isinstance(v[0], ast.stmt):
                    setattr(st, fld, block(v))
            it = st.iter if isinstance(st, ast.For) else None
            if isinstance(it, ast.Name) and it.id in consts and it.id not in _stores(fn):
                it = consts[it.id]
            elif isinstance(it, ast.Name) and it.id in local_tuples:
                it = local_tuples[it.id]
            tnames = []
            if isinstance(st, ast.For):
                if isinstance(st.target, ast.Name):
                    tnames = [st.target.id]
                elif isinstance(st.target, ast.Tuple) and all(isinstance(e, ast.Name) for e in st.target.elts):
                    tnames = [e.id for e in st.target.elts]
            if (
                isinstance(st, ast.For)
                and tnames
                and isinstance(it, (ast.Tuple, ast.List))
                and not st.orelse
                and 0 < len(it.elts) <= 12
                and all(_pure_arg(e) for e in it.elts)
                and (isinstance(st.target, ast.Name) or all(isinstance(e, (ast.Tuple, ast.List)) and len(e.elts) == len(tnames) for e in it.elts))
                and not any(isinstance(x, (ast.Break, ast.Continue)) for b in _guards_to_else(st.body) for x in ast.walk(b))
                and not (set(tnames) & {n.id for b in st.body for n in ast.walk(b) if isinstance(n, ast.Name) and isinstance(n.ctx, ast.Store)})
            ):
                for e in it.elts:
                    binding = {tnames[0]: e} if isinstance(st.target, ast.Name) else dict(zip(tnames, e.elts))
                    for b in _guards_to_else(st.body):
                        out.append(_SubstMany(binding).visit(clone(b)))
                changed = True
                continue
            # first-match loop: for t, p in TABLE: if C: S; break  else: E   ->   if C1: S1 elif C2: S2 else: E
            if (
                isinstance(st, ast.For)
                and tnames
                and isinstance(it, (ast.Tuple, ast.List))
                and 0 < len(it.elts) <= 12
                and all(_pure_arg(e) for e in it.elts)
                and (isinstance(st.target, ast.Name) or all(isinstance(e, (ast.Tuple, ast.List)) and len(e.elts) == len(tnames) for e in it.elts))
                and len(st.body) == 1
                and isinstance(st.body[0], ast.If)
                and not st.body[0].orelse
                and st.body[0].body
                and isinstance(st.body[0].body[-1], ast.Break)
                and not any(isinstance(x, (ast.Break, ast.Continue)) for b in st.body[0].body[:-1] for x in ast.walk(b))
                and not (set(tnames) & {n.id for b in st.body for n in ast.walk(b) if isinstance(n, ast.Name) and isinstance(n.ctx, ast.Store) and not isinstance(getattr(n, "_p", None), ast.NamedExpr)} - _walrus_targets(st.body[0].test))
            ):
                tail: List[ast.stmt] = list(st.orelse)
                for e in reversed(it.elts):
                    binding = {tnames[0]: e} if isinstance(st.target, ast.Name) else dict(zip(tnames, e.elts))
                    inner = st.body[0]
                    test = _SubstMany(binding).visit(clone(inner.test))
                    body_i = [_SubstMany(binding).visit(clone(b)) for b in inner.body[:-1]] or [ast.copy_location(ast.Pass(), inner)]
                    tail = [ast.copy_location(ast.If(test=test, body=body_i, orelse=tail), st)]
                out.extend(tail)
                changed = True
                continue
            out.append(st)
        return out

    fn.body = block(fn.body)
    if changed:
        # a local table that was only there to be iterated is dead once its loop is written out: drop the binding, so that
        # the method references it holds are not taken for calls every path may make
        loads = {n.id for n in ast.walk(fn) if isinstance(n, ast.Name) and isinstance(n.ctx, ast.Load)}
        dead = {nm for nm in local_tuples if nm not in loads}
        if dead:
            def prune(stmts: List[ast.stmt]) -> List[ast.stmt]:
                out2 = []
                for st in stmts:
                    tgt = st.targets[0] if isinstance(st, ast.Assign) and len(st.targets) == 1 else (st.target if isinstance(st, ast.AnnAssign) else None)
                    if isinstance(tgt, ast.Name) and tgt.id in dead:
                        continue
                    for fld in ("body", "orelse", "finalbody"):
                        v = getattr(st, fld, None)
                        if isinstance(v, list) and v and isinstance(v[0], ast.stmt):
                            setattr(st, fld, prune(v) or [ast.Pass()])
                    out2.append(st)
                return out2

            fn.body = prune(fn.body) or [ast.Pass()]
    return changed


def _walrus_targets(e: ast.AST) -> set:
    return {x.target.id for x in ast.walk(e) if isinstance(x, ast.NamedExpr) and isinstance(x.target, ast.Name)}


def _const_str(k: ast.AST) -> ast.AST:
    """An f-string / concatenation / %-format of string constants only -> the constant (`f"_{'name'}"` after unrolling)."""
    if isinstance(k, ast.JoinedStr) and all(isinstance(v, ast.Constant) or (isinstance(v, ast.FormattedValue) and isinstance(v.value, ast.Constant) and v.conversion == -1 and v.format_spec is None) for v in k.values):
        return ast.copy_location(ast.Constant(value="".join(str(v.value if isinstance(v, ast.Constant) else v.value.value) for v in k.values)), k)
    if isinstance(k, ast.BinOp) and isinstance(k.op, ast.Add):
        l, r = _const_str(k.left), _const_str(k.right)
        if isinstance(l, ast.Constant) and isinstance(r, ast.Constant) and isinstance(l.value, str) and isinstance(r.value, str):
            return ast.copy_location(ast.Constant(value=l.value + r.value), k)
    return k


class _GetAttr(ast.NodeTransformer):
    changed = False

    def visit_Call(self, node: ast.Call):
        self.generic_visit(node)
        if isinstance(node.func, ast.Name) and node.func.id == "getattr" and len(node.args) == 2 and not node.keywords:
            k = _const_str(node.args[1])
            if isinstance(k, ast.Constant) and isinstance(k.value, str) and k.value.isidentifier():
                self.changed = True
                return ast.copy_location(ast.Attribute(value=node.args[0], attr=k.value, ctx=ast.Load()), node)
        return node

    def visit_Expr(self, node: ast.Expr):
        self.generic_visit(node)
        c = node.value
        if isinstance(c, ast.Call) and isinstance(c.func, ast.Name) and c.func.id == "setattr" and len(c.args) == 3 and not c.keywords:
            k = _const_str(c.args[1])
            if isinstance(k, ast.Constant) and isinstance(k.value, str) and k.value.isidentifier():
                self.changed = True
                return ast.copy_location(ast.Assign(targets=[ast.Attribute(value=c.args[0], attr=k.value, ctx=ast.Store())], value=c.args[2]), node)
        return node


def fold_getattr(fn: ast.FunctionDef) -> bool:
    t = _GetAttr()
    t.visit(fn)
    return t.changed


def _count(nodes, name: str) -> int:
    return sum(1 for n in nodes for x in ast.walk(n) if isinstance(x, ast.Name) and x.id == name)


def inline_return_temps(fn: ast.FunctionDef) -> bool:
    """`t = e` immediately followed by `return t` / `return bool(t)` (t used nowhere else) -> `return e`."""
    changed = False
    total: Dict[str, int] = {}  # occurrences in the whole function (inlining moves a use, it never copies one)
    for x in ast.walk(fn):
        if isinstance(x, ast.Name):
            total[x.id] = total.get(x.id, 0) + 1

    def block(stmts: List[ast.stmt]) -> List[ast.stmt]:
        nonlocal changed
        for st in stmts:
            for fld in ("body", "orelse", "finalbody"):
                v = getattr(st, fld, None)
                if isinstance(v, list) and v and isinstance(v[0], ast.stmt):
                    setattr(st, fld, block(v))
        out = list(stmts)
        i = 0
        while i + 1 < len(out):
            a, b = out[i], out[i + 1]
            tgt = None
            if isinstance(a, ast.Assign) and len(a.targets) == 1 and isinstance(a.targets[0], ast.Name):
                tgt, val = a.targets[0].id, a.value
            elif isinstance(a, ast.AnnAssign) and isinstance(a.target, ast.Name) and a.value is not None:
                tgt, val = a.target.id, a.value
            if tgt and isinstance(b, ast.Return) and b.value is not None and _count([b], tgt) == 1 and _count(out, tgt) == 2 and total.get(tgt) == 2:
                out[i + 1] = ast.copy_location(ast.Return(value=_SubstMany({tgt: val}).visit(clone(b.value))), b)
                del out[i]
                changed = True
                i = max(i - 1, 0)
                continue
            i += 1
        return out

    fn.body = block(fn.body)
    return changed


def _strip_bool(e: ast.AST) -> ast.AST:
    while isinstance(e, ast.Call) and isinstance(e.func, ast.Name) and e.func.id == "bool" and len(e.args) == 1 and not e.keywords:
        e = e.args[0]
    return e


def desugar_predicate_returns(fn: ast.FunctionDef) -> bool:
    """Only for functions annotated `-> bool`: callers see the truth value only."""
    if not (isinstance(fn.returns, ast.Name) and fn.returns.id == "bool"):
        return False
    changed = False

    def ret(r: ast.Return) -> List[ast.stmt]:
        nonlocal changed
        v = _strip_bool(r.value) if r.value is not None else None
        if v is not r.value:
            changed = True
        if isinstance(v, ast.BoolOp) and len(v.values) >= 2:
            changed = True
            head, rest = v.values[0], v.values[1:]
            tail = rest[0] if len(rest) == 1 else ast.copy_location(ast.BoolOp(op=v.op, values=rest), v)
            if isinstance(v.op, ast.And):
                guard = ast.copy_location(ast.If(test=ast.copy_location(ast.UnaryOp(op=ast.Not(), operand=head), head), body=[ast.copy_location(ast.Return(value=ast.copy_location(ast.Constant(value=False), head)), r)], orelse=[]), r)
            else:
                guard = ast.copy_location(ast.If(test=head, body=[ast.copy_location(ast.Return(value=ast.copy_location(ast.Constant(value=True), head)), r)], orelse=[]), r)
            # line numbers: the guard sits on the operand it tests
            guard.lineno = getattr(head, "lineno", r.lineno)
            return [guard] + ret(ast.copy_location(ast.Return(value=tail), r))
        if isinstance(v, ast.IfExp):
            changed = True
            return [ast.copy_location(ast.If(test=v.test, body=ret(ast.copy_location(ast.Return(value=v.body), r)), orelse=ret(ast.copy_location(ast.Return(value=v.orelse), r))), r)]
        if isinstance(v, ast.UnaryOp) and isinstance(v.op, ast.Not) and isinstance(_strip_bool(v.operand), ast.BoolOp):
            # not (A and B) == (not A) or (not B) ; not (A or B) == (not A) and (not B)
            inner = _strip_bool(v.operand)
            op = ast.Or() if isinstance(inner.op, ast.And) else ast.And()
            vals = [ast.copy_location(ast.UnaryOp(op=ast.Not(), operand=x), x) for x in inner.values]
            changed = True
            return ret(ast.copy_location(ast.Return(value=ast.copy_location(ast.BoolOp(op=op, values=vals), v)), r))
        return [ast.copy_location(ast.Return(value=v), r)]

    def block(stmts: List[ast.stmt]) -> List[ast.stmt]:
        out: List[ast.stmt] = []
        for st in stmts:
            if isinstance(st, (ast.FunctionDef, ast.ClassDef, ast.AsyncFunctionDef)):
                out.append(st)
                continue
            for fld in ("body", "orelse", "finalbody"):
                v = getattr(st, fld, None)
                if isinstance(v, list) and v and isinstance(v[0], ast.stmt):
                    setattr(st, fld, block(v))
            if isinstance(st, ast.Try):
                for h in st.handlers:
                    h.body = block(h.body)
            if isinstance(st, ast.Return):
                out.extend(ret(st))
            else:
                out.append(st)
        return out

    fn.body = block(fn.body)
    return changed


def expand_list_comprehensions(fn: ast.FunctionDef) -> bool:
    """`T = [E for v in it if c]` (statement level, one or more generators)  ->
    `acc = []` / `for v in it:` / `if c:` / `acc.append(E)` / `T = acc`.

    Same elements in the same order.  (The comprehension's own scope is lost: only applied when its variables
    are not otherwise bound in the function.)"""
    changed = False
    counter = [0]
    bound = _stores(fn)

    def expand(value: ast.ListComp, at: ast.stmt):
        counter[0] += 1
        acc = f"acc__{counter[0]}"
        inner: List[ast.stmt] = [ast.copy_location(ast.Expr(value=ast.copy_location(ast.Call(func=ast.Attribute(value=ast.Name(id=acc, ctx=ast.Load()), attr="append", ctx=ast.Load()), args=[value.elt], keywords=[]), value.elt)), value.elt)]
        for g in reversed(value.generators):
            for c in reversed(g.ifs):
                inner = [ast.copy_location(ast.If(test=c, body=inner, orelse=[]), c)]
            def loop_over(it: ast.AST, body: List[ast.stmt]) -> List[ast.stmt]:
                # `for o in [x]: body` with a plain target is body[o := x]
                if isinstance(it, (ast.List, ast.Tuple)) and len(it.elts) == 1 and isinstance(g.target, ast.Name) and _pure_arg(it.elts[0]):
                    return [_SubstMany({g.target.id: it.elts[0]}).visit(clone(b)) for b in body]
                return [ast.copy_location(ast.For(target=clone(g.target), iter=it, body=body, orelse=[], type_comment=None), g.iter)]

            if isinstance(g.iter, ast.IfExp) and _pure_arg(g.iter.test.args[0] if isinstance(g.iter.test, ast.Call) and g.iter.test.args else g.iter.test):
                # `for o in (A if C else B)`: the iterable is chosen once per pass of the loop around it
                inner = [ast.copy_location(ast.If(test=g.iter.test, body=loop_over(g.iter.body, [clone(b) for b in inner]), orelse=loop_over(g.iter.orelse, [clone(b) for b in inner])), g.iter)]
            else:
                inner = [ast.copy_location(ast.For(target=g.target, iter=g.iter, body=inner, orelse=[], type_comment=None), g.iter)]
        init = ast.copy_location(ast.Assign(targets=[ast.Name(id=acc, ctx=ast.Store())], value=ast.copy_location(ast.List(elts=[], ctx=ast.Load()), at)), at)
        return acc, [init] + inner

    def block(stmts: List[ast.stmt]) -> List[ast.stmt]:
        nonlocal changed
        out: List[ast.stmt] = []
        for st in stmts:
            for fld in ("body", "orelse", "finalbody"):
                v = getattr(st, fld, None)
                if isinstance(v, list) and v and isinstance(v[0], ast.stmt):
                    setattr(st, fld, block(v))
            if isinstance(st, ast.Try):
                for h in st.handlers:
                    h.body = block(h.body)
            val = st.value if isinstance(st, (ast.Assign, ast.AnnAssign, ast.Return)) else None
            if isinstance(val, ast.ListComp) and not any(g.is_async for g in val.generators):
                tnames = {n.id for g in val.generators for n in ast.walk(g.target) if isinstance(n, ast.Name)}
                # targets of OTHER comprehensions live in scopes of their own: they do not clash with the loop variable
                comp_targets = {id(x) for c_ in ast.walk(fn) if isinstance(c_, (ast.ListComp, ast.SetComp, ast.DictComp, ast.GeneratorExp)) and c_ is not val for g_ in c_.generators for x in ast.walk(g_.target)}
                others = {n.id for n in ast.walk(fn) if isinstance(n, ast.Name) and isinstance(n.ctx, ast.Store) and id(n) not in comp_targets and not any(n is x for g in val.generators for x in ast.walk(g.target))}
                if not (tnames & others) and not (tnames & {a.arg for a in fn.args.args}):
                    acc, pre = expand(val, st)
                    out.extend(pre)
                    new = clone(st)
                    new.value = ast.copy_location(ast.Name(id=acc, ctx=ast.Load()), st)
                    out.append(new)
                    changed = True
                    continue
            out.append(st)
        return out

    del bound
    fn.body = block(fn.body)
    return changed


def inline_generator_loops(fn: ast.FunctionDef) -> bool:
    """`g = (<elt> for a in A for b in B if c)` bound once and consumed by exactly one `for T in g: body` (nothing else
    reads g) -> `for a in A: for b in B: if c: T = <elt>; body`.  A generator is lazy and consumed in order, so the
    nested loops run the same statements in the same order; `continue` in the body still continues the innermost loop and
    the loop has no `else`/`break` (those would leave only the innermost loop) - otherwise it is left alone."""
    changed = False
    uses: Dict[str, int] = {}
    for x in ast.walk(fn):
        if isinstance(x, ast.Name) and isinstance(x.ctx, ast.Load):
            uses[x.id] = uses.get(x.id, 0) + 1
    stores: Dict[str, int] = {}
    for x in ast.walk(fn):
        if isinstance(x, ast.Name) and isinstance(x.ctx, ast.Store):
            stores[x.id] = stores.get(x.id, 0) + 1

    def block(stmts: List[ast.stmt]) -> List[ast.stmt]:
        nonlocal changed
        for st in stmts:
            if isinstance(st, (ast.FunctionDef, ast.AsyncFunctionDef, ast.ClassDef)):
                continue
            for fld in ("body", "orelse", "finalbody"):
                v = getattr(st, fld, None)
                if isinstance(v, list) and v and isinstance(v[0], ast.stmt):
                    setattr(st, fld, block(v))
        out = list(stmts)
        i = 0
        while i < len(out):
            a = out[i]
            gname, gen = None, None
            if isinstance(a, ast.Assign) and len(a.targets) == 1 and isinstance(a.targets[0], ast.Name) and isinstance(a.value, ast.GeneratorExp):
                gname, gen = a.targets[0].id, a.value
            if gname and stores.get(gname) == 1 and uses.get(gname) == 1:
                for j in range(i + 1, len(out)):
                    b = out[j]
                    if isinstance(b, ast.For) and isinstance(b.iter, ast.Name) and b.iter.id == gname and not b.orelse and not any(isinstance(z, ast.Break) for bb in b.body for z in ast.walk(bb)):
                        bind = ast.copy_location(ast.Assign(targets=[b.target], value=gen.elt), b)
                        inner: List[ast.stmt] = [bind] + list(b.body)
                        gens = gen.generators
                        # a pure renaming `for x, y in ((a, b) for a in A for b in B)`: the comprehension variables take
                        # the loop's names (when that captures nothing)
                        t_el = b.target.elts if isinstance(b.target, ast.Tuple) else [b.target]
                        e_el = gen.elt.elts if isinstance(gen.elt, ast.Tuple) else [gen.elt]
                        comp_vars = {z.id for c_ in gens for z in ast.walk(c_.target) if isinstance(z, ast.Name)}
                        if len(t_el) == len(e_el) and all(isinstance(x, ast.Name) for x in t_el + e_el) and len({x.id for x in e_el}) == len(e_el) and {x.id for x in e_el} <= comp_vars:
                            ren = {e.id: t.id for e, t in zip(e_el, t_el)}
                            others = {z.id for c_ in gens for z in ast.walk(c_) if isinstance(z, ast.Name)} - set(ren)
                            if not (set(ren.values()) & others):
                                class _Ren(ast.NodeTransformer):
                                    def visit_Name(self, node):
                                        if node.id in ren:
                                            return ast.copy_location(ast.Name(id=ren[node.id], ctx=node.ctx), node)
                                        return node
                                gens = [_Ren().visit(clone(c_)) for c_ in gens]
                                inner = list(b.body)
                        for comp in reversed(gens):
                            for cond in reversed(comp.ifs):
                                inner = [ast.copy_location(ast.If(test=cond, body=inner, orelse=[]), b)]
                            inner = [ast.copy_location(ast.For(target=comp.target, iter=comp.iter, body=inner, orelse=[], type_comment=None), b)]
                        out[j] = inner[0]
                        del out[i]
                        changed = True
                        i -= 1
                        break
                    if any(isinstance(z, ast.Name) and z.id == gname for z in ast.walk(b)):
                        break
            i += 1
        return out

    fn.body = block(fn.body)
    if changed:
        ast.fix_missing_locations(fn)
    return changed


def split_tuple_assignments(fn: ast.FunctionDef) -> bool:
    """`a, b = (x, y)` with plain names on the right (what inlining a tuple-returning helper leaves) -> `a = x; b = y`:
    the names on the right are read before either target is written only if no target is among them."""
    changed = False

    def block(stmts: List[ast.stmt]) -> List[ast.stmt]:
        nonlocal changed
        out: List[ast.stmt] = []
        for st in stmts:
            if isinstance(st, (ast.FunctionDef, ast.AsyncFunctionDef, ast.ClassDef)):
                out.append(st)
                continue
            for fld in ("body", "orelse", "finalbody"):
                v = getattr(st, fld, None)
                if isinstance(v, list) and v and isinstance(v[0], ast.stmt):
                    setattr(st, fld, block(v))
            if isinstance(st, ast.Try):
                for h in st.handlers:
                    h.body = block(h.body)
            if isinstance(st, ast.Assign) and len(st.targets) == 1 and isinstance(st.targets[0], ast.Tuple) and isinstance(st.value, ast.Tuple) and len(st.targets[0].elts) == len(st.value.elts) and all(isinstance(e, ast.Name) for e in st.targets[0].elts) and not ({e.id for e in st.targets[0].elts} & {z.id for e in st.value.elts for z in ast.walk(e) if isinstance(z, ast.Name)}) and (all(isinstance(e, ast.Name) for e in st.value.elts) or sum(1 for e in st.value.elts for z in ast.walk(e) if isinstance(z, ast.Call)) == 0):
                for t, v in zip(st.targets[0].elts, st.value.elts):
                    out.append(ast.copy_location(ast.Assign(targets=[t], value=v), st))
                changed = True
                continue
            # `self._a, self._b = x, y` with plain locals / constants on the right: nothing a store could change is read
            if isinstance(st, ast.Assign) and len(st.targets) == 1 and isinstance(st.targets[0], ast.Tuple) and isinstance(st.value, ast.Tuple) and len(st.targets[0].elts) == len(st.value.elts) and all(isinstance(e, ast.Name) or (isinstance(e, ast.Attribute) and isinstance(e.value, ast.Name)) for e in st.targets[0].elts) and any(isinstance(e, ast.Attribute) for e in st.targets[0].elts) and all(isinstance(e, (ast.Name, ast.Constant)) for e in st.value.elts) and not ({e.id for e in st.targets[0].elts if isinstance(e, ast.Name)} & {e.id for e in st.value.elts if isinstance(e, ast.Name)}):
                for t, v in zip(st.targets[0].elts, st.value.elts):
                    out.append(ast.copy_location(ast.Assign(targets=[t], value=v), st))
                changed = True
                continue
            out.append(st)
        return out

    fn.body = block(fn.body)
    return changed


def split_conditional_assignments(fn: ast.FunctionDef) -> bool:
    """`x = A if C else B`  ->  `if C: x = A` / `else: x = B` (statement level): path rules then see two paths."""
    changed = False

    def block(stmts: List[ast.stmt]) -> List[ast.stmt]:
        nonlocal changed
        out: List[ast.stmt] = []
        for st in stmts:
            if isinstance(st, (ast.FunctionDef, ast.AsyncFunctionDef, ast.ClassDef)):
                out.append(st)
                continue
            for fld in ("body", "orelse", "finalbody"):
                v = getattr(st, fld, None)
                if isinstance(v, list) and v and isinstance(v[0], ast.stmt):
                    setattr(st, fld, block(v))
            if isinstance(st, ast.Try):
                for h in st.handlers:
                    h.body = block(h.body)
            val = getattr(st, "value", None) if isinstance(st, (ast.Assign, ast.AnnAssign, ast.Return)) else None
            if isinstance(val, ast.IfExp):
                # also `return A if C else B` -> `if C: return A` / `else: return B`
                a, b = clone(st), clone(st)
                a.value, b.value = val.body, val.orelse
                out.append(ast.copy_location(ast.If(test=val.test, body=[a], orelse=[b]), st))
                changed = True
                continue
            # `d[A if C else B] = v` (v a plain name or constant: nothing is evaluated before the key is chosen) -> two stores
            if isinstance(st, ast.Assign) and len(st.targets) == 1 and isinstance(st.targets[0], ast.Subscript) and isinstance(st.targets[0].slice, ast.IfExp) and isinstance(st.targets[0].value, ast.Name) and isinstance(st.value, (ast.Name, ast.Constant)):
                ie = st.targets[0].slice
                a, b = clone(st), clone(st)
                a.targets[0].slice, b.targets[0].slice = clone(ie.body), clone(ie.orelse)
                out.append(ast.copy_location(ast.If(test=ie.test, body=[a], orelse=[b]), st))
                changed = True
                continue
            # `(A if C else B).append(x)` -> `if C: A.append(x)` / `else: B.append(x)`: the receiver is chosen first
            if isinstance(st, ast.Expr) and isinstance(st.value, ast.Call) and isinstance(st.value.func, ast.Attribute) and isinstance(st.value.func.value, ast.IfExp):
                ie = st.value.func.value
                a, b = clone(st), clone(st)
                a.value.func.value, b.value.func.value = clone(ie.body), clone(ie.orelse)
                out.append(ast.copy_location(ast.If(test=ie.test, body=[a], orelse=[b]), st))
                changed = True
                continue
            out.append(st)
        return out

    fn.body = block(fn.body)
    return changed


def _simplify_identity_tests(stmts: List[ast.stmt]) -> List[ast.stmt]:
    """Prune `if <lambda> is None`, `if None is None`, `if not <lambda>` ... whose outcome is fixed by the syntax."""

    def truth(t: ast.AST) -> Optional[bool]:
        if isinstance(t, ast.UnaryOp) and isinstance(t.op, ast.Not):
            v = truth(t.operand)
            return None if v is None else not v
        if isinstance(t, ast.Lambda):
            return True
        if isinstance(t, ast.Constant) and t.value is None:
            return False
        if isinstance(t, ast.Compare) and len(t.ops) == 1 and isinstance(t.ops[0], (ast.Is, ast.IsNot)):
            a, b = t.left, t.comparators[0]
            kinds = []
            for x in (a, b):
                kinds.append("none" if isinstance(x, ast.Constant) and x.value is None else "obj" if isinstance(x, ast.Lambda) else None)
            if None in kinds or kinds == ["obj", "obj"]:
                return None
            same = kinds[0] == kinds[1]
            return same if isinstance(t.ops[0], ast.Is) else not same
        return None

    out: List[ast.stmt] = []
    for st in stmts:
        if isinstance(st, ast.If):
            v = truth(st.test)
            if v is True:
                out.extend(_simplify_identity_tests(st.body))
                continue
            if v is False:
                out.extend(_simplify_identity_tests(st.orelse))
                continue
            st.body = _simplify_identity_tests(st.body) or [ast.Pass()]
            st.orelse = _simplify_identity_tests(st.orelse)
        out.append(st)
        if isinstance(st, (ast.Return, ast.Raise)):
            break
    return out


def tuple_table_to_dict(fn: ast.FunctionDef) -> bool:
    """`next((V for K, V in T if X == K), D)` with T a literal tuple/list of (constant key, value) pairs (inline, or a
    local bound once to it) -> `{k1: v1, ...}.get(X, D)`: the first pair whose key equals X, i.e. a dict lookup when the
    keys are distinct constants.  The dict-dispatch step then takes it from there."""
    changed = False
    binds: Dict[str, List[ast.AST]] = {}
    for n in ast.walk(fn):
        if isinstance(n, ast.Assign) and len(n.targets) == 1 and isinstance(n.targets[0], ast.Name):
            binds.setdefault(n.targets[0].id, []).append(n.value)
        elif isinstance(n, ast.AnnAssign) and isinstance(n.target, ast.Name) and n.value is not None:
            binds.setdefault(n.target.id, []).append(n.value)
    stores: Dict[str, int] = {}
    for n in ast.walk(fn):
        if isinstance(n, ast.Name) and isinstance(n.ctx, (ast.Store, ast.Del)):
            stores[n.id] = stores.get(n.id, 0) + 1

    class _T(ast.NodeTransformer):
        def visit_Call(self, node: ast.Call):
            nonlocal changed
            self.generic_visit(node)
            if not (isinstance(node.func, ast.Name) and node.func.id == "next" and 1 <= len(node.args) <= 2 and not node.keywords and isinstance(node.args[0], ast.GeneratorExp)):
                return node
            g = node.args[0]
            if len(g.generators) != 1 or len(g.generators[0].ifs) != 1:
                return node
            comp = g.generators[0]
            if not (isinstance(comp.target, ast.Tuple) and len(comp.target.elts) == 2 and all(isinstance(e, ast.Name) for e in comp.target.elts)):
                return node
            kv, vv = comp.target.elts[0].id, comp.target.elts[1].id
            if not (isinstance(g.elt, ast.Name) and g.elt.id == vv):
                return node
            t = comp.ifs[0]
            if not (isinstance(t, ast.Compare) and len(t.ops) == 1 and isinstance(t.ops[0], ast.Eq)):
                return node
            a, b = t.left, t.comparators[0]
            x = b if (isinstance(a, ast.Name) and a.id == kv) else a if (isinstance(b, ast.Name) and b.id == kv) else None
            if x is None or any(isinstance(z, ast.Name) and z.id in (kv, vv) for z in ast.walk(x)) or not _pure_arg(x):
                return node
            table = comp.iter
            if isinstance(table, ast.Name) and stores.get(table.id) == 1 and len(binds.get(table.id, [])) == 1:
                table = binds[table.id][0]
            if not (isinstance(table, (ast.Tuple, ast.List)) and table.elts and all(isinstance(e, ast.Tuple) and len(e.elts) == 2 and isinstance(e.elts[0], ast.Constant) for e in table.elts)):
                return node
            if len({repr(e.elts[0].value) for e in table.elts}) != len(table.elts):
                return node
            d = ast.Dict(keys=[clone(e.elts[0]) for e in table.elts], values=[clone(e.elts[1]) for e in table.elts])
            call = ast.Call(func=ast.Attribute(value=d, attr="get", ctx=ast.Load()), args=[clone(x)] + ([node.args[1]] if len(node.args) == 2 else []), keywords=[])
            changed = True
            return ast.copy_location(call, node)

    _T().visit(fn)
    if changed:
        ast.fix_missing_locations(fn)
    return changed


def inline_local_dispatch_tables(fn: ast.FunctionDef) -> bool:
    """A local bound once to a dict display of constant keys with a lambda among the values, and only read (`T[x]`,
    `T.get(x)`, `x in T`): every read gets the display itself (`x in T` the tuple of its keys), so the dict-dispatch
    step and the folder see the table where it is used."""
    tables: Dict[str, ast.Dict] = {}
    stores: Dict[str, int] = {}
    for n in ast.walk(fn):
        if isinstance(n, ast.Name) and isinstance(n.ctx, (ast.Store, ast.Del)):
            stores[n.id] = stores.get(n.id, 0) + 1
    for n in ast.walk(fn):
        tg, v = None, None
        if isinstance(n, ast.Assign) and len(n.targets) == 1 and isinstance(n.targets[0], ast.Name):
            tg, v = n.targets[0].id, n.value
        elif isinstance(n, ast.AnnAssign) and isinstance(n.target, ast.Name) and n.value is not None:
            tg, v = n.target.id, n.value
        if tg and isinstance(v, ast.Dict) and v.keys and stores.get(tg) == 1 and all(isinstance(k, ast.Constant) for k in v.keys) and any(isinstance(e, ast.Lambda) for e in v.values) and len(v.keys) <= 12:
            tables[tg] = v
    # only read in the three forms
    for name in list(tables):
        for n in ast.walk(fn):
            if isinstance(n, ast.Name) and n.id == name and isinstance(n.ctx, ast.Load):
                par = getattr(n, "_parent", None)
                ok = False
                if isinstance(par, ast.Subscript) and par.value is n and isinstance(par.ctx, ast.Load):
                    ok = True
                elif isinstance(par, ast.Attribute) and par.attr == "get":
                    ok = True
                elif isinstance(par, ast.Compare) and len(par.ops) == 1 and isinstance(par.ops[0], (ast.In, ast.NotIn)) and par.comparators[0] is n:
                    ok = True
                if not ok:
                    tables.pop(name, None)
                    break
    if not tables:
        return False
    changed = False

    class _T(ast.NodeTransformer):
        def visit_Compare(self, node: ast.Compare):
            nonlocal changed
            self.generic_visit(node)
            if len(node.ops) == 1 and isinstance(node.ops[0], (ast.In, ast.NotIn)) and isinstance(node.comparators[0], ast.Name) and node.comparators[0].id in tables:
                node.comparators[0] = ast.copy_location(ast.Tuple(elts=[clone(k) for k in tables[node.comparators[0].id].keys], ctx=ast.Load()), node.comparators[0])
                changed = True
            return node

        def visit_Subscript(self, node: ast.Subscript):
            nonlocal changed
            self.generic_visit(node)
            if isinstance(node.value, ast.Name) and node.value.id in tables and isinstance(node.ctx, ast.Load):
                node.value = ast.copy_location(clone(tables[node.value.id]), node.value)
                changed = True
            return node

        def visit_Attribute(self, node: ast.Attribute):
            nonlocal changed
            self.generic_visit(node)
            if node.attr == "get" and isinstance(node.value, ast.Name) and node.value.id in tables:
                node.value = ast.copy_location(clone(tables[node.value.id]), node.value)
                changed = True
            return node

    # parents are needed for the read-form test above: set them on a private walk
    _T().visit(fn)
    if changed:
        ast.fix_missing_locations(fn)
    return changed


def split_dict_dispatch(fn: ast.FunctionDef) -> bool:
    """`v = {k1: e1, k2: e2}.get(x)` followed by REST  ->  `if x == k1: REST[v:=e1] elif x == k2: REST[v:=e2] else:
    REST[v:=None]` when v is bound only there, the keys are constants, x and the values are side-effect free and REST
    does not re-bind x.  (`{...}[x]` raises KeyError(x) in the else branch.)  The if-chain tests the keys in the
    table's order; since the keys are distinct constants the order does not matter."""
    changed = False
    binds: Dict[str, int] = {}
    for n in ast.walk(fn):
        if isinstance(n, ast.Name) and isinstance(n.ctx, (ast.Store, ast.Del)):
            binds[n.id] = binds.get(n.id, 0) + 1

    def match(st: ast.stmt):
        if isinstance(st, ast.Assign) and len(st.targets) == 1 and isinstance(st.targets[0], ast.Name):
            tg, v = st.targets[0].id, st.value
        elif isinstance(st, ast.AnnAssign) and isinstance(st.target, ast.Name) and st.value is not None:
            tg, v = st.target.id, st.value
        else:
            return None
        if binds.get(tg) != 1:
            return None
        table, key, dflt, strict = None, None, ast.Constant(value=None), False
        if isinstance(v, ast.Call) and isinstance(v.func, ast.Attribute) and v.func.attr == "get" and isinstance(v.func.value, ast.Dict) and 1 <= len(v.args) <= 2 and not v.keywords:
            table, key = v.func.value, v.args[0]
            if len(v.args) == 2:
                dflt = v.args[1]
        elif isinstance(v, ast.Subscript) and isinstance(v.value, ast.Dict) and not isinstance(v.slice, ast.Slice):
            table, key, strict = v.value, v.slice, True
        if table is None or not table.keys or len(table.keys) > 12:
            return None
        if not all(isinstance(k, ast.Constant) for k in table.keys) or len({repr(k.value) for k in table.keys}) != len(table.keys):
            return None
        if not _pure_arg(key) or not all(_pure_arg(e) for e in table.values) or not _pure_arg(dflt):
            return None
        if not any(isinstance(e, ast.Lambda) for e in table.values):
            return None  # plain data tables are folded as they are
        return tg, table, key, dflt, strict

    def block(stmts: List[ast.stmt]) -> List[ast.stmt]:
        nonlocal changed
        for i, st in enumerate(stmts):
            m = match(st)
            if m is not None:
                tg, table, key, dflt, strict = m
                rest = stmts[i + 1 :]
                key_names = {n.id for n in ast.walk(key) if isinstance(n, ast.Name)}
                if key_names & _stores(ast.Module(body=rest, type_ignores=[])):
                    continue
                arms = []
                for k, e in zip(table.keys, table.values):
                    body = [_SubstMany({tg: e}).visit(clone(x)) for x in rest]
                    arms.append((ast.Compare(left=clone(key), ops=[ast.Eq()], comparators=[clone(k)]), _simplify_identity_tests(body) or [ast.Pass()]))
                if strict:
                    last = [ast.Raise(exc=ast.Call(func=ast.Name(id="KeyError", ctx=ast.Load()), args=[clone(key)], keywords=[]), cause=None)]
                else:
                    last = _simplify_identity_tests([_SubstMany({tg: dflt}).visit(clone(x)) for x in rest]) or [ast.Pass()]
                node: List[ast.stmt] = last
                for test, body in reversed(arms):
                    node = [ast.copy_location(ast.If(test=test, body=body, orelse=node), st)]
                changed = True
                return stmts[:i] + block(node)
            for fld in ("body", "orelse", "finalbody"):
                sub = getattr(st, fld, None)
                if isinstance(sub, list) and sub and isinstance(sub[0], ast.stmt) and not isinstance(st, (ast.FunctionDef, ast.ClassDef)):
                    setattr(st, fld, block(sub))
        return stmts

    fn.body = block(fn.body)
    return changed


def split_alias_choice(fn: ast.FunctionDef) -> bool:
    """`v = A if C else B` (A, B plain names: v is an alias of one of two objects) followed by REST  ->
    `if C: REST[v:=A] else: REST[v:=B]` when v is bound only there and REST re-binds none of v, A, B and no name of C."""
    changed = False
    binds: Dict[str, int] = {}
    for n in ast.walk(fn):
        if isinstance(n, ast.Name) and isinstance(n.ctx, (ast.Store, ast.Del)):
            binds[n.id] = binds.get(n.id, 0) + 1

    def pure_test(t: ast.AST) -> bool:
        return all(isinstance(x, (ast.Compare, ast.Name, ast.Attribute, ast.Constant, ast.UnaryOp, ast.BoolOp, ast.Load, ast.cmpop, ast.unaryop, ast.boolop, ast.expr_context)) for x in ast.walk(t))

    def block(stmts: List[ast.stmt]) -> List[ast.stmt]:
        nonlocal changed
        for i, st in enumerate(stmts):
            tg = v = None
            if isinstance(st, ast.Assign) and len(st.targets) == 1 and isinstance(st.targets[0], ast.Name):
                tg, v = st.targets[0].id, st.value
            elif isinstance(st, ast.AnnAssign) and isinstance(st.target, ast.Name) and st.value is not None:
                tg, v = st.target.id, st.value
            # (A if C else B).m(args)  ->  if C: A.m(args) else: B.m(args)
            if isinstance(st, ast.Expr) and isinstance(st.value, ast.Call) and isinstance(st.value.func, ast.Attribute) and isinstance(st.value.func.value, ast.IfExp):
                ie = st.value.func.value
                if isinstance(ie.body, ast.Name) and isinstance(ie.orelse, ast.Name) and pure_test(ie.test):
                    def arm(recv: ast.Name) -> ast.stmt:
                        c = clone(st)
                        c.value.func.value = ast.Name(id=recv.id, ctx=ast.Load())
                        return c

                    changed = True
                    return stmts[:i] + [ast.copy_location(ast.If(test=clone(ie.test), body=[arm(ie.body)], orelse=[arm(ie.orelse)]), st)] + block(stmts[i + 1 :])
            if tg and binds.get(tg) == 1 and isinstance(v, ast.IfExp) and isinstance(v.body, ast.Name) and isinstance(v.orelse, ast.Name) and pure_test(v.test):
                rest = stmts[i + 1 :]
                frozen = {tg, v.body.id, v.orelse.id} | {n.id for n in ast.walk(v.test) if isinstance(n, ast.Name)}
                if rest and not (frozen & _stores(ast.Module(body=rest, type_ignores=[]))):
                    a = [_SubstMany({tg: v.body}).visit(clone(x)) for x in rest]
                    b = [_SubstMany({tg: v.orelse}).visit(clone(x)) for x in rest]
                    changed = True
                    return stmts[:i] + [ast.copy_location(ast.If(test=clone(v.test), body=block(a), orelse=block(b)), st)]
            for fld in ("body", "orelse", "finalbody"):
                sub = getattr(st, fld, None)
                if isinstance(sub, list) and sub and isinstance(sub[0], ast.stmt) and not isinstance(st, (ast.FunctionDef, ast.ClassDef)):
                    setattr(st, fld, block(sub))
        return stmts

    fn.body = block(fn.body)
    return changed


def normalised(ctx: Ctx, f: Func, steps: str = "delegation,tailcalls,calls,unroll,quant,beta,getattr,temps,predicate") -> Func:
    """A synthetic Func whose body is `f`'s body after the listed rewrites (cached per ctx)."""
    cache = ctx.__dict__.setdefault("_normalised", {})
    key = (id(f), steps)
    if key in cache:
        return cache[key]
    want = steps.split(",")
    fn = clone(f.node)
    changed = False
    for _ in range(3):
        round_changed = False
        if "delegation" in want or "tailcalls" in want:
            round_changed |= inline_delegation(ctx, f, fn, whole_only="tailcalls" not in want)
        if "calls" in want:
            round_changed |= inline_call_statements(ctx, f, fn)
        if "valuecalls" in want:
            round_changed |= inline_value_calls(ctx, f, fn)
            round_changed |= collapse_inlining_aliases(fn)
        if "localcalls" in want:
            round_changed |= beta_reduce_local_defs(fn)
            round_changed |= beta_reduce_module_helpers(ctx, f, fn)
            round_changed |= inline_value_calls(ctx, f, fn, only_local=True)
        if "gencalls" in want:
            round_changed |= inline_drained_generators(ctx, f, fn)
        if "multiret" in want:
            round_changed |= hoist_helper_arguments(fn)
            round_changed |= inline_multi_return_calls(ctx, f, fn)
            round_changed |= split_tuple_assignments(fn)
        if "unroll" in want:
            mconsts = {k: v[0] for k, v in f.module.consts.items() if len(v) == 1 and isinstance(v[0], (ast.Tuple, ast.List))}
            round_changed |= unroll_literal_loops(fn, mconsts)
        if "dispatch" in want:
            round_changed |= tuple_table_to_dict(fn)
            for _p in ast.walk(fn):
                for _c in ast.iter_child_nodes(_p):
                    _c._parent = _p  # type: ignore[attr-defined]
            round_changed |= inline_local_dispatch_tables(fn)
            round_changed |= split_dict_dispatch(fn)
        if "aliasif" in want:
            round_changed |= split_alias_choice(fn)
        if "quant" in want:
            round_changed |= expand_quantifiers(fn)
        if "beta" in want:

            def _resolve(name: str, _m=f.module):
                r = ctx.prog.resolve_name(_m, name)
                return r[1] if isinstance(r, tuple) and r[0] == "ext" else None

            round_changed |= beta_reduce(fn, _resolve)
        if "getattr" in want:
            round_changed |= fold_getattr(fn)
        changed |= round_changed
        if not round_changed:
            break
    if "genloops" in want:
        changed |= inline_generator_loops(fn)
        changed |= split_tuple_assignments(fn)
    if "ifexp" in want:
        changed |= split_conditional_assignments(fn)
    if "decomp" in want:
        changed |= expand_list_comprehensions(fn)
    if "temps" in want:
        changed |= inline_return_temps(fn)
    if "predicate" in want:
        changed |= desugar_predicate_returns(fn)
    if not changed:
        cache[key] = f
        return f
    ast.fix_missing_locations(fn)
    for parent in ast.walk(fn):
        for ch in ast.iter_child_nodes(parent):
            ch._parent = parent  # type: ignore[attr-defined]
    nf = dataclasses.replace(f, node=fn)
    cache[key] = nf
    ctx.__dict__.setdefault("_normalised_keep", []).append(nf)
    return nf


def specialised(ctx: Ctx, f: Func, consts: Dict[str, object]) -> Func:
    """`f` with the given parameters replaced by constants (call sites pass literals), then normalised."""
    cache = ctx.__dict__.setdefault("_specialised", {})
    key = (id(f), tuple(sorted(consts.items())))
    if key in cache:
        return cache[key]
    fn = clone(f.node)
    if set(consts) & _stores(fn):
        cache[key] = f
        return f
    binding = {k: ast.Constant(value=v) for k, v in consts.items()}
    fn.body = [_SubstMany(binding).visit(st) for st in fn.body]
    fold_getattr(fn)
    ast.fix_missing_locations(fn)
    for parent in ast.walk(fn):
        for ch in ast.iter_child_nodes(parent):
            ch._parent = parent  # type: ignore[attr-defined]
    nf = dataclasses.replace(f, node=fn)
    cache[key] = nf
    ctx.__dict__.setdefault("_normalised_keep", []).append(nf)
    return nf
