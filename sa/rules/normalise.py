"""Behaviour-preserving rewrites applied to a *copy* of a function before a structural rule looks at it.

Structural rules recognise shapes.  The same behaviour can be written in several shapes (extract method,
one conjunction instead of a ladder of early returns, a loop over a tuple of fields instead of six
assignments, `getattr(self, "srcport")` behind a constant argument).  Each rewrite below maps one such
shape to the shape the rules were written for and changes no behaviour the rules reason about:

  delegation   body is `return self.m(args)` / `return Cls.m(args)`      -> m's body with parameters replaced
  call-stmts   `self._m(args)` as a statement, m private and value-less  -> m's body with parameters replaced
  unroll       `for v in (a, b, c): body` (literal tuple, no break/continue/else) -> body[a]; body[b]; body[c]
  getattr      `getattr(x, "lit")` / `setattr(x, "lit", v)`              -> x.lit / x.lit = v
  temps        `t = e` used once afterwards (no intervening statement)   -> e at the use
  predicate    `return A and B` / `return A or B` / `return bool(E)` in a `-> bool` function
               -> `if not A: return False` + `return B`  /  `if A: return True` + `return B`

Arguments substituted for parameters must be side-effect free access paths, names or constants, and the
callee must not re-bind its parameters; otherwise the rewrite is not applied and the rule sees the
original text.  The synthetic Func keeps the original's identity (module, class, name) and line numbers.
"""

from __future__ import annotations

import ast
import dataclasses
from typing import Dict, List, Optional

from ..core import Ctx
from ..model import Func
from .common import _SubstMany, _strip_doc, bind_call, callee_of_self_call, clone


def _pure_arg(e: ast.AST) -> bool:
    if isinstance(e, (ast.Name, ast.Constant)):
        return True
    if isinstance(e, ast.Attribute):
        return _pure_arg(e.value)
    if isinstance(e, (ast.Tuple, ast.List)):
        return all(_pure_arg(x) for x in e.elts)
    return False


def _stores(fn: ast.AST) -> set:
    out = set()
    for n in ast.walk(fn):
        if isinstance(n, ast.Name) and isinstance(n.ctx, (ast.Store, ast.Del)):
            out.add(n.id)
    return out


def _callee(ctx: Ctx, f: Func, call: ast.Call) -> Optional[Func]:
    m = callee_of_self_call(ctx, f, call)
    if m is not None:
        return m
    fn = call.func
    # module-level helper of the same module, or h.helper(...)
    if isinstance(fn, ast.Name):
        return f.module.functions.get(fn.id)
    if isinstance(fn, ast.Attribute) and isinstance(fn.value, ast.Name):
        target = f.module.imports.get(fn.value.id)
        if target and target[0] == "module":
            mod = ctx.prog.modules.get(target[1].split(".")[-1])
            if mod is not None:
                return mod.functions.get(fn.attr)
    return None


def _instantiate(ctx: Ctx, f: Func, call: ast.Call, want_value: bool) -> Optional[List[ast.stmt]]:
    """Body of the callee with its parameters replaced by the call's arguments, or None."""
    m = _callee(ctx, f, call)
    if m is None or m is f or m.node is f.node:
        return None
    if any(isinstance(x, (ast.Yield, ast.YieldFrom, ast.Await, ast.Global, ast.Nonlocal)) for x in ast.walk(m.node)):
        return None
    bound = m.cls is not None
    binding = bind_call(m, call, bound=bound)
    if binding is None:
        return None
    if not all(_pure_arg(v) for v in binding.values()):
        return None
    if set(binding) & _stores(m.node):
        return None
    # the callee's `self` must be the caller's `self`
    if m.kind in ("method", "getter", "setter"):
        recv = call.func.value if isinstance(call.func, ast.Attribute) else None
        if not (isinstance(recv, ast.Name) and recv.id == "self"):
            return None
    # locals of the callee must not collide with names of the caller
    caller_names = {n.id for n in ast.walk(f.node) if isinstance(n, ast.Name)} | {a.arg for a in f.node.args.args}
    callee_locals = _stores(m.node)
    rename: Dict[str, ast.AST] = {}
    for name in callee_locals:
        if name in caller_names:
            rename[name] = name + "__i"
    body = clone(_strip_doc(list(m.node.body)))
    if not want_value:
        # value-less helper: only bare `return` as last statement tolerated
        rets = [n for st in body for n in ast.walk(st) if isinstance(n, ast.Return)]
        if any(r.value is not None and not (isinstance(r.value, ast.Constant) and r.value.value is None) for r in rets):
            return None
        if rets and not (len(rets) == 1 and body and body[-1] is rets[0]):
            return None
        if rets:
            body = body[:-1]
    mod = ast.Module(body=body, type_ignores=[])
    if rename:
        for n in ast.walk(mod):
            if isinstance(n, ast.Name) and n.id in rename:
                n.id = rename[n.id]  # type: ignore[assignment]
    mod = _SubstMany(binding).visit(mod)
    return mod.body


def inline_delegation(ctx: Ctx, f: Func, fn: ast.FunctionDef) -> bool:
    body = _strip_doc(list(fn.body))
    if len(body) == 1 and isinstance(body[0], ast.Return) and isinstance(body[0].value, ast.Call):
        new = _instantiate(ctx, f, body[0].value, want_value=True)
        if new is not None:
            fn.body = new
            return True
    return False


def inline_call_statements(ctx: Ctx, f: Func, fn: ast.FunctionDef) -> bool:
    changed = False

    def block(stmts: List[ast.stmt]) -> List[ast.stmt]:
        nonlocal changed
        out: List[ast.stmt] = []
        for st in stmts:
            for fld in ("body", "orelse", "finalbody"):
                v = getattr(st, fld, None)
                if isinstance(v, list) and v and isinstance(v[0], ast.stmt):
                    setattr(st, fld, block(v))
            if isinstance(st, ast.Try):
                for h in st.handlers:
                    h.body = block(h.body)
            if isinstance(st, ast.Expr) and isinstance(st.value, ast.Call):
                c = st.value
                name = c.func.attr if isinstance(c.func, ast.Attribute) else (c.func.id if isinstance(c.func, ast.Name) else "")
                if name.startswith("_") and not name.startswith("__"):
                    new = _instantiate(ctx, f, c, want_value=False)
                    if new is not None:
                        for x in new:
                            for y in ast.walk(x):
                                if hasattr(y, "lineno"):
                                    y.lineno = st.lineno
                                    y.end_lineno = getattr(st, "end_lineno", st.lineno)
                        out.extend(new)
                        changed = True
                        continue
            out.append(st)
        return out

    fn.body = block(fn.body)
    return changed


def unroll_literal_loops(fn: ast.FunctionDef) -> bool:
    changed = False

    def block(stmts: List[ast.stmt]) -> List[ast.stmt]:
        nonlocal changed
        out: List[ast.stmt] = []
        for st in stmts:
            for fld in ("body", "orelse", "finalbody"):
                v = getattr(st, fld, None)
                if isinstance(v, list) and v and isinstance(v[0], ast.stmt):
                    setattr(st, fld, block(v))
            if (
                isinstance(st, ast.For)
                and isinstance(st.target, ast.Name)
                and isinstance(st.iter, (ast.Tuple, ast.List))
                and not st.orelse
                and 0 < len(st.iter.elts) <= 12
                and all(_pure_arg(e) for e in st.iter.elts)
                and not any(isinstance(x, (ast.Break, ast.Continue, ast.Return)) for b in st.body for x in ast.walk(b))
                and st.target.id not in {n.id for b in st.body for n in ast.walk(b) if isinstance(n, ast.Name) and isinstance(n.ctx, ast.Store)}
            ):
                for e in st.iter.elts:
                    for b in st.body:
                        out.append(_SubstMany({st.target.id: e}).visit(clone(b)))
                changed = True
                continue
            out.append(st)
        return out

    fn.body = block(fn.body)
    return changed


class _GetAttr(ast.NodeTransformer):
    changed = False

    def visit_Call(self, node: ast.Call):
        self.generic_visit(node)
        if isinstance(node.func, ast.Name) and node.func.id == "getattr" and len(node.args) == 2 and not node.keywords:
            k = node.args[1]
            if isinstance(k, ast.Constant) and isinstance(k.value, str) and k.value.isidentifier():
                self.changed = True
                return ast.copy_location(ast.Attribute(value=node.args[0], attr=k.value, ctx=ast.Load()), node)
        return node

    def visit_Expr(self, node: ast.Expr):
        self.generic_visit(node)
        c = node.value
        if isinstance(c, ast.Call) and isinstance(c.func, ast.Name) and c.func.id == "setattr" and len(c.args) == 3 and not c.keywords:
            k = c.args[1]
            if isinstance(k, ast.Constant) and isinstance(k.value, str) and k.value.isidentifier():
                self.changed = True
                return ast.copy_location(ast.Assign(targets=[ast.Attribute(value=c.args[0], attr=k.value, ctx=ast.Store())], value=c.args[2]), node)
        return node


def fold_getattr(fn: ast.FunctionDef) -> bool:
    t = _GetAttr()
    t.visit(fn)
    return t.changed


def _count(nodes, name: str) -> int:
    return sum(1 for n in nodes for x in ast.walk(n) if isinstance(x, ast.Name) and x.id == name)


def inline_return_temps(fn: ast.FunctionDef) -> bool:
    """`t = e` immediately followed by `return t` / `return bool(t)` (t used nowhere else) -> `return e`."""
    changed = False
    total: Dict[str, int] = {}  # occurrences in the whole function (inlining moves a use, it never copies one)
    for x in ast.walk(fn):
        if isinstance(x, ast.Name):
            total[x.id] = total.get(x.id, 0) + 1

    def block(stmts: List[ast.stmt]) -> List[ast.stmt]:
        nonlocal changed
        for st in stmts:
            for fld in ("body", "orelse", "finalbody"):
                v = getattr(st, fld, None)
                if isinstance(v, list) and v and isinstance(v[0], ast.stmt):
                    setattr(st, fld, block(v))
        out = list(stmts)
        i = 0
        while i + 1 < len(out):
            a, b = out[i], out[i + 1]
            tgt = None
            if isinstance(a, ast.Assign) and len(a.targets) == 1 and isinstance(a.targets[0], ast.Name):
                tgt, val = a.targets[0].id, a.value
            elif isinstance(a, ast.AnnAssign) and isinstance(a.target, ast.Name) and a.value is not None:
                tgt, val = a.target.id, a.value
            if tgt and isinstance(b, ast.Return) and b.value is not None and _count([b], tgt) == 1 and _count(out, tgt) == 2 and total.get(tgt) == 2:
                out[i + 1] = ast.copy_location(ast.Return(value=_SubstMany({tgt: val}).visit(clone(b.value))), b)
                del out[i]
                changed = True
                i = max(i - 1, 0)
                continue
            i += 1
        return out

    fn.body = block(fn.body)
    return changed


def _strip_bool(e: ast.AST) -> ast.AST:
    while isinstance(e, ast.Call) and isinstance(e.func, ast.Name) and e.func.id == "bool" and len(e.args) == 1 and not e.keywords:
        e = e.args[0]
    return e


def desugar_predicate_returns(fn: ast.FunctionDef) -> bool:
    """Only for functions annotated `-> bool`: callers see the truth value only."""
    if not (isinstance(fn.returns, ast.Name) and fn.returns.id == "bool"):
        return False
    changed = False

    def ret(r: ast.Return) -> List[ast.stmt]:
        nonlocal changed
        v = _strip_bool(r.value) if r.value is not None else None
        if v is not r.value:
            changed = True
        if isinstance(v, ast.BoolOp) and len(v.values) >= 2:
            changed = True
            head, rest = v.values[0], v.values[1:]
            tail = rest[0] if len(rest) == 1 else ast.copy_location(ast.BoolOp(op=v.op, values=rest), v)
            if isinstance(v.op, ast.And):
                guard = ast.copy_location(ast.If(test=ast.copy_location(ast.UnaryOp(op=ast.Not(), operand=head), head), body=[ast.copy_location(ast.Return(value=ast.copy_location(ast.Constant(value=False), head)), r)], orelse=[]), r)
            else:
                guard = ast.copy_location(ast.If(test=head, body=[ast.copy_location(ast.Return(value=ast.copy_location(ast.Constant(value=True), head)), r)], orelse=[]), r)
            # line numbers: the guard sits on the operand it tests
            guard.lineno = getattr(head, "lineno", r.lineno)
            return [guard] + ret(ast.copy_location(ast.Return(value=tail), r))
        if isinstance(v, ast.IfExp):
            changed = True
            return [ast.copy_location(ast.If(test=v.test, body=ret(ast.copy_location(ast.Return(value=v.body), r)), orelse=ret(ast.copy_location(ast.Return(value=v.orelse), r))), r)]
        if isinstance(v, ast.UnaryOp) and isinstance(v.op, ast.Not) and isinstance(_strip_bool(v.operand), ast.BoolOp):
            # not (A and B) == (not A) or (not B) ; not (A or B) == (not A) and (not B)
            inner = _strip_bool(v.operand)
            op = ast.Or() if isinstance(inner.op, ast.And) else ast.And()
            vals = [ast.copy_location(ast.UnaryOp(op=ast.Not(), operand=x), x) for x in inner.values]
            changed = True
            return ret(ast.copy_location(ast.Return(value=ast.copy_location(ast.BoolOp(op=op, values=vals), v)), r))
        return [ast.copy_location(ast.Return(value=v), r)]

    def block(stmts: List[ast.stmt]) -> List[ast.stmt]:
        out: List[ast.stmt] = []
        for st in stmts:
            if isinstance(st, (ast.FunctionDef, ast.ClassDef, ast.AsyncFunctionDef)):
                out.append(st)
                continue
            for fld in ("body", "orelse", "finalbody"):
                v = getattr(st, fld, None)
                if isinstance(v, list) and v and isinstance(v[0], ast.stmt):
                    setattr(st, fld, block(v))
            if isinstance(st, ast.Try):
                for h in st.handlers:
                    h.body = block(h.body)
            if isinstance(st, ast.Return):
                out.extend(ret(st))
            else:
                out.append(st)
        return out

    fn.body = block(fn.body)
    return changed


def expand_list_comprehensions(fn: ast.FunctionDef) -> bool:
    """`T = [E for v in it if c]` (statement level, one or more generators)  ->
    `acc = []` / `for v in it:` / `if c:` / `acc.append(E)` / `T = acc`.

    Same elements in the same order.  (The comprehension's own scope is lost: only applied when its variables
    are not otherwise bound in the function.)"""
    changed = False
    counter = [0]
    bound = _stores(fn)

    def expand(value: ast.ListComp, at: ast.stmt):
        counter[0] += 1
        acc = f"acc__{counter[0]}"
        inner: List[ast.stmt] = [ast.copy_location(ast.Expr(value=ast.copy_location(ast.Call(func=ast.Attribute(value=ast.Name(id=acc, ctx=ast.Load()), attr="append", ctx=ast.Load()), args=[value.elt], keywords=[]), value.elt)), value.elt)]
        for g in reversed(value.generators):
            for c in reversed(g.ifs):
                inner = [ast.copy_location(ast.If(test=c, body=inner, orelse=[]), c)]
            inner = [ast.copy_location(ast.For(target=g.target, iter=g.iter, body=inner, orelse=[], type_comment=None), g.iter)]
        init = ast.copy_location(ast.Assign(targets=[ast.Name(id=acc, ctx=ast.Store())], value=ast.copy_location(ast.List(elts=[], ctx=ast.Load()), at)), at)
        return acc, [init] + inner

    def block(stmts: List[ast.stmt]) -> List[ast.stmt]:
        nonlocal changed
        out: List[ast.stmt] = []
        for st in stmts:
            for fld in ("body", "orelse", "finalbody"):
                v = getattr(st, fld, None)
                if isinstance(v, list) and v and isinstance(v[0], ast.stmt):
                    setattr(st, fld, block(v))
            if isinstance(st, ast.Try):
                for h in st.handlers:
                    h.body = block(h.body)
            val = st.value if isinstance(st, (ast.Assign, ast.AnnAssign, ast.Return)) else None
            if isinstance(val, ast.ListComp) and not any(g.is_async for g in val.generators):
                tnames = {n.id for g in val.generators for n in ast.walk(g.target) if isinstance(n, ast.Name)}
                others = {n.id for n in ast.walk(fn) if isinstance(n, ast.Name) and isinstance(n.ctx, ast.Store) and not any(n is x for g in val.generators for x in ast.walk(g.target))}
                if not (tnames & others) and not (tnames & {a.arg for a in fn.args.args}):
                    acc, pre = expand(val, st)
                    out.extend(pre)
                    new = clone(st)
                    new.value = ast.copy_location(ast.Name(id=acc, ctx=ast.Load()), st)
                    out.append(new)
                    changed = True
                    continue
            out.append(st)
        return out

    del bound
    fn.body = block(fn.body)
    return changed


def normalised(ctx: Ctx, f: Func, steps: str = "delegation,calls,unroll,getattr,temps,predicate") -> Func:
    """A synthetic Func whose body is `f`'s body after the listed rewrites (cached per ctx)."""
    cache = ctx.__dict__.setdefault("_normalised", {})
    key = (id(f), steps)
    if key in cache:
        return cache[key]
    want = steps.split(",")
    fn = clone(f.node)
    changed = False
    for _ in range(3):
        round_changed = False
        if "delegation" in want:
            round_changed |= inline_delegation(ctx, f, fn)
        if "calls" in want:
            round_changed |= inline_call_statements(ctx, f, fn)
        if "unroll" in want:
            round_changed |= unroll_literal_loops(fn)
        if "getattr" in want:
            round_changed |= fold_getattr(fn)
        changed |= round_changed
        if not round_changed:
            break
    if "decomp" in want:
        changed |= expand_list_comprehensions(fn)
    if "temps" in want:
        changed |= inline_return_temps(fn)
    if "predicate" in want:
        changed |= desugar_predicate_returns(fn)
    if not changed:
        cache[key] = f
        return f
    ast.fix_missing_locations(fn)
    for parent in ast.walk(fn):
        for ch in ast.iter_child_nodes(parent):
            ch._parent = parent  # type: ignore[attr-defined]
    nf = dataclasses.replace(f, node=fn)
    cache[key] = nf
    ctx.__dict__.setdefault("_normalised_keep", []).append(nf)
    return nf


def specialised(ctx: Ctx, f: Func, consts: Dict[str, object]) -> Func:
    """`f` with the given parameters replaced by constants (call sites pass literals), then normalised."""
    cache = ctx.__dict__.setdefault("_specialised", {})
    key = (id(f), tuple(sorted(consts.items())))
    if key in cache:
        return cache[key]
    fn = clone(f.node)
    if set(consts) & _stores(fn):
        cache[key] = f
        return f
    binding = {k: ast.Constant(value=v) for k, v in consts.items()}
    fn.body = [_SubstMany(binding).visit(st) for st in fn.body]
    fold_getattr(fn)
    ast.fix_missing_locations(fn)
    for parent in ast.walk(fn):
        for ch in ast.iter_child_nodes(parent):
            ch._parent = parent  # type: ignore[attr-defined]
    nf = dataclasses.replace(f, node=fn)
    cache[key] = nf
    ctx.__dict__.setdefault("_normalised_keep", []).append(nf)
    return nf
