"""C08 — not implemented yet (fail closed)."""
from ..model import AnalysisError
PROPERTY = "C08"
LEVEL = "other"
EXPLANATION = "not implemented"
def run(ctx, rep, tier):
    raise AnalysisError("rules for C08 are not implemented yet")
