"""C08 Port operators and their writable views — exhaustiveness, forward/inverse agreement, ordering, single writer."""

from __future__ import annotations

import ast
from dataclasses import dataclass
from typing import Any, Dict, List, Optional, Set, Tuple

from ..cfg import Node
from ..core import Ctx, Report, snippet, where
from ..fold import UNKNOWN, known
from ..intervals import POS, IntSet, NotInterval, cond_to_intset
from ..model import AnalysisError, Func, own_nodes, src
from ..pathsem import PathInfo, feasible, function_paths, resolve_local
from .common import chain, deep_resolve, mentions, reachable_without_edges

def items_to_ints_func(ctx: Ctx) -> Func:
    """Port._line__items_to_ints with private value-less helpers called as statements inlined (an extracted
    `_check(ports)` keeps the guards the arity rules look for) and list comprehensions written as loops."""
    from .normalise import normalised

    return normalised(ctx, ctx.func("Port._line__items_to_ints"), "tailcalls,calls,decomp,multiret")


PROPERTY = "C08"
LEVEL = "other"
EXPLANATION = (
    "Decides operator exhaustiveness and operand arity, agreement between the forward map (operands -> ports) and its "
    "inverse (ports -> operands) on which end of the set an operand determines and with which offset (strict lt/gt, "
    "inclusive range), one port universe 1..65535 at every site, that order-sensitive selectors only see sorted "
    "data, that the four stored views have a single complete writer which every writable view reaches, and that the "
    "inverse handles an empty set. Does not decide the exactness of the range-string codec or the neq arithmetic "
    "(loop arithmetic over values)."
)
ASSUMPTIONS = ["sorted() returns an ascending list; range(a, b) enumerates a..b-1"]

UNIVERSE = IntSet([(1, 65535)])


# ------------------------------------------------------------------ abstract port expressions
@dataclass
class Bound:
    kind: str  # 'const' | 'operand'
    value: int = 0  # const value
    sel: str = ""  # LOW | HIGH | INTERIOR(k)
    off: int = 0

    def __repr__(self) -> str:
        if self.kind == "const":
            return str(self.value)
        return f"{self.sel}{self.off:+d}" if self.off else self.sel


def selector(e: ast.AST, seq: str) -> Optional[Tuple[str, int]]:
    """(selector, offset) for seq[0], seq[-1], min(seq), max(seq), seq[k] ± c."""
    off = 0
    if isinstance(e, ast.BinOp) and isinstance(e.op, (ast.Add, ast.Sub)) and isinstance(e.right, ast.Constant) and isinstance(e.right.value, int):
        off = e.right.value if isinstance(e.op, ast.Add) else -e.right.value
        e = e.left
    if isinstance(e, ast.Subscript) and src(e.value) == seq and not isinstance(e.slice, ast.Slice):
        idx = e.slice
        if isinstance(idx, ast.UnaryOp) and isinstance(idx.op, ast.USub) and isinstance(idx.operand, ast.Constant):
            k = -idx.operand.value
        elif isinstance(idx, ast.Constant) and isinstance(idx.value, int):
            k = idx.value
        else:
            return None
        if k == 0:
            return ("LOW", off)
        if k == -1:
            return ("HIGH", off)
        return (f"INTERIOR[{k}]", off)
    if isinstance(e, ast.Call) and isinstance(e.func, ast.Name) and e.func.id in ("min", "max") and len(e.args) == 1 and src(e.args[0]) == seq:
        return ("LOW" if e.func.id == "min" else "HIGH", off)
    return None


def _universe_of(ctx: Ctx, f: Func, e: ast.AST, env: Dict[str, ast.AST]) -> Optional[IntSet]:
    """IntSet of `range(a, b)` / `list(range(a, b))` with folded bounds."""
    e = resolve_local(e, env)
    if isinstance(e, ast.Name) and e.id in f.module.consts and len(f.module.consts[e.id]) == 1:
        e = f.module.consts[e.id][0]  # module-level constant (`_ALL_PORTS = range(1, 65535 + 1)`)
    if isinstance(e, ast.Call) and isinstance(e.func, ast.Name) and not e.args and not e.keywords:
        # `all_ports()`: a closure of the function (or a module function) without parameters whose body is one return
        cands = [n for n in ast.walk(f.node) if isinstance(n, ast.FunctionDef) and n is not f.node and n.name == e.func.id]
        if not cands and e.func.id in f.module.functions:
            cands = [f.module.functions[e.func.id].node]
        if len(cands) == 1 and not (cands[0].args.args or cands[0].args.vararg or cands[0].args.kwarg or cands[0].args.kwonlyargs or cands[0].args.posonlyargs):
            body = [st for st in cands[0].body if not (isinstance(st, ast.Expr) and isinstance(st.value, ast.Constant))]
            if len(body) == 1 and isinstance(body[0], ast.Return) and body[0].value is not None:
                e = body[0].value
    if isinstance(e, ast.Call) and isinstance(e.func, ast.Name) and e.func.id == "list" and len(e.args) == 1:
        e = e.args[0]
    if isinstance(e, ast.Call) and isinstance(e.func, ast.Name) and e.func.id == "range" and len(e.args) == 2:
        a, b = ctx.folder.fold(e.args[0], f.module), ctx.folder.fold(e.args[1], f.module)
        if isinstance(a, int) and isinstance(b, int):
            return IntSet([(a, b - 1)])
    return None


def forward_shape(ctx: Ctx, f: Func, p: PathInfo, param: str) -> Dict[str, Any]:
    """Abstract value of the returned port list on one path of _items_to_ports."""
    r = resolve_local(p.ret, p.env)
    if isinstance(r, ast.Name) and r.id == param:
        return {"kind": "IDENT"}
    if isinstance(r, ast.Call) and isinstance(r.func, ast.Name) and r.func.id in ("list", "sorted") and len(r.args) == 1:
        inner = r.args[0]
        if isinstance(inner, ast.Name) and inner.id == param:
            return {"kind": "IDENT"}
        if isinstance(inner, ast.Call) and isinstance(inner.func, ast.Name) and inner.func.id == "range" and len(inner.args) == 2:
            lo = selector(inner.args[0], param)
            hi = selector(inner.args[1], param)
            if lo and hi:
                return {"kind": "INTERVAL", "lo": Bound("operand", sel=lo[0], off=lo[1]), "hi": Bound("operand", sel=hi[0], off=hi[1] - 1)}
    if isinstance(r, (ast.ListComp, ast.GeneratorExp)) or (isinstance(r, ast.Call) and isinstance(r.func, ast.Name) and r.func.id in ("list", "sorted") and r.args and isinstance(r.args[0], (ast.ListComp, ast.GeneratorExp))):
        comp = r if isinstance(r, (ast.ListComp, ast.GeneratorExp)) else r.args[0]
        if len(comp.generators) == 1 and src(comp.elt) == src(comp.generators[0].target):
            g = comp.generators[0]
            uni = _universe_of(ctx, f, g.iter, p.env)
            var = src(g.target)
            if uni is not None and len(g.ifs) == 1:
                c = g.ifs[0]
                if isinstance(c, ast.Compare) and len(c.ops) == 1:
                    l, op, rr = c.left, c.ops[0], c.comparators[0]
                    # `pivot = items[0]` ... `i > pivot`: a local standing for an operand
                    if src(l) != var and isinstance(l, ast.Name):
                        l = resolve_local(l, p.env) or l
                    if src(rr) != var and isinstance(rr, ast.Name) and rr.id != param:
                        rr = resolve_local(rr, p.env) or rr
                    if isinstance(op, ast.NotIn) and src(l) == var and src(rr) == param:
                        return {"kind": "COMPLEMENT", "universe": uni}
                    if isinstance(op, ast.In) and src(l) == var and src(rr) == param:
                        return {"kind": "IDENT"}
                    names = {ast.Lt: "<", ast.LtE: "<=", ast.Gt: ">", ast.GtE: ">="}
                    if type(op) in names:
                        o = names[type(op)]
                        if src(rr) == var and src(l) != var:
                            l, rr = rr, l
                            o = {"<": ">", "<=": ">=", ">": "<", ">=": "<="}[o]
                        if src(l) == var:
                            s = selector(rr, param)
                            if s:
                                ulo, uhi = uni.bounds()
                                if o == ">":
                                    return {"kind": "INTERVAL", "lo": Bound("operand", sel=s[0], off=s[1] + 1), "hi": Bound("const", int(uhi)), "universe": uni}
                                if o == ">=":
                                    return {"kind": "INTERVAL", "lo": Bound("operand", sel=s[0], off=s[1]), "hi": Bound("const", int(uhi)), "universe": uni}
                                if o == "<":
                                    return {"kind": "INTERVAL", "lo": Bound("const", int(ulo)), "hi": Bound("operand", sel=s[0], off=s[1] - 1), "universe": uni}
                                if o == "<=":
                                    return {"kind": "INTERVAL", "lo": Bound("const", int(ulo)), "hi": Bound("operand", sel=s[0], off=s[1]), "universe": uni}
    return {"kind": "UNKNOWN", "expr": snippet(r) if r is not None else "None"}


def inverse_shape(ctx: Ctx, f: Func, p: PathInfo, param: str) -> Dict[str, Any]:
    r = resolve_local(p.ret, p.env)
    empty_const = None
    if isinstance(r, ast.IfExp) and src(r.test) == param:
        ev = ctx.folder.fold(r.orelse, f.module)
        empty_const = ev if known(ev) else UNKNOWN
        r = r.body
    if isinstance(r, ast.Name) and r.id == param:
        return {"kind": "IDENT", "empty": empty_const}
    if isinstance(r, ast.List):
        sels = [selector(e, param) for e in r.elts]
        if all(s is not None for s in sels):
            return {"kind": "OPERANDS", "sels": sels, "empty": empty_const}
    if isinstance(r, ast.Name):
        return {"kind": "LOCAL", "name": r.id, "empty": empty_const}
    return {"kind": "UNKNOWN", "expr": snippet(r) if r is not None else "None", "empty": empty_const}


def op_paths(ctx: Ctx, f: Func, operators: List[str]) -> Dict[str, List[PathInfo]]:
    cfg = ctx.cfg(f)
    paths = function_paths(cfg)
    out: Dict[str, List[PathInfo]] = {}
    for op in list(operators) + ["\0invalid"]:
        symenv = {"operator": op, "self._operator": op, "self.operator": op}
        feas = []
        for p in paths:
            # only operator atoms decide; other atoms (emptiness) are left open
            ok = True
            for test, truth in p.atoms:
                v = ctx.folder.fold(test, f.module, symenv)
                if known(v) and bool(v) != truth:
                    ok = False
                    break
            if ok:
                feas.append(p)
        out[op] = feas
    return out


def run(ctx: Ctx, rep: Report, tier: str) -> None:  # noqa: C901
    folder = ctx.folder
    operators = list(folder.const("helpers", "OPERATORS"))
    from .normalise import normalised

    # a dispatch table of (operator, lambda) pairs iterated by the function is written out as the if-chain it denotes
    fwd0, inv0 = ctx.func("Port._items_to_ports"), ctx.func("Port._ports_to_items")
    fwd = normalised(ctx, fwd0, "dispatch,unroll,beta")
    inv = normalised(ctx, inv0, "dispatch,unroll,beta")
    orig = {id(fwd): fwd0, id(inv): inv0}  # call-graph edges point at the functions as written
    fparam = fwd.params[1]
    iparam = inv.params[1]

    # ---------------------------------------------------------------- R08.1
    rep.rule("R08.1")
    rep.instance()
    if set(operators) != {"eq", "gt", "lt", "neq", "range"}:
        rep.violation("helpers.OPERATORS", str(operators), "the operator vocabulary differs from Cisco's five port operators eq, gt, lt, neq, range", "cisco_acl/helpers.py")
    else:
        rep.ok("helpers.OPERATORS", str(sorted(operators)))
    fpaths = op_paths(ctx, fwd, operators)
    ipaths = op_paths(ctx, inv, operators)
    for f, table in ((fwd, fpaths), (inv, ipaths)):
        for op in operators:
            rep.instance()
            normal = [p for p in table[op] if not p.raises]
            if not normal:
                rep.violation(f.qualname, f"operator {op!r}", "no branch handles this operator: every path raises", where(f), inp=f'Port("{op} 10", protocol="tcp")')
            else:
                rep.ok(f"{f.qualname}: operator {op!r}", f"{len(normal)} normal path(s)", where=where(f))
        rep.instance()
        bad = [p for p in table["\0invalid"] if not p.raises]
        if bad:
            rep.violation(f.qualname, "unknown operator", "an operator outside OPERATORS falls through to a normal return instead of an error", where(f))
        else:
            rep.ok(f"{f.qualname}: unknown operator", "every path raises")
    # operator validation
    lo = ctx.func("Port._line__operator")
    rep.instance()
    okv = False
    for p in function_paths(ctx.cfg(lo)):
        if p.raises:
            for test, truth in p.atoms:
                t = deep_resolve(test, p.env)
                if isinstance(t, ast.Compare) and isinstance(t.ops[0], ast.NotIn) and truth:
                    v = folder.fold(t.comparators[0], lo.module)
                    if known(v) and set(v) == set(operators):
                        okv = True
    if okv:
        rep.ok("Port._line__operator", "raises unless the first token is in OPERATORS", where=where(lo))
    else:
        rep.violation("Port._line__operator", "validation", "the operator token is not validated against OPERATORS", where(lo))
    # arity
    li = items_to_ints_func(ctx)
    guards = [n for n in own_nodes(li.node) if isinstance(n, ast.If) and any(isinstance(s, ast.Raise) for s in n.body)]
    platforms = folder.const("helpers", "PLATFORMS")
    expected = {}
    for op in operators:
        for plat in platforms:
            if op in ("lt", "gt"):
                expected[(op, plat)] = IntSet([(1, 1)])
            elif op == "range":
                expected[(op, plat)] = IntSet([(2, 2)])
            elif plat in ("asa", "nxos"):
                expected[(op, plat)] = IntSet([(1, 1)])
            else:
                expected[(op, plat)] = IntSet([(1, POS)])
    lenvars = set()
    for g in guards:
        for x in ast.walk(g.test):
            if isinstance(x, ast.Call) and isinstance(x.func, ast.Name) and x.func.id == "len" and x.args:
                lenvars.add(src(x))
    for (op, plat), want in sorted(expected.items()):
        rep.instance()
        symenv = {"operator": op, "self._operator": op, "platform": plat, "self._platform": plat, "self.platform": plat}
        acc = IntSet([(0, POS)])
        unknown = None
        for g in guards:
            if not lenvars:
                break
            try:
                bad = cond_to_intset(_effective_test(g, li.node), lambda x: src(x) in lenvars, lambda x: folder.fold(x, li.module, symenv))
            except NotInterval:
                # guards that do not speak about the length (empty check, name lookup) are handled below
                if src(g.test) in ("not items", f"not {li.params[1]}"):
                    bad = IntSet([(0, 0)])
                else:
                    continue
            acc = acc.intersect(bad.complement())
        if acc == want:
            rep.ok(f"Port._line__items_to_ints: operands for {op!r} on {plat}", f"accepted count {acc}", where=where(li))
        else:
            rep.violation("Port._line__items_to_ints", f"operand count for {op!r} on {plat}: {acc}", f"expected {want} (lt/gt one operand, range two, eq/neq one on asa/nxos, at least one on ios)", where(li), inp=f'Port("{op} 1 2 3", platform="{plat}", protocol="tcp")')

    # ---------------------------------------------------------------- R08.2 forward / inverse end agreement
    rep.rule("R08.2")
    shapes_f: Dict[str, Dict[str, Any]] = {}
    shapes_i: Dict[str, Dict[str, Any]] = {}
    for op in operators:
        nf = [p for p in fpaths[op] if not p.raises]
        ni = [p for p in ipaths[op] if not p.raises]
        if nf:
            shapes_f[op] = forward_shape(ctx, fwd, nf[0], fparam)
        if ni:
            shapes_i[op] = inverse_shape(ctx, inv, ni[-1], iparam)
    want_fwd = {
        "eq": ("IDENT", None, None),
        "gt": ("INTERVAL", ("LOW", +1), "UHI"),
        "lt": ("INTERVAL", "ULO", ("LOW", -1)),
        "range": ("INTERVAL", ("LOW", 0), ("HIGH", 0)),
        "neq": ("COMPLEMENT", None, None),
    }
    for op in operators:
        if op not in shapes_f or op not in want_fwd:
            continue
        rep.instance()
        sh = shapes_f[op]
        kind, wlo, whi = want_fwd[op]
        if sh["kind"] == "UNKNOWN":
            rep.violation(fwd.qualname, f"operator {op!r}: {sh['expr']}", "the port set of this operator is not in a recognised form (identity, range of the operands, filtered universe): cannot relate it to its inverse", where(fwd))
            continue
        if sh["kind"] != kind:
            rep.violation(fwd.qualname, f"operator {op!r} -> {sh['kind']}", f"Cisco meaning is {kind}", where(fwd), inp=f'Port("{op} 80", protocol="tcp").ports')
            continue
        if kind == "INTERVAL":
            lo_b, hi_b = sh["lo"], sh["hi"]

            def okb(b: Bound, w) -> bool:
                if w == "UHI":
                    return b.kind == "const" and b.value == 65535
                if w == "ULO":
                    return b.kind == "const" and b.value == 1
                # for single-operand operators items[0] == items[-1]: LOW and HIGH denote the same operand
                if op in ("gt", "lt"):
                    return b.kind == "operand" and b.sel in ("LOW", "HIGH") and b.off == w[1]
                return b.kind == "operand" and (b.sel, b.off) == w

            if okb(lo_b, wlo) and okb(hi_b, whi):
                rep.ok(f"{fwd.qualname}: {op!r} = [{lo_b}, {hi_b}]", "strict for lt/gt, inclusive for range", where=where(fwd))
            else:
                rep.violation(fwd.qualname, f"operator {op!r} denotes [{lo_b}, {hi_b}]", "Cisco: gt and lt are strict, range is inclusive on both operands, within 1..65535", where(fwd), inp=f'Port("{op} 80", protocol="tcp").ports')
                continue
        else:
            rep.ok(f"{fwd.qualname}: {op!r}", kind, where=where(fwd))
        # inverse
        if op not in shapes_i:
            continue
        rep.instance()
        ish = shapes_i[op]
        if kind == "IDENT":
            if ish["kind"] == "IDENT":
                rep.ok(f"{inv.qualname}: {op!r}", "identity both ways", where=where(inv))
            else:
                rep.violation(inv.qualname, f"operator {op!r}", "forward map is the identity but the inverse is not", where(inv))
        elif kind == "COMPLEMENT":
            rep.ok(f"{inv.qualname}: {op!r}", "complement (arithmetic not decided)", nontrivial=False, where=where(inv))
        elif kind == "INTERVAL":
            if ish["kind"] != "OPERANDS":
                rep.violation(inv.qualname, f"operator {op!r}: {ish.get('expr', ish['kind'])}", "the operands are not recovered from the ends of the port list", where(inv))
                continue
            need = []
            if sh["lo"].kind == "operand":
                need.append(("LOW", -sh["lo"].off))
            if sh["hi"].kind == "operand":
                need.append(("HIGH", -sh["hi"].off))
            got = list(ish["sels"])
            interior = [g for g in got if g[0].startswith("INTERIOR")]
            if interior:
                rep.violation(inv.qualname, f"operator {op!r}: operand from ports{interior[0][0][8:]}{interior[0][1]:+d}", f"the forward map fixes the {'/'.join(n[0] for n in need)} end of the set; an interior position depends on the length of the list", where(inv), inp=f'p = Port("{op} 5", protocol="tcp"); p.ports = p.ports')
            elif sorted(got) != sorted(need):
                rep.violation(inv.qualname, f"operator {op!r}: operands {got}", f"forward map [{sh['lo']}, {sh['hi']}] requires operands {need} (end and opposite offset)", where(inv), inp=f'p = Port("{op} 5", protocol="tcp"); p.ports = p.ports')
            else:
                rep.ok(f"{inv.qualname}: {op!r} operands {got}", f"inverse of [{sh['lo']}, {sh['hi']}]", where=where(inv))
    rep.floor(6, "operator branches (forward + inverse)")

    # ---------------------------------------------------------------- R08.6 empty inverse
    rep.rule("R08.6")
    icfg = ctx.cfg(inv)
    for n in icfg.live:
        if n.ast is None or n.kind not in ("stmt",):
            continue
        sels = []
        for x in ast.walk(n.ast):
            if isinstance(x, ast.Subscript) and src(x.value) == iparam and not isinstance(x.slice, ast.Slice):
                sels.append(x)
        if not sels:
            continue
        rep.instance()
        guarded_all = True
        for x in sels:
            g = False
            p = getattr(x, "_parent", None)
            child = x
            while p is not None and p is not n.ast:
                if isinstance(p, ast.IfExp) and src(p.test) == iparam and child is p.body:
                    g = True
                child = p
                p = getattr(p, "_parent", None)
            if isinstance(n.ast, ast.Return) and isinstance(n.ast.value, ast.IfExp) and src(n.ast.value.test) == iparam:
                body_nodes = set(map(id, ast.walk(n.ast.value.body)))
                if id(x) in body_nodes:
                    g = True
            if not g:
                cut = {(c.id, "T") for c in icfg.live if c.kind == "cond" and src(c.ast) in (iparam, f"len({iparam})")}
                if cut and n not in reachable_without_edges(icfg, icfg.entry, cut):
                    g = True
            guarded_all = guarded_all and g
        if guarded_all:
            rep.ok(f"{inv.qualname}: {snippet(n.ast, 60)}", "end selectors are guarded by a non-empty test", where=where(inv, n.ast))
        else:
            rep.violation(inv.qualname, snippet(n.ast), "an end selector is applied to a possibly empty port list (gt 65535 / lt 1 denote no port): IndexError on write-back", where(inv, n.ast), inp='p = Port("gt 65535", protocol="tcp"); p.ports = p.ports')
    for op in ("gt", "lt"):
        ish = shapes_i.get(op)
        if ish and ish.get("empty") is not None:
            rep.instance()
            ev = ish["empty"]
            okc = isinstance(ev, list) and len(ev) == 1 and isinstance(ev[0], int) and ((op == "gt" and ev[0] >= 65535) or (op == "lt" and ev[0] <= 1))
            if okc:
                rep.ok(f"{inv.qualname}: empty set under {op!r} -> {ev}", "boundary operand whose forward image is empty", where=where(inv))
            else:
                rep.violation(inv.qualname, f"empty set under {op!r} -> {ev}", "the operand chosen for an empty set does not denote the empty set", where(inv))

    # ---------------------------------------------------------------- R08.3 one universe
    rep.rule("R08.3")
    sites: List[Tuple[str, IntSet, ast.AST, Func]] = []
    for f in (fwd, inv):
        for n in own_nodes(f.node):
            if isinstance(n, ast.Call) and isinstance(n.func, ast.Name) and n.func.id == "range" and len(n.args) == 2:
                a, b = folder.fold(n.args[0], f.module), folder.fold(n.args[1], f.module)
                if isinstance(a, int) and isinstance(b, int) and b - a > 1000:
                    sites.append((f.qualname, IntSet([(a, b - 1)]), n, f))
        # a universe kept as a module-level constant that the function reads (`_ALL_PORTS = range(1, 65535 + 1)`)
        for nm in sorted({x.id for x in own_nodes(f.node) if isinstance(x, ast.Name) and isinstance(x.ctx, ast.Load)}):
            if nm in f.module.consts and len(f.module.consts[nm]) == 1:
                u = _universe_of(ctx, f, f.module.consts[nm][0], {})
                if u is not None and u.bounds()[1] - u.bounds()[0] > 1000:
                    sites.append((f"{f.module.short}.{nm}", u, f.module.consts[nm][0], f))
    stp = ctx.func("helpers.string_to_ports")
    for n in own_nodes(stp.node):
        if isinstance(n, (ast.ListComp, ast.SetComp, ast.GeneratorExp)):
            for g in n.generators:
                for c in g.ifs:
                    if not any(isinstance(x, ast.Compare) for x in ast.walk(c)):
                        continue
                    try:
                        s_ = cond_to_intset(c, lambda x: src(x) == src(g.target), lambda x: folder.fold(x, stp.module))
                        if s_ != IntSet.all():
                            sites.append((stp.qualname, s_, c, stp))
                    except NotInterval:
                        pass
    rep.instance(len(sites))
    for q, s_, n, f in sites:
        if s_ == UNIVERSE:
            rep.ok(f"{q}: {snippet(n)}", "universe 1..65535", where=where(f, n))
        else:
            rep.violation(q, f"{snippet(n)} = {s_}", "the set of all ports is 1..65535 at every site", where(f, n))
    rep.floor(2, "port-universe sites")

    # ---------------------------------------------------------------- R08.4 sortedness
    rep.rule("R08.4")
    uses_end = {}
    for f, prm in ((fwd, fparam), (inv, iparam)):
        uses_end[f] = any(isinstance(x, ast.Subscript) and src(x.value) == prm and not isinstance(x.slice, ast.Slice) for x in own_nodes(f.node))
    for f, prm in ((fwd, fparam), (inv, iparam)):
        if not uses_end[f]:
            continue
        for caller in ctx.prog.funcs:
            for e in ctx.cg.all_edges(caller):
                if e.target is orig[id(f)] and e.kind == "call" and isinstance(e.site, ast.Call):
                    rep.instance()
                    arg = e.site.args[0] if e.site.args else None
                    srt, why = _is_sorted(ctx, caller, arg)
                    if srt:
                        rep.ok(f"{caller.qualname} -> {f.name}({snippet(arg, 30)})", why, where=where(caller, e.site))
                    else:
                        rep.violation(caller.qualname, f"{f.name}({snippet(arg) if arg is not None else ''})", f"{f.name} reads the first/last element as the lowest/highest port, but the argument is not known to be sorted: {why}", where(caller, e.site), inp='p = Port("range 7 9", protocol="tcp"); p.sport = p.sport')
    rep.floor(2, "call sites of the order-sensitive helpers")

    # ---------------------------------------------------------------- R08.5 single writer
    rep.rule("R08.5")
    views = ["_operator", "_items", "_ports", "_sport"]
    port = ctx.cls("Port")
    ls = ctx.func("Port.line.setter")
    writers: Dict[str, Set[str]] = {v: set() for v in views}
    for f in ctx.prog.funcs:
        for n in own_nodes(f.node):
            tgts: List[ast.AST] = []
            if isinstance(n, ast.Assign):
                tgts = list(n.targets)
            elif isinstance(n, (ast.AugAssign, ast.AnnAssign)):
                tgts = [n.target]
            for t in tgts:
                for x in ast.walk(t):
                    if isinstance(x, ast.Attribute) and x.attr in views and isinstance(x.ctx, ast.Store):
                        bt = ctx.types.expr_type(x.value, f)
                        if any(m[0] == "cls" and m[1].is_subclass_of(port) for m in ([bt] if bt[0] != "union" else bt[1])):
                            if f.name == "__init__" and f.cls is not None and f.cls.is_subclass_of(port) and isinstance(n, (ast.Assign, ast.AnnAssign)) and isinstance(n.value, ast.Constant) and not n.value.value and _line_assigned_after(f, n):
                                continue  # the constructor declares the empty view before it hands the text to the line setter
                            writers[x.attr].add(f.qualname)
            if isinstance(n, ast.Call) and isinstance(n.func, ast.Name) and n.func.id == "setattr" and len(n.args) >= 2:
                nm = n.args[1]
                if isinstance(nm, ast.Constant) and nm.value in views:
                    writers[nm.value].add(f.qualname)
    # private helpers that only the line setter (or another such helper) calls are parts of the line setter
    callers: Dict[str, Set[str]] = {}
    for g in ctx.prog.funcs:
        for e in ctx.cg.all_edges(g):
            if isinstance(e.target, Func) and not e.weak:
                callers.setdefault(e.target.qualname, set()).add(g.qualname)
    part_of_setter = {ls.qualname}
    grew = True
    while grew:
        grew = False
        for q, cs in callers.items():
            fq = ctx.prog.find_func(q)
            if q not in part_of_setter and fq is not None and fq.cls is not None and fq.cls.is_subclass_of(port) and fq.name.startswith("_") and not fq.name.startswith("__") and fq.kind not in ("getter", "setter") and cs and cs <= part_of_setter:
                part_of_setter.add(q)
                grew = True
    for v in views:
        rep.instance()
        extra = writers[v] - part_of_setter
        if extra:
            rep.violation(sorted(extra)[0], f"stores {v}", f"{v} is written outside Port.line setter: items/ports/sport/line can diverge", "cisco_acl/port.py")
        elif not writers[v]:
            rep.violation(ls.qualname, f"{v}", "the stored view is never written", where(ls))
        else:
            rep.ok(f"{v}", "only Port.line setter (and private helpers only it calls) stores it", where=where(ls))
    from .normalise import normalised as _normalised

    ls_n = _normalised(ctx, ls, "calls")  # a setter that hands the whole job to one private helper is read with it inlined
    lcfg = ctx.cfg(ls_n)

    def _pairs(st: ast.AST):
        for t in (st.targets if isinstance(st, ast.Assign) else [st.target]):
            if isinstance(t, (ast.Tuple, ast.List)):
                if isinstance(st.value, (ast.Tuple, ast.List)) and len(t.elts) == len(st.value.elts):
                    yield from zip(t.elts, st.value.elts)
                else:
                    for k_, e_ in enumerate(t.elts):
                        yield e_, ("unpacked", st.value, k_, len(t.elts))
            else:
                yield t, st.value

    def _helper_tuple(e: ast.AST, env_: Dict[str, ast.AST]):
        """(items expr, ports expr) pairs of the return tuples of the private helper whose call `e` (or the local it is bound to) is."""
        e = deep_resolve(e, env_) if isinstance(e, ast.Name) else e
        if isinstance(e, ast.Call) and isinstance(e.func, ast.Attribute) and src(e.func.value) == "self":
            hm = port.lookup_method(e.func.attr)
            if hm is not None:
                rets = [r for r in own_nodes(hm.node) if isinstance(r, ast.Return) and r.value is not None]
                if rets and all(isinstance(r.value, ast.Tuple) for r in rets):
                    return [r.value.elts for r in rets]
        return None

    for p in function_paths(lcfg):
        if p.raises:
            continue
        stored = {}
        for node, lab in p.nodes:
            if node.kind == "stmt" and isinstance(node.ast, (ast.Assign, ast.AnnAssign)) and getattr(node.ast, "value", None) is not None:
                for t, v in _pairs(node.ast):
                    if isinstance(t, ast.Attribute) and src(t.value) == "self" and t.attr in views:
                        stored[t.attr] = v
            # a private helper of the setter that definitely stores a view on every normal path (interprocedural must-assign)
            if node.kind == "stmt" and node.ast is not None:
                for c in ast.walk(node.ast):
                    if isinstance(c, ast.Call) and isinstance(c.func, ast.Attribute) and src(c.func.value) == "self" and c.func.attr.startswith("_"):
                        hm = port.lookup_method(c.func.attr)
                        if hm is not None:
                            from .c17 import _must_assign

                            for a_ in _must_assign(ctx, hm, port, {}):
                                if a_ in views and a_ not in stored:
                                    stored[a_] = c
        rep.instance()
        miss = [v for v in views if v not in stored]
        if miss:
            rep.violation(ls.qualname, f"path stores {sorted(stored)}", f"a normal path leaves {miss} with its previous value", where(ls))
            continue
        # _sport from the same value as _ports; _ports from _items_to_ports(<what is stored in _items>)
        sp = deep_resolve(stored["_sport"], p.env) if not isinstance(stored["_sport"], tuple) else None
        cons_ok = True
        # _items and _ports taken from ONE tuple that a private helper returns as `(<items>, self._items_to_ports(<items>))`:
        # unpacked into two locals first, or straight into the two attributes
        via_helper = False
        pv, iv = stored["_ports"], stored["_items"]
        tup_src, ii, ip = None, None, None
        if isinstance(pv, tuple) and isinstance(iv, tuple) and pv[1] is iv[1]:
            tup_src, ii, ip = pv[1], iv[2], pv[2]
        elif isinstance(pv, ast.Name) and isinstance(iv, ast.Name):
            for node, _lab in p.nodes:
                if node.kind == "stmt" and isinstance(node.ast, ast.Assign) and isinstance(node.ast.targets[0], ast.Tuple):
                    names = [src(e) for e in node.ast.targets[0].elts]
                    if iv.id in names and pv.id in names:
                        tup_src, ii, ip = node.ast.value, names.index(iv.id), names.index(pv.id)
        if tup_src is not None:
            rows = _helper_tuple(tup_src, p.env)
            via_helper = bool(rows) and all(len(r) > max(ii, ip) and isinstance(r[ip], ast.Call) and src(r[ip].func).endswith("_items_to_ports") and r[ip].args and src(r[ip].args[0]) == src(r[ii]) for r in rows)
        ports_names = {src(pv)} if isinstance(pv, ast.AST) else set()
        ports_names.add("self._ports")  # read back from the attribute just stored
        if via_helper:
            if not (isinstance(sp, ast.Call) and sp.args and src(sp.args[0]) in ports_names):
                cons_ok = False
                rep.violation(ls.qualname, f"_sport = {snippet(stored['_sport']) if isinstance(stored['_sport'], ast.AST) else '...'}", "the range string is not computed from the list stored in _ports", where(ls))
        elif isinstance(pv, tuple) or isinstance(iv, tuple):
            cons_ok = False
            rep.violation(ls.qualname, "_items, _ports = <tuple>", "the operands and the port list are unpacked from a value that is not `(<items>, self._items_to_ports(<items>))` of a private helper: the port list is not computed from the operands stored in _items", where(ls))
        else:
            po = deep_resolve(pv, p.env)
            it = deep_resolve(iv, p.env)
            if not (isinstance(po, ast.List) and not po.elts):
                if not (isinstance(sp, ast.Call) and sp.args and (src(sp.args[0]) == src(po) or src(sp.args[0]) in ports_names)):
                    cons_ok = False
                    rep.violation(ls.qualname, f"_sport = {snippet(stored['_sport'])}", "the range string is not computed from the list stored in _ports", where(ls))
                if not (isinstance(po, ast.Call) and src(po.func).endswith("_items_to_ports") and po.args and src(po.args[0]) == src(it)):
                    cons_ok = False
                    rep.violation(ls.qualname, f"_ports = {snippet(stored['_ports'])}", "the port list is not computed from the operands stored in _items", where(ls))
        if cons_ok:
            rep.ok(f"{ls.qualname}: path storing all four views", "_ports = f(_items), _sport = g(_ports)", where=where(ls))
    numerals_as_text(ctx, rep)
    views_accept_boundaries(ctx, rep)
    items_view_keeps_operands(ctx, rep)
    validated_is_returned(ctx, rep)
    operand_range(ctx, rep)
    views_leave_judgement_to_reader(ctx, rep)
    codec_skips_nothing(ctx, rep)
    rejected_leaves_unchanged(ctx, rep)
    encoder_walks_sorted_input(ctx, rep)
    operands_are_a_set(ctx, rep)
    empty_expression_writes_back(ctx, rep)
    rep.rule("R08.5")
    for nm in ("items", "ports", "sport", "protocol"):
        st = port.lookup_setter(nm)
        if st is None:
            continue
        rep.instance()
        from .normalise import normalised

        # a shared "operator + numbers -> line" helper the setter ends in is read in place
        scfg = ctx.cfg(normalised(ctx, st, "calls,tailcalls"))

        def reaches_line(n: Node) -> bool:
            if n.kind == "stmt" and isinstance(n.ast, ast.Assign):
                for t in n.ast.targets:
                    if isinstance(t, ast.Attribute) and src(t.value) == "self" and t.attr in ("line", "ports", "items", "sport"):
                        return t.attr != nm
            return False

        if scfg.all_paths_pass(scfg.entry, scfg.exit, reaches_line, labels_avoid=("exc",)):
            rep.ok(f"Port.{nm} setter", "every normal path re-enters the line setter (directly or through another view)", where=where(st))
        else:
            rep.violation(st.qualname, "normal path without self.line = ...", "a writable view can return without rebuilding the other views from text", where(st))


def rejected_leaves_unchanged(ctx: Ctx, rep: Report, rid: str = "R08.13", targets=(("Port.line.setter", ("_operator",)),), what: str = "", inp: str = "") -> None:
    """A port expression whose new text is refused stays what it was: the operator (which the operand readers consult) is
    stored before the operands are validated, so every way an error can leave the setter after that store passes through
    a statement that puts the old operator back (`old = self._operator` before, `self._operator = old` in the handler) -
    otherwise `Port('eq 80').line = 'lt 1 2'` raises and leaves `lt 80` with the port set of `eq 80`."""
    rep.rule(rid)
    for q, attrs in targets:
        f = ctx.prog.find_func(q)
        if f is None:
            rep.note(f"{rid} {q} not present - not judged")
            continue
        cfg = ctx.cfg(f)
        dom = cfg.dominators()

        def pairs_of(st: ast.AST):
            """(target, value) pairs of an assignment; a tuple target over a tuple value is taken element by element."""
            for t in (st.targets if isinstance(st, ast.Assign) else [st.target]):
                if isinstance(t, (ast.Tuple, ast.List)) and isinstance(st.value, (ast.Tuple, ast.List)) and len(t.elts) == len(st.value.elts):
                    yield from zip(t.elts, st.value.elts)
                else:
                    yield t, st.value

        def store_of(nd: Node, attr: str) -> Optional[ast.AST]:
            if nd.kind == "stmt" and isinstance(nd.ast, (ast.Assign, ast.AnnAssign)) and getattr(nd.ast, "value", None) is not None:
                for t, v in pairs_of(nd.ast):
                    if isinstance(t, ast.Attribute) and src(t.value) == "self" and t.attr == attr:
                        return v
            return None

        def may_raise(nd: Node) -> bool:
            if nd.ast is None or nd.kind not in ("stmt", "cond"):
                return False
            if isinstance(nd.ast, ast.Raise):
                return True
            return any(isinstance(c, ast.Call) and ctx.excs.call_raises(f, c) for c in ast.walk(nd.ast))

        for attr in attrs:
            stores = [nd for nd in cfg.live if store_of(nd, attr) is not None]
            rep.instance()
            if not stores:
                rep.note(f"{rid} {q} does not store self.{attr} itself (moved into a helper?) - not judged")
                continue
            for st in stores:
                # saved copies of the old value: v = self.attr at a node that dominates the store
                saved = set()
                for nd in cfg.live:
                    if nd.kind == "stmt" and isinstance(nd.ast, (ast.Assign, ast.AnnAssign)) and getattr(nd.ast, "value", None) is not None and (nd in dom.get(st, set()) or nd is st):
                        for t, v in pairs_of(nd.ast):
                            # `old = self.attr` before the store, or in the same statement (`old, self.attr = self.attr, new`:
                            # the right-hand side is evaluated first)
                            if isinstance(t, ast.Name) and isinstance(v, ast.Attribute) and src(v) == f"self.{attr}":
                                saved.add(t.id)
                is_restore = lambda nd: (lambda v: isinstance(v, ast.Name) and v.id in saved)(store_of(nd, attr))  # noqa: E731
                if is_restore(st):
                    continue  # the statement that puts the old value back
                after = [m for m in cfg.reachable(st, labels_avoid=("exc",)) if m is not st and may_raise(m)]
                bad = None
                for m in after:
                    if isinstance(m.ast, ast.Raise):
                        leaves = cfg.raise_exit in cfg.reachable(m, avoid=is_restore)
                    else:
                        handlers = m.succs("exc")
                        leaves = not handlers or any(cfg.raise_exit in cfg.reachable(h_, avoid=is_restore) or (h_.ast is not None and getattr(h_.ast, "type", None) is not None and not _catches_value_errors(h_.ast)) for h_ in handlers)
                    if leaves:
                        bad = m
                        break
                rep.instance()
                if bad is None:
                    rep.ok(f"{q}: {snippet(st.ast, 40)}", f"no error leaves the setter after this store without self.{attr} being put back" if after else "nothing can raise after this store", where=where(f, st.ast))
                else:
                    rep.violation(q, f"{snippet(st.ast, 40)} ... {snippet(bad.ast, 40)}", f"self.{attr} is stored before the rest of the new text is validated, and an error raised afterwards leaves the setter without the old value being put back: the refused assignment leaves a hybrid - " + (what or "the new operator over the old operands, ports and range string (`lt 80` with the port set of `eq 80`), which the next write-back turns into another meaning"), where(f, st.ast), inp=inp or "p = Port('eq 80', protocol='tcp'); p.line = 'lt 1 2'  # ValueError; p.line == 'lt www', p.sport == '80'")


def encoder_walks_sorted_input(ctx: Ctx, rep: Report, rid: str = "R08.16") -> None:
    """The range-string encoder detects runs by comparing neighbours, so the list it walks must be in ascending order: the
    list the neighbour loop iterates over is the result of `sorted(...)` (directly, or of a sort in place) - a `list(set(x))`
    "de-duplication" leaves set-iteration order, and `{22, 80}` is encoded as `80-22`."""
    rep.rule(rid)
    f = ctx.prog.find_func("helpers.ports_to_string")
    rep.instance()
    if f is None:
        rep.note(f"{rid} helpers.ports_to_string not present - not judged")
        return
    loops = [x for x in own_nodes(f.node) if isinstance(x, ast.For)]
    if not loops:
        rep.note(f"{rid} no loop in helpers.ports_to_string - not judged")
        return
    lp = loops[0]
    it = lp.iter
    while (isinstance(it, ast.Call) and src(it.func) in ("enumerate", "zip", "list", "iter", "pairwise", "itertools.pairwise", "islice", "itertools.islice") and it.args) or isinstance(it, ast.Subscript):
        it = it.value if isinstance(it, ast.Subscript) else it.args[0]  # `items[1:]`, `zip(items, items[1:])`: the same list
    if not (isinstance(it, ast.Name) or (isinstance(it, ast.Call) and src(it.func) == "sorted")):
        rep.note(f"{rid} the neighbour loop of helpers.ports_to_string walks `{snippet(it, 30)}` - not a form this rule reads, not judged")
        return
    ok = False
    what = snippet(it, 30)
    if isinstance(it, ast.Call) and src(it.func) == "sorted":
        ok = True
    elif isinstance(it, ast.Name):
        # the last binding of the name before the loop (or an in-place .sort())
        last = None
        for x in own_nodes(f.node):
            if getattr(x, "lineno", 0) >= lp.lineno:
                continue
            if isinstance(x, (ast.Assign, ast.AnnAssign)) and x.value is not None and any(isinstance(t, ast.Name) and t.id == it.id for t in (x.targets if isinstance(x, ast.Assign) else [x.target])):
                if last is None or x.lineno > last.lineno:
                    last = x
            if isinstance(x, ast.Expr) and isinstance(x.value, ast.Call) and isinstance(x.value.func, ast.Attribute) and x.value.func.attr == "sort" and src(x.value.func.value) == it.id:
                if last is None or x.lineno > last.lineno:
                    last = x
        if last is not None:
            v = last.value
            what = snippet(last, 50)
            ok = (isinstance(v, ast.Call) and src(v.func) == "sorted") or (isinstance(last, ast.Expr))
    if ok:
        rep.ok("helpers.ports_to_string", f"the neighbour loop walks sorted input ({what})", where=where(f, lp))
    else:
        rep.violation("helpers.ports_to_string", f"for ... in {snippet(lp.iter, 30)}  <-  {what}", "the run detection compares each port with its successor, but the list it walks is not sorted: a descending step is read as a run (`{22, 80}` -> '80-22'), the range string decodes to another or an empty set", where(f, lp), inp="Port('eq 22 80', protocol='tcp').sport")


def operands_are_a_set(ctx: Ctx, rep: Report, rid: str = "R08.14") -> None:
    """The operand list of the set-like operators (eq, neq) holds no port twice once it is parsed: the port list and the
    range string are sets by construction (`string_to_ports` builds a set, neq is rebuilt from the complement), so a
    repeated operand (`eq 80 80`, accepted) cannot come back from either view - `p.sport = p.sport` would turn the text
    `eq www www` into `eq www`.  On every normal path of the operand reader on which the operator can be eq/neq the
    returned list passes through a set construction."""
    rep.rule(rid)
    li = items_to_ints_func(ctx)
    n = 0
    for p in function_paths(ctx.cfg(li)):
        if p.raises or p.ret is None:
            continue
        # paths on which the operator is known not to be eq/neq are not concerned
        excluded = False
        for test, truth in p.atoms:
            t = deep_resolve(test, p.env)
            if isinstance(t, ast.Compare) and len(t.ops) == 1 and isinstance(t.ops[0], ast.In) and "operator" in src(t.left):
                v = ctx.folder.fold(t.comparators[0], li.module)
                if known(v) and set(v) & {"eq", "neq"} and not truth:
                    excluded = True
                if known(v) and not set(v) & {"eq", "neq"} and truth:
                    excluded = True
            if isinstance(t, ast.Compare) and len(t.ops) == 1 and isinstance(t.ops[0], ast.Eq) and "operator" in src(t.left) and isinstance(t.comparators[0], ast.Constant) and t.comparators[0].value not in ("eq", "neq") and truth:
                excluded = True
        if excluded:
            continue
        n += 1
        rep.instance()
        r = deep_resolve(p.ret, p.env)
        dedup = any((isinstance(x, ast.Call) and src(x.func) in ("set", "frozenset", "dict.fromkeys")) or isinstance(x, (ast.SetComp, ast.Set)) for x in ast.walk(r))
        atoms = "; ".join(f"{snippet(t, 30)}={'T' if tr else 'F'}" for t, tr in p.atoms[-3:])
        if dedup:
            rep.ok(f"{li.qualname}: path [{atoms}]", "the operands of eq/neq pass through a set: no port twice", where=where(li))
        else:
            rep.violation(li.qualname, f"path [{atoms}] returns {snippet(p.ret, 40)}", "a repeated operand of eq/neq is kept in the operand list, but neither the port list nor the range string can hold a port twice: assigning the expression's own ports or range string back rewrites its text (`eq www www` -> `eq www`) and items", where(li), inp="p = Port('eq 80 80', protocol='tcp'); p.sport = p.sport; p.line == 'eq www'")
            break
    if n == 0:
        rep.note(f"{rid} no normal eq/neq path recognised in {li.qualname} - not judged")


def empty_expression_writes_back(ctx: Ctx, rep: Report, rid: str = "R08.15") -> None:
    """The empty expression (every entry without ports has two) takes its own port list and range string back: the
    inverse reader has a normal path for "no operator, no ports" - else `ace.srcport.ports = ace.srcport.ports` raises."""
    rep.rule(rid)
    inv = ctx.func("Port._ports_to_items")
    rep.instance()
    param = inv.params[1]
    val = ctx.folder.eval_body(inv, {"self._operator": "", "self.operator": "", param: []})
    from ..fold import RaisesValue

    if isinstance(val, RaisesValue):
        rep.violation(inv.qualname, f"operator '' and {param} [] -> raises {val.exc_name}", "the empty port expression refuses its own (empty) port list and range string: `p.ports = p.ports` and `p.sport = p.sport` raise on the source-port object of every entry without ports", where(inv), inp="p = Ace('permit ip any any').srcport; p.ports = p.ports")
    elif val == []:
        rep.ok(f"{inv.qualname}: operator '' / no ports", "gives no items", where=where(inv))
    else:
        rep.note(f"{rid} {inv.qualname} on the empty expression could not be evaluated ({val!r}) - not judged")


def _line_assigned_after(f: Func, st: ast.AST) -> bool:
    """In the body of f, `self.line = ...` stands after statement st (same block): what st stored is overwritten."""
    body = f.node.body
    if st not in body:
        return False
    return any(isinstance(y, ast.Assign) and any(isinstance(t, ast.Attribute) and src(t) == "self.line" for t in y.targets) for y in body[body.index(st) + 1 :])


def _catches_value_errors(h_: ast.ExceptHandler) -> bool:
    from ..cfg import handler_classes

    cs = handler_classes(h_)
    return not cs or any(c in ("ValueError", "Exception", "BaseException") for c in cs)


def views_leave_judgement_to_reader(ctx: Ctx, rep: Report, rid: str = "R08.11") -> None:
    """A writable view (items, ports, sport) checks the TYPE of what it is given and hands the rest to the line setter:
    any other refusal in the view is a refusal the reader does not know - `p.ports = p.ports` can then raise for a port
    the object holds."""
    from .normalise import normalised

    rep.rule(rid)
    port = ctx.cls("Port")
    n = 0
    for nm in ("items", "ports", "sport"):
        st0 = port.lookup_setter(nm)
        if st0 is None:
            continue
        st = normalised(ctx, st0, "calls,tailcalls")
        cfg = ctx.cfg(st)
        for r in [x for x in cfg.live if x.kind == "stmt" and isinstance(x.ast, ast.Raise)]:
            n += 1
            rep.instance()
            exc = r.ast.exc
            name = src(exc.func) if isinstance(exc, ast.Call) else src(exc) if exc is not None else ""
            deps = [c for c, _lab in cfg.transitive_control_deps(r) if c.kind == "cond"]
            type_check = name == "TypeError" and deps and all(isinstance(c.ast, ast.Call) and src(c.ast.func) == "isinstance" for c in deps)
            if type_check:
                rep.ok(f"Port.{nm} setter: {snippet(r.ast, 40)}", "a type check", where=where(st0, r.ast))
            else:
                rep.violation(st0.qualname, snippet(r.ast, 60) + (" under " + snippet(deps[0].ast, 40) if deps else ""), "the view refuses a value on grounds of its own: the reader (the line setter) has no such rule, so a port set the object holds and renders can be refused when it is written back through this view", where(st0, r.ast), inp="p = Port('eq 1 2 3 4 5 6 7 8 9 10', protocol='tcp'); p.ports = p.ports")
    rep.floor(2, "raise statements of the writable views") if n else None


def codec_skips_nothing(ctx: Ctx, rep: Report, rid: str = "R08.12") -> None:
    """The range-string reader takes every well-formed piece: in `string_to_ports` a piece 'a-b' of two numbers is added
    to the ranges on every path, and `_port_range_min_max` turns every range it is given into exactly one interval
    (a piece skipped because of its width, or because of pieces seen before, is a port set that is not read back)."""
    from .common import loop_body_paths

    rep.rule(rid)
    n = 0
    top = ctx.func("helpers.string_to_ports")
    units = [top] + [g for g in ctx.cg.reach([top], include_weak=False) if g is not top and g.module is top.module and g.cls is None and g.name.startswith("_")]

    def well_formedness_only(test: ast.AST, g: Func, depth: int = 0) -> Optional[ast.AST]:
        """None when the filter only asks whether the piece is a number / two numbers; else the offending part."""
        if isinstance(test, ast.BoolOp):
            for v in test.values:
                bad = well_formedness_only(v, g, depth)
                if bad is not None:
                    return bad
            return None
        if isinstance(test, ast.UnaryOp) and isinstance(test.op, ast.Not):
            return well_formedness_only(test.operand, g, depth)
        if isinstance(test, ast.Name):
            return None
        if isinstance(test, ast.Compare) and "len(" in src(test) and not any(isinstance(x, ast.Call) and src(x.func) == "int" for x in ast.walk(test)):
            return None
        if isinstance(test, ast.Call) and isinstance(test.func, ast.Attribute) and test.func.attr == "isdigit":
            return None
        if isinstance(test, ast.Call) and isinstance(test.func, ast.Name) and test.func.id == "all" and len(test.args) == 1 and isinstance(test.args[0], (ast.GeneratorExp, ast.ListComp)):
            return well_formedness_only(test.args[0].elt, g, depth)
        if isinstance(test, ast.Call) and isinstance(test.func, ast.Name) and depth < 2:
            h_ = ctx.prog.resolve_name(g.module, test.func.id)
            if isinstance(h_, Func):
                rets = [r.value for r in own_nodes(h_.node) if isinstance(r, ast.Return) and r.value is not None]
                for r in rets:
                    bad = well_formedness_only(r, h_, depth + 1)
                    if bad is not None:
                        return bad
                if rets:
                    return None
        return test

    # the ranges handed to the interval builder are pieces of `ports.split(",")`: a pattern run over the whole string
    # cannot see two ranges that share a separator ("1-3,5-7": the comma the first match consumed is gone for the second)
    for f in units:
        for x in own_nodes(f.node):
            if isinstance(x, ast.Call) and isinstance(x.func, ast.Attribute) and isinstance(x.func.value, ast.Name) and x.func.value.id == "re" and x.func.attr in ("findall", "finditer", "split", "search", "match"):
                pat = ctx.folder.fold(x.args[0], f.module) if x.args else None
                if isinstance(pat, str) and "-" in pat and ("," in pat or "^" in pat):
                    n += 1
                    rep.instance()
                    rep.violation(f.qualname, snippet(x, 70), "the ranges are cut out of the whole string by a pattern that matches the separators too: of two ranges that follow each other directly the second is not found, and the ports it stands for are missing from the set that is read back", where(f, x), inp="'1-79,81-65535' (what `neq 80` renders)")
    for f in units:
        for x in own_nodes(f.node):
            if isinstance(x, (ast.SetComp, ast.ListComp)) and len(x.generators) == 1 and x.generators[0].ifs and isinstance(x.generators[0].target, ast.Name):
                # only filters over the PIECES of the string (what `.split(",")` gave), not over computed port numbers
                it = x.generators[0].iter
                piece_src = src(it)
                if isinstance(it, ast.Name):
                    piece_src = " ".join(src(d.value) for d in own_nodes(f.node) if isinstance(d, (ast.Assign, ast.AnnAssign)) and d.value is not None and any(isinstance(t, ast.Name) and t.id == it.id for t in (d.targets if isinstance(d, ast.Assign) else [d.target])))
                if ".split(" not in piece_src:
                    continue
                if isinstance(x.elt, ast.Name) and x.elt.id == x.generators[0].target.id and isinstance(it, ast.Call):
                    continue  # `[s for s in ports.split(",") if s]`: the split itself, empty pieces removed
                n += 1
                rep.instance()
                bad = None
                for c in x.generators[0].ifs:
                    bad = bad or well_formedness_only(c, f)
                if bad is not None:
                    rep.violation(f.qualname, snippet(x, 70), f"pieces of the range string are filtered by `{snippet(bad, 40)}`, which is not a question about the piece being a number or two numbers: ports that the string names are missing from the set that is read back", where(f, x), inp="'1-65535'")
                else:
                    rep.ok(f"{f.qualname}: {snippet(x, 50)}", "a piece is passed over only when it is not a number / not two numbers", where=where(f, x))
    for f in units:
        cfg = ctx.cfg(f)
        for lp in [x for x in cfg.live if x.kind == "for" and isinstance(x.ast.target, ast.Name)]:
            var = lp.ast.target.id
            grows = [x for b in lp.ast.body for x in ast.walk(b) if isinstance(x, ast.Call) and isinstance(x.func, ast.Attribute) and x.func.attr in ("add", "append") and isinstance(x.func.value, ast.Name)]
            if not grows:
                continue
            n += 1
            rep.instance()
            bad = None
            for path in loop_body_paths(cfg, lp):
                if path[-1][0] is not lp:
                    continue
                placed = any(nd.kind == "stmt" and nd.ast is not None and any(isinstance(x, ast.Call) and isinstance(x.func, ast.Attribute) and x.func.attr in ("add", "append") for x in ast.walk(nd.ast)) for nd, _ in path)
                if placed:
                    continue
                atoms = [(nd.ast, lab == "T") for nd, lab in path if nd.kind == "cond" and lab in ("T", "F")]
                ill_formed = any((not tr) and ((isinstance(t, ast.Compare) and "len(" in src(t)) or (isinstance(t, ast.Call) and isinstance(t.func, ast.Attribute) and t.func.attr == "isdigit")) for t, tr in atoms)
                if not ill_formed:
                    bad = atoms
                    break
            if bad is not None:
                held = "; ".join(f"{snippet(t, 40)}{'' if tr else ' (false)'}" for t, tr in bad) or "unconditionally"
                rep.violation(f.qualname, f"for {var} in {snippet(lp.ast.iter, 20)}: skipped under [{held}]", "a well-formed piece of the range string is passed over: the ports it stands for are missing from the set that is read back", where(f, lp.ast), inp="'1-79,81-65535' / '1-65535'")
            else:
                rep.ok(f"{f.qualname}: for {var} in {snippet(lp.ast.iter, 20)}", "a piece is passed over only when it is not two numbers", where=where(f, lp.ast))
    rep.floor(2, "piece loops of the range-string reader") if n else None


def validated_is_returned(ctx: Ctx, rep: Report, rid: str = "R08.1b") -> None:
    """The operand list whose length the arity guards test is the list that is returned, up to a
    length-preserving reordering (sorted/list/tuple/reversed): de-duplication or filtering after the
    check changes the arity that was validated."""
    rep.rule(rid)
    li = items_to_ints_func(ctx)
    lenvars: Set[str] = set()
    for n in own_nodes(li.node):
        if isinstance(n, ast.If) and any(isinstance(s_, ast.Raise) for s_ in n.body):
            for x in ast.walk(n.test):
                if isinstance(x, ast.Call) and isinstance(x.func, ast.Name) and x.func.id == "len" and x.args and isinstance(x.args[0], ast.Name):
                    lenvars.add(x.args[0].id)
    rep.instance()
    rep.require(bool(lenvars), "Port._line__items_to_ints: arity guards vanished")
    bad = None
    for p in function_paths(ctx.cfg(li)):
        if p.raises or p.ret is None:
            continue
        e = p.ret
        steps = []
        while True:
            if isinstance(e, ast.Call) and isinstance(e.func, ast.Name) and e.func.id in ("sorted", "list", "tuple", "reversed") and len(e.args) == 1:
                steps.append(e.func.id)
                e = e.args[0]
                continue
            break
        if not (isinstance(e, ast.Name) and e.id in lenvars):
            bad = p.ret
    if bad is None:
        rep.ok("Port._line__items_to_ints: return", f"the validated list ({', '.join(sorted(lenvars))}) itself, reordered at most", where=where(li))
    else:
        rep.violation("Port._line__items_to_ints", f"return {snippet(bad)}", f"the arity was checked on `{', '.join(sorted(lenvars))}` but a list of possibly different length is returned: 'range 5 5' is stored with one operand and renders text its own parser rejects", where(li), inp='Port("range 5 5", protocol="tcp").line re-parsed')


def operand_range(ctx: Ctx, rep: Report, rid: str = "R08.8") -> None:
    """Operands are validated against the port universe before any port list is built from them.

    Recognised guards in Port._line__items_to_ints (all normalise to the accepted integer interval of one operand):
    `if bad := [i for i in xs if C(i)]: raise`, `if any(C(i) for i in xs): raise`, `if not all(C(i) …): raise`,
    `for i in xs: if C(i): raise`.
    """
    rep.rule(rid)
    li = items_to_ints_func(ctx)
    folder = ctx.folder
    accepted: Optional[IntSet] = None

    def from_comp(comp: ast.AST, negate: bool) -> Optional[IntSet]:
        if isinstance(comp, (ast.ListComp, ast.GeneratorExp, ast.SetComp)) and len(comp.generators) == 1:
            g = comp.generators[0]
            var = src(g.target)
            cond = g.ifs[0] if g.ifs and src(comp.elt) == var else comp.elt if not g.ifs else None
            if cond is None:
                return None
            try:
                s_ = cond_to_intset(cond, lambda x: src(x) == var, lambda x: folder.fold(x, li.module))
            except NotInterval:
                return None
            return s_.complement() if negate else s_
        return None

    for n in own_nodes(li.node):
        if isinstance(n, ast.If) and any(isinstance(x, ast.Raise) for x in n.body):
            t = n.test
            neg = False
            while isinstance(t, ast.UnaryOp) and isinstance(t.op, ast.Not):
                neg = not neg
                t = t.operand
            if isinstance(t, ast.NamedExpr):
                t = t.value
            bad: Optional[IntSet] = None
            if isinstance(t, (ast.ListComp, ast.SetComp)) and not neg:
                bad = from_comp(t, False)  # non-empty list of offenders -> raise
            elif isinstance(t, ast.Call) and isinstance(t.func, ast.Name) and t.func.id == "any" and t.args and not neg:
                bad = from_comp(t.args[0], False)
            elif isinstance(t, ast.Call) and isinstance(t.func, ast.Name) and t.func.id == "all" and t.args and neg:
                good = from_comp(t.args[0], False)
                bad = good.complement() if good is not None else None
            if bad is not None and bad != IntSet.empty() and bad != IntSet.all():
                accepted = bad.complement() if accepted is None else accepted.intersect(bad.complement())
        if isinstance(n, ast.For):
            var = src(n.target)
            for x in n.body:
                if isinstance(x, ast.If) and any(isinstance(y, ast.Raise) for y in x.body):
                    try:
                        bad = cond_to_intset(x.test, lambda z: src(z) == var, lambda z: folder.fold(z, li.module))
                        if bad != IntSet.all():
                            accepted = bad.complement() if accepted is None else accepted.intersect(bad.complement())
                    except NotInterval:
                        pass
    rep.instance()
    if accepted is None:
        rep.violation("Port._line__items_to_ints", "operand range", "operands are not checked against the port universe: 'eq 0' / 'range 5 70000' denote ports outside 1..65535 and 'range 1 99999999999999999999' raises OverflowError (or exhausts memory) while the list is built", where(li), inp='Port("range 1 99999999999999999999", protocol="tcp")')
    elif accepted == UNIVERSE:
        rep.ok("Port._line__items_to_ints: accepted operand", f"{accepted} = the port universe", where=where(li))
    else:
        rep.violation("Port._line__items_to_ints", f"accepted operand {accepted}", "operands must lie in the port universe 1..65535", where(li), inp='Port("eq 0", protocol="tcp").ports')


NUMERAL_SLICE = [
    "helpers.string_to_ports",
    "helpers._port_range_min_max",
    "helpers.ports_to_string",
    "Port._line__items_to_ints",
    "Port._items_to_ports",
    "Port._ports_to_items",
    "Port.ports.setter",
    "Port.sport.setter",
    "Port.items.setter",
]


BOUNDARY_WITNESSES = [
    # (setter, parameter, value the paired getter can return, why it can)
    ("Port.sport.setter", "\"\"", "", "an expression that denotes no port ('lt 1', 'gt 65535', no expression) has the range string ''"),
    ("Port.ports.setter", "[]", [], "an expression that denotes no port has the empty port list"),
    ("Port.items.setter", "[]", [], "the empty expression has no operands"),
]


def items_view_keeps_operands(ctx: Ctx, rep: Report, rid: str = "R08.10") -> None:
    """Assigning operands through the `items` view re-parses exactly those operands, in the given order and with their
    multiplicity (`range 53 53` stays a two-operand range): the text handed to the line setter is built from the
    parameter by an order- and count-preserving map."""
    from .common import order_of

    rep.rule(rid)
    f = ctx.func("Port.items.setter")
    rep.instance()
    param = f.params[1]
    comps = [n for n in own_nodes(f.node) if isinstance(n, (ast.ListComp, ast.GeneratorExp)) and any(mentions(g.iter, param) for g in n.generators)]
    if not comps:
        rep.note(f"{rid} Port.items setter: no element-wise map of the operands found (not judged)")
        rep.ok("Port.items setter", "no element-wise map found (not judged)", nontrivial=False, where=where(f))
        return
    c = comps[0]
    state, why = order_of(ctx, f, c.generators[0].iter)
    filtered = bool(c.generators[0].ifs)
    if state.startswith("ordered:") and not filtered:
        rep.ok(f"Port.items setter: {snippet(c, 50)}", f"every operand, in the given order ({why})", where=where(f, c))
    else:
        rep.violation("Port.items.setter", snippet(c), f"the operands are re-ordered, de-duplicated or filtered before they are re-parsed ({state}; {why}): assigning an expression's own items back changes it ('range 53 53' loses an operand and is refused)", where(f, c), inp='p = Port("range 53 53", protocol="tcp"); p.items = p.items')


def views_accept_boundaries(ctx: Ctx, rep: Report, rid: str = "R08.9") -> None:
    """A writable view accepts every value its own getter can return, in particular the boundary values (empty port
    set): no path of the setter that is feasible for the witness ends in a raise inside the setter itself."""
    from ..pathsem import feasible

    rep.rule(rid)
    for q, shown, witness, why in BOUNDARY_WITNESSES:
        f = ctx.prog.find_func(q)
        if f is None or len(f.params) < 2:
            continue
        rep.instance()
        param = f.params[1]
        bad = None
        for p in function_paths(ctx.cfg(f)):
            if not p.raises:
                continue
            # only raises written in the setter itself (a path ending at the raise exit through a `raise` statement)
            if not any(nd.kind == "stmt" and isinstance(nd.ast, ast.Raise) for nd, _ in p.nodes):
                continue
            if feasible(p, ctx.folder, f, {param: witness}) is True:
                bad = p
                break
        if bad is not None:
            rz = next(nd.ast for nd, _ in bad.nodes if nd.kind == "stmt" and isinstance(nd.ast, ast.Raise))
            rep.violation(q, f"{param} = {shown}: {snippet(rz)}", f"the setter rejects {shown}, but {why}: assigning the view's own value back raises instead of leaving the expression unchanged", where(f, rz), inp='p = Port("lt 1", protocol="tcp"); p.sport = p.sport')
        else:
            rep.ok(f"{q}: {param} = {shown}", "no raise statement of the setter is reachable for this value of the paired getter", where=where(f))
    rep.floor(3, "writable views of Port")


def numerals_as_text(ctx: Ctx, rep: Report, rid: str = "R08.7") -> None:
    """In the port codec no ordering comparison may have two str-typed operands (numerals compared as text)."""
    rep.rule(rid)
    n = 0
    for q in NUMERAL_SLICE:
        f = ctx.prog.find_func(q)
        if f is None:
            continue
        for x in own_nodes(f.node):
            if not isinstance(x, ast.Compare):
                continue
            operands = [x.left] + list(x.comparators)
            for a, op, b in zip(operands, x.ops, operands[1:]):
                if not isinstance(op, (ast.Lt, ast.LtE, ast.Gt, ast.GtE)):
                    continue
                n += 1
                ta, tb = ctx.types.expr_type(a, f), ctx.types.expr_type(b, f)
                if ta == ("str",) and tb == ("str",):
                    rep.violation(q, snippet(x), "both operands are strings: port numbers are ordered as text ('9' > '10'), so ranges whose bounds order differently as text are mis-handled", where(f, x), inp='Port("range 9 10", protocol="tcp").sport written back')
                else:
                    rep.ok(f"{q}: {snippet(x, 50)}", "ordering comparison on integers", nontrivial=False, where=where(f, x))
    rep.instance(n)
    rep.floor(3, "ordering comparisons in the port codec")


def _effective_test(g: ast.If, fn: ast.AST) -> ast.AST:
    """g.test conjoined with the tests of the enclosing `if` statements (negated for else arms)."""
    parts = [g.test]
    child: ast.AST = g
    p = getattr(g, "_parent", None)
    while p is not None and p is not fn:
        if isinstance(p, ast.If):
            if child in p.body:
                parts.append(p.test)
            elif child in p.orelse:
                parts.append(ast.UnaryOp(op=ast.Not(), operand=p.test))
        child = p
        p = getattr(p, "_parent", None)
    if len(parts) == 1:
        return parts[0]
    return ast.BoolOp(op=ast.And(), values=list(reversed(parts)))


def _is_sorted(ctx: Ctx, f: Func, arg: Optional[ast.AST], depth: int = 0) -> Tuple[bool, str]:
    if arg is None:
        return False, "no argument"
    if isinstance(arg, ast.Call) and isinstance(arg.func, ast.Name) and arg.func.id == "sorted":
        return True, "sorted(...)"
    if isinstance(arg, ast.Name) and depth < 4:
        defs = []
        for n in own_nodes(f.node):
            if isinstance(n, ast.Assign) and any(isinstance(t, ast.Name) and t.id == arg.id for t in n.targets):
                defs.append(n.value)
            elif isinstance(n, ast.AnnAssign) and isinstance(n.target, ast.Name) and n.target.id == arg.id and n.value is not None:
                defs.append(n.value)
        if arg.id in f.params and not defs:
            return False, f"parameter {arg.id} is passed through unsorted"
        if arg.id in f.params:
            # re-bound parameter: the binding that reaches the call must be the sorted one (last assignment)
            defs = defs[-1:]
        if defs:
            res = [_is_sorted(ctx, f, d, depth + 1) for d in defs]
            if all(r[0] for r in res):
                return True, f"{arg.id} = " + res[0][1]
            return False, next(r[1] for r in res if not r[0])
    if isinstance(arg, ast.Call) and depth < 4:
        for e in ctx.cg.all_edges(f):
            if e.site is arg and isinstance(e.target, Func) and e.kind == "call" and not e.weak:
                g = e.target
                from ..model import in_nested_def

                rets = [n.value for n in own_nodes(g.node) if isinstance(n, ast.Return) and n.value is not None and not in_nested_def(n, g.node)]
                if rets and all(_is_sorted(ctx, g, r, depth + 1)[0] for r in rets):
                    return True, f"{g.qualname} returns sorted(...)"
                return False, f"{g.qualname} does not return a sorted list"
    return False, f"{snippet(arg)} has unknown order"


# what the later rounds (seeding rounds 2-5, refactor twins, defect hunt) added to what the check decides
LATER_ROUNDS = "a refused line leaves the operator as it was, eq/neq operands are a set, the empty expression writes back, the range-string codec skips no piece, the range-string encoder walks sorted input"
EXPLANATION = EXPLANATION.replace(" Does not decide", " Later rounds added: " + LATER_ROUNDS + ". Does not decide", 1) if " Does not decide" in EXPLANATION else EXPLANATION + " Later rounds added: " + LATER_ROUNDS + "."
