"""C13 Address containment — direction of every containment test and the quantifier each answer is decided by."""

from __future__ import annotations

import ast
from typing import Dict, List, Optional, Set, Tuple

from ..cfg import Node
from ..core import Ctx, Report, snippet, where
from ..model import Func, own_nodes, src
from ..pathsem import function_paths
from .common import deep_resolve, falsy_const_return, mentions, return_nodes

PROPERTY = "C13"
LEVEL = "other"
EXPLANATION = (
    "Decides the *shape* of the containment answers, not their truth: every elementary test runs in the right direction "
    "(the candidate's network is the receiver of IPv4Network.subnet_of, the container's network its argument; `x in y` has "
    "x from the candidate and y from the container), the list-level test is for-all candidate networks there-exists a "
    "container network (helpers.subnet_of, functions.subnet_of, Address.subnet_of pass tops/bottoms from the right "
    "objects), a member is 'in' a group when *some* member contains it (the loop over the container's members answers "
    "False only after it is exhausted), and a candidate that is itself a group is 'in' something only when *every* one "
    "of its members is (no positive answer from inside the loop over the candidate's members). Each of these is a "
    "necessary condition of 'a positive answer implies true containment'. Does not decide that subnet_of on two networks "
    "is set inclusion (ipaddress), nor the network expansion of wildcards (C05)."
)
ASSUMPTIONS = ["ipaddress.IPv4Network.subnet_of(a, b) is inclusion of a in b", "network expansion of an address is exact (C05)"]


def _taint(f: Func, roots: Dict[str, str]) -> Dict[str, Set[str]]:
    """local name -> subset of {'self', 'other'} it is computed from (helper calls on self count by their arguments)."""
    t: Dict[str, Set[str]] = {k: {v} for k, v in roots.items()}

    def of(e: Optional[ast.AST]) -> Set[str]:
        out: Set[str] = set()
        if e is None:
            return out
        if isinstance(e, ast.Call) and isinstance(e.func, ast.Attribute) and isinstance(e.func.value, ast.Name) and e.func.value.id == "self" and e.func.attr.startswith("_get"):
            for a in list(e.args) + [k.value for k in e.keywords]:
                out |= of(a)
            return out
        for x in ast.walk(e):
            if isinstance(x, ast.Name) and x.id in t:
                out |= t[x.id]
        return out

    changed = True
    while changed:
        changed = False
        for n in own_nodes(f.node):
            pairs: List[Tuple[ast.AST, ast.AST]] = []
            if isinstance(n, ast.Assign) and len(n.targets) == 1:
                pairs.append((n.targets[0], n.value))
            elif isinstance(n, ast.AnnAssign) and n.value is not None:
                pairs.append((n.target, n.value))
            elif isinstance(n, ast.NamedExpr):
                pairs.append((n.target, n.value))
            elif isinstance(n, ast.For):
                pairs.append((n.target, n.iter))
            elif isinstance(n, ast.comprehension):
                pairs.append((n.target, n.iter))
            for tg, val in pairs:
                v = of(val)
                for x in ast.walk(tg):
                    if isinstance(x, ast.Name) and x.id not in roots:
                        if not v <= t.get(x.id, set()):
                            t[x.id] = t.get(x.id, set()) | v
                            changed = True
    t["__of__"] = of  # type: ignore[assignment]
    return t


def _elementary_tests(f: Func) -> List[Tuple[ast.AST, ast.AST, ast.AST, str]]:
    """(node, candidate expr, container expr, form) for `a.subnet_of(b)`, `b.supernet_of(a)` and `a in b`."""
    out = []
    for n in own_nodes(f.node):
        if isinstance(n, ast.Call) and isinstance(n.func, ast.Attribute) and len(n.args) == 1 and not n.keywords:
            if n.func.attr == "subnet_of":
                out.append((n, n.func.value, n.args[0], "subnet_of"))
            elif n.func.attr == "supernet_of":
                out.append((n, n.args[0], n.func.value, "supernet_of"))
        if isinstance(n, ast.Compare) and len(n.ops) == 1 and isinstance(n.ops[0], ast.In):
            out.append((n, n.left, n.comparators[0], "in"))
    return out


PROJECTIONS = ("network_address", "broadcast_address", "hostmask", "netmask", "prefixlen", "num_addresses", "max_prefixlen", "packed")


def _projection(e: ast.AST) -> Optional[ast.AST]:
    """A sub-expression that takes a part of a network (its first address, its mask, an element) instead of the network."""
    for x in ast.walk(e):
        if isinstance(x, ast.Attribute) and x.attr in PROJECTIONS:
            return x
        if isinstance(x, ast.Subscript) and not isinstance(x.slice, ast.Slice) and isinstance(x.ctx, ast.Load):
            return x
        if isinstance(x, ast.Call) and isinstance(x.func, ast.Name) and x.func.id in ("next", "min", "max", "int", "len"):
            return x
        if isinstance(x, ast.Call) and isinstance(x.func, ast.Attribute) and x.func.attr == "hosts":
            return x
    return None


WHOLE_ATTRS = ("ipnet", "_ipnet", "items", "_items", "wildcard", "_wildcard")


def _label_of_candidate(cand: ast.AST, taint) -> Optional[ast.AST]:
    """`<candidate>.uuid`, `.line`, `.name` ...: a label of the candidate stands in the containment test instead of the
    candidate (or its network): equal labels do not mean contained networks."""
    for x in ast.walk(cand):
        if isinstance(x, ast.Attribute) and isinstance(x.value, ast.Name) and taint.get(x.value.id) == {"other"} and x.attr not in WHOLE_ATTRS and not isinstance(getattr(x, "_parent", None), ast.Call):
            return x
    return None


def members_after_own_network(ctx: Ctx, rep: Report, f: Func, q: str, of) -> None:
    """An address that has a network of its own is judged by that network; its member list is consulted only when it has
    none (the line setters re-type an address without emptying the members: a former group that was given a plain line
    must not be judged by its old members)."""
    ab = ctx.prog.classes.get("AddressBase")
    if ab is None or f.cls is None or ab not in f.cls.mro:
        return
    cfg = ctx.cfg(f)

    def about_other(x: ast.AST, what) -> bool:
        for y in ast.walk(x):
            if isinstance(y, ast.Call) and isinstance(y.func, ast.Attribute) and y.func.attr in what and y.args and of(y.args[0]) == {"other"} and not any(isinstance(z, ast.Name) and z.id != src(y.args[0]) and of(z) == {"other"} for z in ast.walk(y.args[0])):
                if isinstance(y.args[0], ast.Name) and y.args[0].id == f.params[1]:
                    return True
            if isinstance(y, ast.Attribute) and y.attr in what and isinstance(y.value, ast.Name) and y.value.id == f.params[1]:
                return True
        return False

    # a test of a local that was bound to the operand's network (`net = self._get_ipnet(other)` ... `if net:`) is that test
    binds: Dict[str, List[ast.AST]] = {}
    def _top_level(x: ast.AST) -> bool:
        par = getattr(x, "_parent", None)
        while par is not None and par is not f.node:
            if isinstance(par, (ast.FunctionDef, ast.AsyncFunctionDef, ast.Lambda)):
                return False
            par = getattr(par, "_parent", None)
        return True

    for x in own_nodes(f.node):
        if isinstance(x, (ast.Assign, ast.AnnAssign)) and getattr(x, "value", None) is not None and _top_level(x):
            t0 = x.targets[0] if isinstance(x, ast.Assign) else x.target
            if isinstance(t0, ast.Name):
                binds.setdefault(t0.id, []).append(x.value)

    def cond_expr(c_ast: ast.AST) -> ast.AST:
        e = c_ast
        if isinstance(e, ast.UnaryOp) and isinstance(e.op, ast.Not):
            e = e.operand
        if isinstance(e, ast.Name) and e.id in binds and all(about_other(v, ("_get_ipnet", "ipnet", "_ipnet")) for v in binds[e.id]):
            return binds[e.id][0]
        return c_ast

    own = [c for c in cfg.live if c.kind == "cond" and about_other(cond_expr(c.ast), ("_get_ipnet", "ipnet", "_ipnet"))]
    mem = [n for n in cfg.live if n.ast is not None and n.kind in ("stmt", "cond", "for") and about_other(n.ast.iter if n.kind == "for" else n.ast, ("_get_items", "items", "_items"))]
    if not mem:
        return
    rep.instance()
    if not own:
        rep.violation(q, snippet(mem[0].ast, 60), "the operand's member list is consulted but its own network never is", where(f, mem[0].ast))
        return
    cut = {(c.id, "F") for c in own}
    from .common import reachable_without_edges

    early = [n for n in mem if n in reachable_without_edges(cfg, cfg.entry, cut)]
    if early:
        rep.violation(q, snippet(early[0].ast, 60), "the operand's member list is consulted before (or without) its own network: an address that was a group and was re-assigned a plain line is judged by its old members", where(f, early[0].ast), inp="a = AddressAg('group-object G', items=[...]); a.line = 'host 10.0.0.1'; a in other")
    else:
        rep.ok(f"{q}: members of the operand", "consulted only after the operand's own network test has failed", where=where(f, mem[0].ast))


def _drops_members(e: ast.AST) -> Optional[ast.AST]:
    """A sub-expression that lets only some members through: a filtering comprehension, filter(), a proper slice."""
    for x in ast.walk(e):
        if isinstance(x, (ast.ListComp, ast.GeneratorExp, ast.SetComp)) and any(g.ifs for g in x.generators):
            return x
        if isinstance(x, ast.Call) and isinstance(x.func, ast.Name) and x.func.id == "filter":
            return x
        if isinstance(x, ast.Subscript) and isinstance(x.slice, ast.Slice) and not (x.slice.lower is None and x.slice.upper is None):
            return x
    return None


def candidate_members_complete(ctx: Ctx, rep: Report, f: Func, q: str, of) -> None:
    """The loop over the candidate's members sees all of them: neither its iterable nor the private helper that fetches
    the members filters (a dropped member is a member nobody tested)."""
    env = {}
    from .common import single_env

    env = dict(single_env(f.node))
    stores: Dict[str, int] = {}
    for n in own_nodes(f.node):
        if isinstance(n, ast.Name) and isinstance(n.ctx, ast.Store):
            stores[n.id] = stores.get(n.id, 0) + 1
    for n in own_nodes(f.node):
        if isinstance(n, ast.NamedExpr) and isinstance(n.target, ast.Name) and stores.get(n.target.id) == 1:
            env[n.target.id] = n.value
    for n in own_nodes(f.node):
        if not isinstance(n, (ast.For, ast.comprehension)):
            continue
        if of(n.iter) != {"other"}:
            continue
        rep.instance()
        # the iterable and the (original) expressions its names stand for
        origs: List[ast.AST] = [n.iter]
        seen_names: Set[str] = set()
        i_ = 0
        while i_ < len(origs):
            for y in ast.walk(origs[i_]):
                if isinstance(y, ast.Name) and y.id in env and y.id not in seen_names:
                    seen_names.add(y.id)
                    origs.append(env[y.id])
            i_ += 1
        exprs: List[Tuple[Func, ast.AST]] = [(f, o) for o in origs]
        for x in [y for o in origs for y in ast.walk(o)]:
            if isinstance(x, ast.Call):
                for edge in ctx.cg.all_edges(f):
                    if edge.site is x and not edge.weak and edge.target.cls is not None and edge.target.name.startswith("_"):
                        for r in own_nodes(edge.target.node):
                            if isinstance(r, ast.Return) and r.value is not None:
                                exprs.append((edge.target, deep_resolve(r.value, single_env(edge.target.node)) or r.value))
        bad = next(((g, d) for g, ex in exprs for d in [_drops_members(ex)] if d is not None), None)
        if bad:
            g, d = bad
            rep.violation(g.qualname, snippet(d, 70), f"members of the candidate are filtered out before {q} tests them: a group is reported contained although a member nobody looked at lies outside", where(g, d), inp="nxos group {10.0.0.0/30, 10.0.0.0 0.0.3.3} in 10.0.0.0/24")
        else:
            rep.ok(f"{q}: members of the candidate ({snippet(n.iter, 40)})", "the whole member list is iterated (no filter, no slice; helpers return the list as it is)", where=where(f, n.iter))


def no_carried_positive(ctx: Ctx, rep: Report, f: Func, q: str, of) -> None:
    """Inside the loop over the candidate's members, evidence found for one member does not count for the next: a flag
    that is set to a truthy constant in the loop body is re-initialised in every iteration before it is read."""
    cfg = ctx.cfg(f)
    for lp in [n for n in cfg.live if n.kind == "for" and of(n.ast.iter) == {"other"}]:
        inside_ids = {id(x) for b in lp.ast.body for x in ast.walk(b)}
        body_start = [s_ for lab, s_ in lp.succ if lab == "body"]
        if not body_start:
            continue
        flags: Dict[str, ast.AST] = {}
        for x in ast.walk(lp.ast):
            if id(x) in inside_ids and isinstance(x, (ast.Assign, ast.AnnAssign)) and x.value is not None:
                tg = x.targets[0] if isinstance(x, ast.Assign) else x.target
                if isinstance(tg, ast.Name) and isinstance(x.value, ast.Constant) and x.value.value:
                    flags.setdefault(tg.id, x)
        for name, st in sorted(flags.items()):
            rep.instance()

            def stores(m: Node, name=name) -> bool:
                if m.ast is None:
                    return False
                root = m.ast.target if m.kind == "for" else m.ast
                return m.kind in ("stmt", "for") and any(isinstance(y, ast.Name) and y.id == name and isinstance(y.ctx, ast.Store) for y in ast.walk(root))

            reads = [m for m in cfg.live if m.ast is not None and id(m.ast if m.kind != "for" else m.ast.iter) in inside_ids and any(isinstance(y, ast.Name) and y.id == name and isinstance(y.ctx, ast.Load) for y in ast.walk(m.ast if m.kind != "for" else m.ast.iter))]
            carried = [m for m in reads if not stores(m) and not cfg.all_paths_pass(body_start[0], m, stores, labels_avoid=("exc",)) and body_start[0] is not m or (body_start[0] is m and not stores(m))]
            if carried:
                rep.violation(q, f"{snippet(st, 40)} ... {snippet(carried[0].ast, 40)}", f"`{name}` is set when one member of the candidate is found inside and is still set when the next member is judged: after the first contained member every later one passes untested", where(f, carried[0].ast), inp="group {10.0.0.0/30, 192.168.0.0/24} in group {10.0.0.0/24} -> True")
            else:
                rep.ok(f"{q}: flag `{name}`", "re-initialised in every iteration over the candidate's members before it is read", where=where(f, st))


def containment_operator(ctx: Ctx, rep: Report, q: str, f: Optional[Func] = None, _seen: Optional[Set[int]] = None) -> None:
    f = f if f is not None else ctx.func(q)
    _seen = _seen if _seen is not None else set()
    _seen.add(id(f))
    from .normalise import normalised as _nrm

    f = _nrm(ctx, f, "localcalls")  # a local `def covered(item): return item in self._items or ...` is read where it is called
    rep.require(len(f.params) >= 2, f"{q} lost its operand")
    other = f.params[1]
    t = _taint(f, {"self": "self", other: "other"})
    of = t["__of__"]  # type: ignore[index]
    cfg = ctx.cfg(f)
    # ---- direction of the elementary tests
    tests = _elementary_tests(f)
    # a private method of the same class that is handed (a part of) the operand answers a containment question itself:
    # it is held to the same rules with its parameter as the candidate, and its call counts as a test `arg in self`
    if f.cls is not None:
        for n in own_nodes(f.node):
            if isinstance(n, ast.Call) and isinstance(n.func, ast.Attribute) and src(n.func.value) == "self" and n.func.attr.startswith("_") and not n.func.attr.startswith("_get") and len(n.args) == 1 and not n.keywords and of(n.args[0]) == {"other"}:
                m = f.cls.lookup_method(n.func.attr)
                if m is not None and len(m.params) == 2 and m.kind == "method":
                    tests.append((n, n.args[0], ast.Name(id="self", ctx=ast.Load()), "helper"))
                    if id(m) not in _seen:
                        containment_operator(ctx, rep, m.qualname, m, _seen)
    n_dir = 0
    for node, cand, cont, form in tests:
        tc, tk = of(cand), of(cont)
        if not tc or not tk:
            continue  # a test that does not relate the two operands (isinstance-like membership in a constant)
        n_dir += 1
        rep.instance()
        label = _label_of_candidate(cand, t)
        if label is not None and _projection(cand) is None:
            rep.violation(q, snippet(node), f"the test compares `{snippet(label, 40)}`, a label of the candidate (identifier, text, name), not the candidate or its network: equal labels do not mean contained networks (a cloned and then edited member keeps its identifier)", where(f, node), inp="clone a group with its uuids, edit a member so that it lies outside, ask `clone in original`")
            continue
        part = _projection(cand) or _projection(cont)
        if part is not None:
            rep.violation(q, snippet(node), f"the test compares `{snippet(part, 40)}`, a single address or a part of the network, not the network: a candidate that starts inside the container and reaches outside is reported contained", where(f, node), inp="10.0.0.0/8 in 10.0.0.0/24 -> True")
            continue
        if tc == {"other"} and tk == {"self"}:
            rep.ok(f"{q}: {snippet(node, 50)}", "candidate from the operand, container from self", where=where(f, node))
        elif tc == {"self"} and tk == {"other"}:
            rep.violation(q, snippet(node), "the test runs the wrong way: it asks whether *self* lies inside the operand, so `x in y` answers for `y in x`", where(f, node), inp="host in /24 answered as /24 in host")
        else:
            rep.violation(q, snippet(node), f"the containment test mixes the two sides (candidate from {sorted(tc)}, container from {sorted(tk)})", where(f, node))
    rep.instance()
    if n_dir == 0:
        rep.violation(q, "containment test", "no test relates the operand to self: the answer does not depend on containment", where(f))
    # ---- quantifiers
    candidate_members_complete(ctx, rep, f, q, of)
    members_after_own_network(ctx, rep, f, q, of)
    no_carried_positive(ctx, rep, f, q, of)
    _quantifier_calls(ctx, rep, f, q, of)
    loops = [n for n in cfg.live if n.kind == "for"]
    truthy = [r for r in return_nodes(cfg) if not falsy_const_return(r)]
    falsy = [r for r in return_nodes(cfg) if falsy_const_return(r) and r.ast.value is not None]
    for lp in loops:
        src_t = of(lp.ast.iter)
        if not src_t:
            continue
        body_start = [s for lab, s in lp.succ if lab == "body"]
        if not body_start:
            continue
        body = {m for m in cfg.reachable(body_start[0], labels_avoid=("exc",)) if lp in cfg.reachable(m, labels_avoid=("exc",)) or m in truthy or m in falsy}
        # statements that belong to the loop body syntactically
        inside = {id(x) for b in lp.ast.body for x in ast.walk(b)}
        pos_inside = [r for r in truthy if id(r.ast) in inside]
        neg_inside = [r for r in falsy if id(r.ast) in inside]
        rep.instance()
        if src_t == {"other"}:
            # the candidate is a collection: every member must pass (a positive answer only after the loop)
            nested_self_loop = any(isinstance(x, ast.For) and of(x.iter) == {"self"} for b in lp.ast.body for x in ast.walk(b))
            bad = [r for r in pos_inside]
            if bad:
                rep.violation(
                    q,
                    f"{snippet(bad[0].ast)} inside `for {src(lp.ast.target)} in {snippet(lp.ast.iter, 30)}`",
                    "a candidate that is a group is reported contained as soon as ONE of its members is: a positive answer does not imply that the whole group lies inside",
                    where(f, bad[0].ast),
                    inp="group {10.0.0.1, 20.0.0.1} in 10.0.0.0/24 -> True",
                )
            else:
                rep.ok(f"{q}: for {src(lp.ast.target)} in {snippet(lp.ast.iter, 30)}", "all members of the candidate must pass: no positive answer from inside the loop" + (" (each against some member of self)" if nested_self_loop else ""), where=where(f, lp.ast))
        elif src_t == {"self"}:
            # the container is a collection: some member suffices; a negative answer only after the loop
            enclosing_other = any(isinstance(p2.ast, ast.For) and of(p2.ast.iter) == {"other"} and id(lp.ast) in {id(x) for b in p2.ast.body for x in ast.walk(b)} for p2 in loops if p2 is not lp)
            if neg_inside and not enclosing_other:
                rep.violation(q, f"{snippet(neg_inside[0].ast)} inside `for {src(lp.ast.target)} in {snippet(lp.ast.iter, 30)}`", "a member of the container that does not contain the candidate ends the search: a later member that does is never asked", where(f, neg_inside[0].ast), inp="host 10.0.1.1 in group {10.0.0.0/24, 10.0.1.0/24} -> False")
            else:
                rep.ok(f"{q}: for {src(lp.ast.target)} in {snippet(lp.ast.iter, 30)}", "some member of the container suffices; the negative answer comes after the loop", where=where(f, lp.ast))


def _quantifier_calls(ctx: Ctx, rep: Report, f: Func, q: str, of) -> None:
    """any()/all() over the members of the candidate or of the container (the loop-free spelling of the quantifiers)."""
    for n in own_nodes(f.node):
        if isinstance(n, ast.Call) and isinstance(n.func, ast.Name) and n.func.id in ("any", "all") and len(n.args) == 1 and isinstance(n.args[0], (ast.GeneratorExp, ast.ListComp)):
            g = n.args[0].generators[0]
            side = of(g.iter)
            if side not in ({"other"}, {"self"}):
                continue
            # only positive uses (not under `not`)
            par = getattr(n, "_parent", None)
            negated = isinstance(par, ast.UnaryOp) and isinstance(par.op, ast.Not)
            kind = n.func.id if not negated else ("all" if n.func.id == "any" else "any")
            rep.instance()
            if side == {"other"} and kind == "any":
                rep.violation(q, snippet(n, 70), "a candidate that is a group is reported contained as soon as ONE of its members is: a positive answer does not imply that the whole group lies inside", where(f, n), inp="group {10.0.0.1, 20.0.0.1} in 10.0.0.0/24 -> True")
            elif side == {"self"} and kind == "all":
                rep.violation(q, snippet(n, 70), "the candidate must lie inside EVERY member of the container: a member of a group that does not contain it makes the answer negative", where(f, n))
            else:
                rep.ok(f"{q}: {snippet(n, 60)}", "every member of the candidate / some member of the container", where=where(f, n))


def list_level(ctx: Ctx, rep: Report) -> None:
    """The list-level tests: ∀ candidate network ∃ container network, fed from the right objects."""
    from .c03 import check_subnet_of_shape

    rep.rule("R13.1")
    from .normalise import normalised as _nrm

    hs = _nrm(ctx, ctx.func("helpers.subnet_of"), "localcalls")  # a one-expression helper (`_subnet_of_any`) is read in place
    rep.instance()
    rep.require(set(hs.params) >= {"tops", "bottoms"}, "helpers.subnet_of lost its tops/bottoms parameters")
    check_subnet_of_shape(ctx, rep, hs, "tops", "bottoms")
    # functions.subnet_of(top, bottom)
    fs = _nrm(ctx, ctx.func("functions.subnet_of"), "localcalls")
    rep.instance()
    rep.require(len(fs.params) >= 2, "functions.subnet_of lost its parameters")
    top_p, bot_p = fs.params[0], fs.params[1]
    t = _taint(fs, {top_p: "self", bot_p: "other"})  # container = top, candidate = bottom
    of = t["__of__"]  # type: ignore[index]
    names_top = sorted(k for k, v in t.items() if k not in (top_p, bot_p, "__of__") and v == {"self"})
    names_bot = sorted(k for k, v in t.items() if k not in (top_p, bot_p, "__of__") and v == {"other"})
    delegated = [n for n in own_nodes(fs.node) if isinstance(n, ast.Call) and src(n.func).endswith("subnet_of") and n.keywords and {k.arg for k in n.keywords} >= {"tops", "bottoms"}]
    if delegated:
        c = delegated[0]
        kw = {k.arg: k.value for k in c.keywords}
        if of(kw["tops"]) == {"self"} and of(kw["bottoms"]) == {"other"}:
            rep.ok(f"functions.subnet_of: {snippet(c, 60)}", f"tops from `{top_p}`, bottoms from `{bot_p}`", where=where(fs, c))
        else:
            rep.violation("functions.subnet_of", snippet(c), f"tops must come from `{top_p}` and bottoms from `{bot_p}`", where(fs, c))
    else:
        tops_v = next((nm for nm in names_top if any(isinstance(x, (ast.For, ast.comprehension)) and src(x.iter) == nm for x in ast.walk(fs.node))), None)
        bots_v = next((nm for nm in names_bot if any(isinstance(x, (ast.For, ast.comprehension)) and src(x.iter) == nm for x in ast.walk(fs.node))), None)
        if tops_v is None and bots_v is None and not any(isinstance(x, ast.For) for x in own_nodes(fs.node)):
            # no locals: the networks are taken where they are iterated, all(any(... for t in top.ipnets()) for b in bottom.ipnets())
            check_subnet_of_shape(ctx, rep, fs, f"{top_p}.ipnets()", f"{bot_p}.ipnets()", need_empty_guard=False)
        elif tops_v is None or bots_v is None:
            rep.violation("functions.subnet_of", "quantified lists", f"the lists the test runs over are not the networks of `{top_p}` (container) and of `{bot_p}` (candidate)", where(fs))
        else:
            check_subnet_of_shape(ctx, rep, fs, tops_v, bots_v, need_empty_guard=False)
    # <Address>.subnet_of(other): bottoms from self, tops from other
    rep.rule("R13.2")
    for cls in ctx.prog.classes.values():
        m = cls.methods.get("subnet_of")
        if m is None or len(m.params) < 2:
            continue
        rep.instance()
        other = m.params[1]
        t2 = _taint(m, {"self": "self", other: "other"})
        of2 = t2["__of__"]  # type: ignore[index]
        calls = [n for n in own_nodes(m.node) if isinstance(n, ast.Call) and src(n.func).endswith("subnet_of") and (n.keywords or len(n.args) == 2)]
        if not calls:
            rep.violation(m.qualname, "list-level test", "the answer is not decided by the list-level containment test", where(m))
            continue
        c = calls[0]
        kw = {k.arg: k.value for k in c.keywords}
        tops_e = kw.get("tops", c.args[0] if c.args else None)
        bots_e = kw.get("bottoms", c.args[1] if len(c.args) > 1 else None)
        # every answer that can be positive is the list-level test's answer
        from .common import single_env

        env2 = single_env(m.node)
        loose = []
        for r in return_nodes(ctx.cfg(m)):
            if r.ast.value is None or falsy_const_return(r):
                continue
            v = r.ast.value
            for _ in range(4):
                if isinstance(v, ast.Name) and v.id in env2:
                    v = env2[v.id]
                elif isinstance(v, ast.Call) and isinstance(v.func, ast.Name) and v.func.id == "bool" and len(v.args) == 1:
                    v = v.args[0]
            if not any(v is c_ for c_ in calls):
                loose.append(r)
        if loose:
            rep.violation(m.qualname, snippet(loose[0].ast), "a positive answer that is not the answer of the network containment test (equality of lines or of group names says nothing about the members' networks)", where(m, loose[0].ast), inp="two groups with the same name and different members")
            continue
        if tops_e is not None and bots_e is not None and of2(tops_e) == {"other"} and of2(bots_e) == {"self"}:
            rep.ok(f"{m.qualname}: {snippet(c, 60)}", f"self is the candidate (bottoms), `{other}` the container (tops)", where=where(m, c))
        else:
            rep.violation(m.qualname, snippet(c), f"`a.subnet_of(b)` must test a's networks (bottoms) inside b's (tops): the arguments are crossed", where(m, c), inp="every /24 would be a subnet of its hosts")


def address_patterns_whole(ctx: Ctx, rep: Report, rid: str = "R13.7") -> None:
    """A pattern that stands for a dotted address takes the WHOLE address wherever it is used without an end anchor: for
    every module-level pattern constant that matches `10.0.0.1`, an unanchored match on a longer address (last octet of
    three digits) returns all of it (an alternation that tries two digits before three cuts `10.0.0.112` to `10.0.0.11`:
    the address that is compared is not the address that was written)."""
    import re as _re2

    rep.rule(rid)
    witnesses = ["10.0.0.112", "192.168.199.200", "255.255.255.255", "100.100.100.100", "1.2.3.4", "10.20.30.199"]
    n = 0
    for mod in ctx.prog.modules.values():
        env = ctx.folder.module_env(mod)
        for name, val in sorted(env.items()):
            if not isinstance(val, str) or not name.isupper():
                continue
            try:
                pat = _re2.compile(val)
            except _re2.error:
                continue
            if not pat.fullmatch("10.0.0.1"):
                continue
            n += 1
            rep.instance()
            cut = []
            for w in witnesses:
                m1 = pat.match(w)
                m2 = pat.search(f"host {w} any")
                if not (m1 and m1.group() == w and m2 and m2.group() == w):
                    cut.append((w, m1.group() if m1 else None))
            if cut:
                rep.violation(f"{mod.short}.{name}", f"pattern {val[:60]!r}", f"an unanchored match does not take the whole address: {cut[0][0]} is read as {cut[0][1]} (an earlier alternative matches a prefix of what a later one would match): containment is answered for another address", f"cisco_acl/{mod.short}.py", inp=f"Address('host {cut[0][0]}')")
            else:
                rep.ok(f"{mod.short}.{name}", "takes the whole dotted address in an unanchored match (6 witnesses)", where=f"cisco_acl/{mod.short}.py")
    rep.floor(1, "module-level address patterns") if n else rep.note(f"{rid} no module-level pattern constant matches a dotted address")


def members_follow_group_name(ctx: Ctx, rep: Report, rid: str = "R13.9") -> None:
    """The members an address-group reference is judged by belong to the group it NAMES: (a) a reader that stores a new
    group name (`_line_addrgroup`) empties the member list unless the name is the old one; (b) where `Ace.line` hands the
    members of the address that stood at that position before to the address it builds from the new text, the setter
    compares the group names and drops the members when they differ (or looks the members up by name).  Otherwise
    `ace.line = 'permit ip object-group H object-group G'` judges H by the members of G."""
    rep.rule(rid)
    n = 0
    for f in [g for g in ctx.prog.funcs if g.name == "_line_addrgroup" and g.cls is not None]:
        if not any(isinstance(x, ast.Attribute) and isinstance(x.ctx, ast.Store) and src(x.value) == "self" and x.attr == "_addrgroup" for x in own_nodes(f.node)):
            continue
        n += 1
        rep.instance()
        resets = [x for x in own_nodes(f.node) if isinstance(x, ast.Assign) and any(isinstance(t, ast.Attribute) and src(t.value) == "self" and t.attr.lstrip("_") == "items" for t in x.targets) and isinstance(x.value, (ast.List, ast.Call)) and not getattr(x.value, "elts", None) and not getattr(x.value, "args", None)]
        narrowed = None
        if resets:
            # the reset depends on the name comparison alone: `if self._addrgroup and new != self._addrgroup` keeps the
            # members whenever the old name is empty - and the host / prefix / wildcard readers empty the name but keep the
            # members, so group A -> `host ...` -> group B leaves A's members under B's name (seed C13-r7-1).  Judged only
            # in that shape: an `and` of the name comparison with the bare old name, while a sibling reader stores an
            # empty group name without touching the members.
            def old_name(e: ast.AST) -> bool:
                return isinstance(e, ast.Attribute) and src(e.value) == "self" and e.attr.lstrip("_") == "addrgroup"

            par = getattr(resets[0], "_parent", None)
            while par is not None and par is not f.node and narrowed is None:
                if isinstance(par, ast.If) and isinstance(par.test, ast.BoolOp) and isinstance(par.test.op, ast.And) and any(resets[0] is z for b in par.body for z in ast.walk(b)):
                    vals = par.test.values
                    if any(isinstance(v, ast.Compare) and any(old_name(y) for y in ast.walk(v)) for v in vals) and any(old_name(v) for v in vals):
                        siblings = [g for c_ in f.cls.mro for g in c_.methods.values() if g is not f and g.name.startswith("_line")]
                        for g in siblings:
                            clears_name = any(isinstance(x, ast.Assign) and any(old_name(t) for t in x.targets) and isinstance(x.value, ast.Constant) and x.value.value == "" for x in own_nodes(g.node))
                            touches_items = any(isinstance(x, ast.Attribute) and isinstance(x.ctx, ast.Store) and src(x.value) == "self" and x.attr.lstrip("_") == "items" for x in own_nodes(g.node))
                            if clears_name and not touches_items:
                                narrowed = (par, g)
                                break
                par = getattr(par, "_parent", None)
        if narrowed is not None:
            rep.violation(f.qualname, snippet(narrowed[0].test, 60), f"the members are dropped only when the OLD group name is not empty: {narrowed[1].qualname} empties the name and keeps the members, so an address read as group A, then as a host, then as group B is judged by the members of A under the name of B", where(f, narrowed[0]), inp="a = Address('object-group A', items=[...]); a.line = 'host 10.0.0.1'; a.line = 'object-group B'; a.items still A's")
        elif resets:
            rep.ok(f"{f.qualname}", f"a new group name empties the members ({snippet(resets[0], 30)})", where=where(f, resets[0]))
        else:
            rep.violation(f.qualname, "self._addrgroup = <new name>", "the address is re-read under another group name but keeps the member list of the old group: every containment and shadow answer about it is given for the wrong members", where(f), inp="a = Address('object-group G', items=['10.0.0.0 0.0.255.255']); a.line = 'object-group H'; Address('host 10.0.0.5').subnet_of(a) is True")
    f = ctx.prog.find_func("Ace.line.setter")
    if f is not None:
        carries = []
        for c in [x for x in own_nodes(f.node) if isinstance(x, ast.Call)]:
            for k in c.keywords:
                if k.arg == "items" and any(isinstance(z, ast.Attribute) and z.attr.lstrip("_") in ("srcaddr", "dstaddr") and src(z.value) == "self" for z in ast.walk(k.value)):
                    carries.append((c, k.value))
        if carries:
            n += 1
            rep.instance()
            # an equality with the name that stood at THAT position: membership in the pair of old names (`not in
            # {old_src, old_dst}`) keeps the members of the source group for a destination that now names it
            by_name = [x for x in own_nodes(f.node) if isinstance(x, ast.Compare) and len(x.ops) == 1 and isinstance(x.ops[0], (ast.Eq, ast.NotEq)) and sum(1 for y in ast.walk(x) if (isinstance(y, ast.Attribute) and y.attr.lstrip("_") == "addrgroup") or (isinstance(y, ast.Name) and "addrgroup" in y.id)) >= 2]
            looked_up = [x for x in own_nodes(f.node) if (isinstance(x, ast.Subscript) and any(isinstance(y, ast.Attribute) and y.attr.lstrip("_") == "addrgroup" for y in ast.walk(x.slice))) or (isinstance(x, ast.Call) and isinstance(x.func, ast.Attribute) and x.func.attr == "get" and x.args and any(isinstance(y, ast.Attribute) and y.attr.lstrip("_") == "addrgroup" for y in ast.walk(x.args[0])))]
            pooled = [x for x in own_nodes(f.node) if isinstance(x, ast.Compare) and len(x.ops) == 1 and isinstance(x.ops[0], (ast.In, ast.NotIn)) and sum(1 for y in ast.walk(x) if (isinstance(y, ast.Attribute) and y.attr.lstrip("_") == "addrgroup") or (isinstance(y, ast.Name) and "addrgroup" in y.id)) >= 2]
            if pooled and not by_name and not looked_up:
                rep.violation("Ace.line.setter", snippet(pooled[0], 50), "the carried-over members are kept when the new group name is ANY of the old names, not the name that stood at that position: with the two groups swapped in the new text, the source is judged by the members of the old source group although it now names the other group", where(f, pooled[0]), inp="ace.line = 'permit ip object-group DB object-group WEB' on an entry that read '... object-group WEB object-group DB'")
            elif by_name or looked_up:
                rep.ok("Ace.line.setter", f"members carried over from the previous address are kept only for the same group name ({snippet((by_name or looked_up)[0], 40)})", where=where(f, (by_name or looked_up)[0]))
            else:
                rep.violation("Ace.line.setter", f"{snippet(carries[0][0], 30)} items={snippet(carries[0][1], 30)}", "the address built from the new text receives the members of the address that stood at that position before, whatever group the new text names: after `ace.line = ...` with the groups swapped or renamed, containment and shadow answers are given for the members of the other group", where(f, carries[0][0]), inp="ace = acls(cfg)[0].items[0]  # permit ip object-group G object-group H; ace.line = 'permit ip object-group H object-group G'")
    if n == 0:
        rep.note(f"{rid} neither a group-name reader nor a member carry-over recognised - not judged")


def every_member_is_asked(ctx: Ctx, rep: Report, rid: str = "R13.10") -> None:
    """`x in group` is True exactly when SOME member contains x - whatever the order of the members.  A loop over the
    members that can end with a positive answer (`return True`, `break`) does not let an error about one member leave
    before the others were asked: no `raise` in that loop, and the member test `x in item` (which raises TypeError for a
    member that cannot be asked: a non-contiguous wildcard, a nested group) stands inside a `try`.  Otherwise the same
    group answers True with the containing member first and raises with it second."""
    rep.rule(rid)
    n = 0
    scope = []
    for q in ("AddrGroup.__contains__", "AddressBase.__contains__"):
        f = ctx.prog.find_func(q)
        if f is None:
            continue
        scope.append(f)
        # the private methods it asks, transitively (`__contains__` -> `_covers` -> `_in_any_item`)
        work = [f]
        while work:
            h_ = work.pop()
            for x in own_nodes(h_.node):
                if isinstance(x, ast.Call) and isinstance(x.func, ast.Attribute) and src(x.func.value) == "self" and x.func.attr.startswith("_") and f.cls is not None:
                    g = f.cls.lookup_method(x.func.attr)
                    if g is not None and g not in scope:
                        scope.append(g)
                        work.append(g)
    for f in scope:
        for lp in [x for x in own_nodes(f.node) if isinstance(x, ast.For) and isinstance(x.target, ast.Name) and isinstance(x.iter, ast.Attribute) and x.iter.attr.lstrip("_") == "items" and src(x.iter.value) == "self"]:
            var = lp.target.id
            body_nodes = [y for b in lp.body for y in ast.walk(b)]
            positive = [y for y in body_nodes if (isinstance(y, ast.Return) and isinstance(y.value, ast.Constant) and y.value.value is True) or isinstance(y, ast.Break)]
            if not positive:
                continue
            n += 1
            rep.instance()
            in_try = {id(z) for y in body_nodes if isinstance(y, ast.Try) for b in y.body for z in ast.walk(b)}
            raises = [y for y in body_nodes if isinstance(y, ast.Raise) and id(y) not in in_try and not _in_handler(y, lp)]
            asks = [y for y in body_nodes if isinstance(y, ast.Compare) and len(y.ops) == 1 and isinstance(y.ops[0], ast.In) and src(y.comparators[0]) == var and id(y) not in in_try]
            bad = raises or asks
            if bad:
                what = "raises inside the loop" if raises else f"asks `{snippet(asks[0], 30)}` outside a try"
                rep.violation(f.qualname, f"for {var} in {snippet(lp.iter, 20)}: {snippet(bad[0], 50)}", f"the loop over the members can answer True and {what}: a member that cannot be asked (TypeError) standing BEFORE the member that contains the address hides the positive answer - the result depends on the order of the members", where(f, bad[0]), inp="AddressAg('host 10.0.0.1') in AddrGroup(items=['20.0.0.0 0.0.3.3', '10.0.0.0/8'], platform='nxos')  # TypeError; with the members swapped: True")
            else:
                # ... and an error that was caught is not turned into "no": after the loop it is raised whenever ANY member
                # could not be asked (a member that refuses the question may be the one that contains the address)
                caught = set()
                for y in body_nodes:
                    if isinstance(y, ast.ExceptHandler):
                        for z in [w for b in y.body for w in ast.walk(b)]:
                            if isinstance(z, ast.Assign) and isinstance(z.targets[0], ast.Name):
                                caught.add(z.targets[0].id)
                            if isinstance(z, ast.Call) and isinstance(z.func, ast.Attribute) and z.func.attr in ("append", "add") and isinstance(z.func.value, ast.Name):
                                caught.add(z.func.value.id)
                after = []
                seen_lp = False
                for st in own_nodes(f.node):
                    if st is lp:
                        seen_lp = True
                    elif seen_lp and isinstance(st, ast.If) and getattr(st, "lineno", 0) > getattr(lp, "end_lineno", 0) and any(isinstance(r, ast.Raise) for r in st.body):
                        after.append(st)
                weak = [st for st in after if caught and any(isinstance(z, ast.Name) and z.id in caught for z in ast.walk(st.test)) and not (isinstance(st.test, ast.Name) or (isinstance(st.test, ast.UnaryOp)))]
                if caught and weak:
                    rep.violation(f.qualname, f"if {snippet(weak[0].test, 50)}: raise", "the error of a member that could not be asked is raised only under a further condition (all members refused): with one askable member the answer is a definite False although the member that refused may contain the address - 'in' answers no for an address that is in the group", where(f, weak[0]), inp="AddressAg('10.0.1.1/32') in AddrGroup(items=['10.0.0.0 0.0.3.3', '20.0.0.0/24'], platform='nxos')  -> False (should raise TypeError, as for the one-member group)")
                else:
                    rep.ok(f"{f.qualname}: for {var} in {snippet(lp.iter, 20)}", "every member is asked before an error about one of them may leave", where=where(f, lp))
    if n == 0:
        rep.note(f"{rid} no member loop with a positive exit in the containment operators - not judged")


def _in_handler(y: ast.AST, top: ast.AST) -> bool:
    p = getattr(y, "_parent", None)
    while p is not None and p is not top:
        if isinstance(p, ast.ExceptHandler):
            return True
        p = getattr(p, "_parent", None)
    return False


def run(ctx: Ctx, rep: Report, tier: str) -> None:
    list_level(ctx, rep)
    every_member_is_asked(ctx, rep)
    address_patterns_whole(ctx, rep)
    members_follow_group_name(ctx, rep)
    rep.rule("R13.3")
    n = 0
    for q in ("AddressBase.__contains__", "AddrGroup.__contains__"):
        if ctx.prog.find_func(q) is not None:
            containment_operator(ctx, rep, q)
            n += 1
    rep.require(n == 2, "the containment operators of AddressBase / AddrGroup vanished")
    # R13.4 the networks the tests run over are the members' own: nobody changes a member's memo list in place (C05 R05.9)
    from .c05 import r05_9

    sub = Report("C13")
    r05_9(ctx, sub, rid="R05.9")
    rep.absorb(sub, "R13.4")
    # R13.11 ... and no caller can: the memo list is never handed out itself (C05 R05.14)
    from .c05 import memo_not_handed_out

    memo_not_handed_out(ctx, rep, rid="R13.11")
    # R13.12 a refused line leaves the address (its kind, its group name, its networks) as it was (C05 R05.17)
    from .c05 import rejected_address_changes_nothing

    rejected_address_changes_nothing(ctx, rep, rid="R13.12")
    # R13.5 the network list of a group is complete (C05 R05.12)
    from .c05 import expansion_covers_members

    sub = Report("C13")
    expansion_covers_members(ctx, sub)
    rep.absorb(sub, "R13.5")
    # R13.6 the network lists are those of the objects as they are now: every memo is reset by every writer (C05 R05.1)
    from .c05 import memo_rules

    sub = Report("C13")
    memo_rules(ctx, sub, rid="R05.1")
    from .c17 import r17_2

    r17_2(ctx, sub)  # ... and no cache outside the objects hands one address the networks of another
    rep.absorb(sub, "R13.6")
    # R13.8 the members a group is judged by are the members its text names: parsed under the group's own limit (C05
    # R05.6: a member refused under the default limit is silently left out), attached from the group of that very name (C07 R07.1)
    from .c05 import r05_6
    from .c07 import r07_1

    sub = Report("C13")
    r05_6(ctx, sub)
    r07_1(ctx, sub)
    rep.absorb(sub, "R13.8")
    rep.rule("R13.3")
    rep.floor(6, "elementary tests and loops of the containment operators")


# what the later rounds (seeding rounds 2-5, refactor twins, defect hunt) added to what the check decides
LATER_ROUNDS = "members follow the group name, every member is asked before an error about one of them may leave, the memo list is never handed out, a refused address line changes nothing, no cache outside the objects"
EXPLANATION = EXPLANATION.replace(" Does not decide", " Later rounds added: " + LATER_ROUNDS + ". Does not decide", 1) if " Does not decide" in EXPLANATION else EXPLANATION + " Later rounds added: " + LATER_ROUNDS + "."
