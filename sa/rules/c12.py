"""C12 No rule line is lost without a trace — error discipline of the text builders."""

from __future__ import annotations

import ast
from typing import Dict, List, Optional, Set, Tuple

from ..cfg import Node, exc_is_subclass, handler_classes
from ..core import Ctx, Report, snippet, where
from ..fold import known
from ..model import Func, own_nodes, src
from ..pathsem import function_paths, resolve_local
from .common import chain, deep_resolve, loop_body_paths, mentions, names_in, order_of

PROPERTY = "C12"
LEVEL = "other"
EXPLANATION = (
    "Decides, for Acl(line=), AceGroup(line=), AddrGroup(line=/items=): on every path a body line ends as an item, or "
    "matches one of the three documented ignorable prefixes, or passes a log call whose message contains the line, or "
    "an exception escapes; handlers catch exactly ValueError/NetmaskValueError and every handler that can skip a line "
    "logs it; the builders ask for warnings; item order equals line order with at most one item per line; the action "
    "vocabulary of the line classifier equals ACTIONS. Does not decide that a *valid* line is never rejected by the "
    "ACE parser (C01/C20 territory)."
)
ASSUMPTIONS = ["logging.warning/debug emit a record (handlers/levels are the user's configuration)"]

TRIAGED_HANDLER_CLASSES = {"ValueError", "NetmaskValueError"}
DOCUMENTED_SKIPS = {"statistics ", "description ", "ignore "}
LOG_WARN = {"warning", "error", "critical", "exception"}
LOG_ANY = LOG_WARN | {"info", "debug", "log"}


def _log_calls(node_ast: ast.AST) -> List[ast.Call]:
    out = []
    for x in ast.walk(node_ast):
        if isinstance(x, ast.Call) and isinstance(x.func, ast.Attribute) and isinstance(x.func.value, ast.Name) and x.func.value.id in ("logging", "logger", "log"):
            out.append(x)
    return out


def _path_logs(path, env: Dict[str, ast.AST], names: Set[str], levels: Set[str]) -> Optional[ast.Call]:
    """A logging call on the path whose message (locals resolved) mentions one of `names`."""
    for node, lab in path:
        if node.ast is None or node.kind != "stmt":
            continue
        for c in _log_calls(node.ast):
            if c.func.attr not in levels:
                continue
            for a in list(c.args) + [k.value for k in c.keywords]:
                if _names_closure(a, env) & names:
                    return c
    return None


def _names_closure(expr: ast.AST, env: Dict[str, ast.AST]) -> Set[str]:
    """Names in expr plus, transitively, the names their path bindings are built from."""
    seen: Set[str] = set()
    work = list(names_in(expr))
    while work:
        n = work.pop()
        if n in seen:
            continue
        seen.add(n)
        if n in env:
            work.extend(names_in(env[n]))
    return seen


def r12_1(ctx: Ctx, rep: Report) -> None:
    rep.rule("R12.1")
    f = ctx.func("AceGroup._line_to_oace")
    rep.require("warning" in f.params and "line" in f.params, "AceGroup._line_to_oace lost its line/warning parameters")
    cfg = ctx.cfg(f, {"warning": True})
    paths = function_paths(cfg)
    rep.instance(len(paths))
    rep.floor(4, "paths of _line_to_oace under warning=True")
    skip_lists: Set[str] = set()
    for p in paths:
        if p.raises:
            rep.ok("_line_to_oace: raising path", "the construction fails with an error", nontrivial=False, where=where(f))
            continue
        r = p.ret
        is_none = r is None or (isinstance(r, ast.Constant) and r.value is None)
        empty_line = any(src(t) == "line" and not truth for t, truth in p.atoms)
        if not is_none:
            rr = deep_resolve(r, p.env)
            built = rr is not None and any(isinstance(x, ast.Call) and "line" in {a.id for a in ast.walk(x) if isinstance(a, ast.Name)} for x in ast.walk(rr))
            if built:
                rep.ok(f"_line_to_oace: return {snippet(r, 40)}", f"object built from the line ({snippet(rr, 50)})", where=where(f))
            else:
                rep.violation(f.qualname, f"return {snippet(r)}", "the returned object is not built from the line", where(f))
            continue
        if empty_line:
            rep.ok("_line_to_oace: empty line", "returns None (nothing to account for)", nontrivial=False, where=where(f))
            continue
        log = _path_logs(p.nodes, p.env, {"line"}, LOG_WARN)
        skipped = None
        for t, truth in p.atoms:
            if truth and isinstance(t, ast.Call) and isinstance(t.func, ast.Attribute) and t.func.attr == "startswith" and src(t.func.value) == "line":
                skipped = t
            elif truth and (isinstance(t, ast.Name) and t.id in p.env or isinstance(t, ast.Call) and isinstance(t.func, ast.Name) and t.func.id == "any"):
                # is_known = any(line.startswith(s) for s in known_skip) / line.startswith(tuple_of_prefixes); also as the test itself
                rt = deep_resolve(t, p.env) if isinstance(t, ast.Name) else t
                inner = rt
                if isinstance(rt, ast.Call) and isinstance(rt.func, ast.Name) and rt.func.id == "any" and len(rt.args) == 1 and isinstance(rt.args[0], (ast.GeneratorExp, ast.ListComp)):
                    inner = rt.args[0].elt
                if isinstance(inner, ast.Call) and isinstance(inner.func, ast.Attribute) and inner.func.attr == "startswith" and src(inner.func.value) == "line":
                    skipped = inner
        if log is not None:
            rep.ok(f"_line_to_oace: None after {snippet(log, 40)}", "the dropped line is named in a warning record", where=where(f, log))
        elif skipped is not None:
            # the prefix must come from the documented list (checked in R12.6)
            arg = skipped.args[0] if skipped.args else None
            rep.ok(f"_line_to_oace: None after line.startswith({snippet(arg) if arg is not None else ''})", "documented ignorable prefix", where=where(f, skipped))
        else:
            atoms = "; ".join(f"{snippet(t, 30)}={'T' if tr else 'F'}" for t, tr in p.atoms)
            rep.violation(
                f.qualname,
                f"return None on path [{atoms}]",
                "a non-empty line is dropped on a path with no warning record that names it and no documented ignorable prefix",
                where(f),
                path=[repr(n) for n, _ in p.nodes],
                inp='Acl("ip access-list extended A\\n permit ip any any\\n permit foo bar")',
            )


def r12_2(ctx: Ctx, rep: Report) -> None:
    rep.rule("R12.2")
    target = ctx.func("AceGroup._line_to_oace")
    widx = target.params.index("warning") - 1
    n = 0
    for q in ("Acl.line.setter", "AceGroup.line.setter"):
        f = ctx.func(q)
        calls = [e.site for e in ctx.cg.all_edges(f) if e.target is target and isinstance(e.site, ast.Call)]
        calls = list({id(c): c for c in calls}.values())
        if not calls:
            rep.instance()
            rep.violation(q, "line -> item conversion", "the builder no longer converts body lines through _line_to_oace (the reporting converter)", where(f))
            continue
        for c in calls:
            n += 1
            rep.instance()
            val = None
            for k in c.keywords:
                if k.arg == "warning":
                    val = k.value
            if val is None and widx < len(c.args):
                val = c.args[widx]
            if isinstance(val, ast.Constant) and val.value is True:
                rep.ok(f"{q}: {snippet(c, 50)}", "asks for a warning on dropped lines", where=where(f, c))
            else:
                rep.violation(q, snippet(c), "the builder does not ask for warnings: invalid lines vanish silently", where(f, c), inp='Acl("ip access-list extended A\\n permit foo bar")')
    rep.floor(2, "builder calls of _line_to_oace")


def r12_3(ctx: Ctx, rep: Report) -> None:  # noqa: C901
    rep.rule("R12.3")
    count = 0
    # what is reachable from building objects out of text (constructors, line setters, config-level functions): a handler in
    # a query on finished objects (`x in group`) drops no line
    from .c20 import slice_funcs

    _entries, builders = slice_funcs(ctx)
    for f in ctx.prog.funcs:
        if f not in builders:
            continue
        for t in own_nodes(f.node):
            if not isinstance(t, ast.Try):
                continue
            for hi, h in enumerate(t.handlers):
                count += 1
                rep.instance()
                classes = handler_classes(h)
                label = f"except {', '.join(classes) or '<bare>'}"
                wide = [c for c in classes if c not in TRIAGED_HANDLER_CLASSES]
                if not classes or wide:
                    rep.violation(f.qualname, label, "handler widened beyond the triaged ValueError/NetmaskValueError: programming errors are swallowed and lines disappear", where(f, h))
                    continue
                # order: a narrower re-raising handler must come before the wider one
                for later in t.handlers[hi + 1 :]:
                    for lc in handler_classes(later):
                        if any(exc_is_subclass(lc, c) and lc != c for c in classes):
                            rep.violation(f.qualname, f"{label} before except {lc}", "the wider handler shadows the narrower one", where(f, h))
                body = [s for s in h.body]
                leaves = [x for s in body for x in ast.walk(s) if isinstance(x, (ast.Continue, ast.Break, ast.Return))]
                always_raise = isinstance(body[-1], ast.Raise) and not leaves
                if always_raise:
                    rep.ok(f"{f.qualname}: {label}", "re-raises", where=where(f, h))
                    continue
                if not leaves:
                    # conversion handler: construction of the same object continues
                    cond_raise = any(isinstance(x, ast.Raise) for s in body for x in ast.walk(s))
                    rep.ok(f"{f.qualname}: {label}", "conversion (no line is skipped)" + ("; re-raises what it cannot convert" if cond_raise else ""), nontrivial=False, where=where(f, h))
                    continue
                # drop handler: must log the item, or every caller reports the sentinel
                names = set()
                for s in t.body:
                    for x in ast.walk(s):
                        if isinstance(x, ast.Call):
                            for a in list(x.args) + [k.value for k in x.keywords]:
                                names |= names_in(a)
                names -= {"self"}
                logged = None
                env: Dict[str, ast.AST] = {}
                for s in body:
                    for x in ast.walk(s):
                        if isinstance(x, ast.Assign) and isinstance(x.targets[0], ast.Name):
                            env[x.targets[0].id] = x.value
                uncond = True
                for s in body:
                    for c in _log_calls(s):
                        for a in list(c.args) + [k.value for k in c.keywords]:
                            if _names_closure(a, env) & names:
                                logged = c
                                # the log call must not be guarded by anything but a parameter specialised to True
                                par = getattr(c, "_parent", None)
                                while par is not None and par is not h:
                                    if isinstance(par, ast.If) and not (isinstance(par.test, ast.Name) and par.test.id == "warning"):
                                        uncond = False
                                    par = getattr(par, "_parent", None)
                if logged is not None and uncond:
                    rep.ok(f"{f.qualname}: {label}", f"skips the item after {snippet(logged, 40)} naming it", where=where(f, h))
                    continue
                # sentinel return whose callers report
                rets = [x for x in leaves if isinstance(x, ast.Return)]
                if rets and all(x.value is None or (isinstance(x.value, ast.Constant) and x.value.value is None) for x in rets) and len(rets) == len(leaves):
                    callers_ok, detail = _callers_report(ctx, f)
                    if callers_ok:
                        rep.ok(f"{f.qualname}: {label}", f"returns None; {detail}", where=where(f, h))
                        continue
                    rep.violation(f.qualname, label, f"the handler drops the item by returning None and {detail}", where(f, h))
                    continue
                rep.violation(f.qualname, label, "the handler skips the current line/member without a log record that names it", where(f, h), inp="a body line with an invalid address")
    rep.floor(5, "exception handlers in the package")


def _falsy_atom(t: ast.AST, truth: bool, var: str) -> bool:
    """The atom establishes that `var` is None/falsy: `var` false, `var is None` true, `var is not None` false, `var == None`."""
    if src(t) == var:
        return not truth
    if isinstance(t, ast.Compare) and len(t.ops) == 1 and src(t.left) == var and isinstance(t.comparators[0], ast.Constant) and t.comparators[0].value is None:
        if isinstance(t.ops[0], (ast.Is, ast.Eq)):
            return truth
        if isinstance(t.ops[0], (ast.IsNot, ast.NotEq)):
            return not truth
    return False


def _callers_report(ctx: Ctx, g: Func) -> Tuple[bool, str]:
    """Every caller of g logs (naming its argument) or raises on the path where g's result is falsy."""
    callers = []
    for f in ctx.prog.funcs:
        for e in ctx.cg.all_edges(f):
            if e.target is g and isinstance(e.site, ast.Call) and not e.weak:
                callers.append((f, e.site))
    if not callers:
        return False, "no caller found that could report it"
    for f, call in callers:
        cfg = ctx.cfg(f)
        node = cfg.node_containing(call)
        if node is None or not isinstance(node.ast, (ast.Assign, ast.AnnAssign)):
            return False, f"{f.qualname} does not keep the result to test it"
        tgt = node.ast.targets[0] if isinstance(node.ast, ast.Assign) else node.ast.target
        if not isinstance(tgt, ast.Name):
            return False, f"{f.qualname} does not keep the result in a local"
        var = tgt.id
        # the result is kept as data (None is a value: "no single network"), not used to skip anything
        if any(isinstance(n, ast.Assign) and isinstance(n.value, ast.Name) and n.value.id == var and any(isinstance(t, ast.Attribute) and src(t.value) == "self" for t in n.targets) for n in own_nodes(f.node)) and not any(isinstance(n, (ast.Continue, ast.Break)) for n in own_nodes(f.node)):
            continue
        argnames = set()
        for a in list(call.args) + [k.value for k in call.keywords]:
            argnames |= names_in(a)
        ok = False
        for p in function_paths(cfg):
            falsy = any(_falsy_atom(t, truth, var) for t, truth in p.atoms)
            if not falsy:
                continue
            if p.raises or _path_logs(p.nodes, p.env, argnames, LOG_ANY) is not None:
                ok = True
            else:
                return False, f"{f.qualname} continues silently when the result is None"
        if not ok:
            return False, f"{f.qualname} never tests the result"
    return True, "every caller logs the item when the result is None, or keeps None as a value of the object (" + ", ".join(sorted({f.qualname for f, _ in callers})) + ")"


def r12_4(ctx: Ctx, rep: Report) -> None:
    rep.rule("R12.4")
    for q, param in (("Acl.line.setter", "line"), ("AceGroup.line.setter", "line"), ("AddrGroup.line.setter", "line"), ("AddrGroup.items.setter", "items"), ("AceGroup.items.setter", "items"), ("Acl.items.setter", "items")):
        f = ctx.func(q)
        stores = []
        for n in own_nodes(f.node):
            if isinstance(n, ast.Assign):
                for t in n.targets:
                    if isinstance(t, ast.Attribute) and src(t.value) == "self" and t.attr in ("items", "_items"):
                        stores.append(n)
        rep.instance()
        if not stores:
            rep.violation(q, "self.items = ...", "the builder never stores the parsed items", where(f))
            continue
        st = stores[-1]
        state, why = order_of(ctx, f, st.value)
        if state == f"ordered:{param}":
            rep.ok(f"{q}: {snippet(st, 50)}", f"same order as the input ({why})", where=where(f, st))
        elif state.startswith("ordered:"):
            rep.violation(q, snippet(st), f"the stored items follow {state.split(':', 1)[1]}, not the input {param}", where(f, st))
        else:
            rep.violation(q, snippet(st), f"item order is not line order: {state} ({why})", where(f, st), inp="lines in non-sorted order")
        # at most one element per input line: each loop iteration appends at most once
        cfg = ctx.cfg(f)
        acc = src(st.value) if isinstance(st.value, ast.Name) else None
        if acc:
            for loop in [n for n in cfg.live if n.kind == "for"]:
                worst = 0
                for path in loop_body_paths(cfg, loop):
                    k = 0
                    for node, lab in path:
                        if node.kind == "stmt" and node.ast is not None:
                            for x in ast.walk(node.ast):
                                if isinstance(x, ast.Call) and isinstance(x.func, ast.Attribute) and x.func.attr in ("append", "extend", "insert") and src(x.func.value) == acc:
                                    k += 1
                    worst = max(worst, k)
                if worst > 1:
                    rep.violation(q, f"{acc}.append(...) x{worst} in one iteration", "a line can contribute more than one item", where(f))


def accumulator_only_grows(ctx: Ctx, rep: Report, rid: str = "R12.11") -> None:
    """What a builder has collected for one line is not taken back because of a later line: the list that becomes the
    items only grows (no pop / remove / del / clear / slice assignment)."""
    rep.rule(rid)
    n = 0
    for q in ("Acl.line.setter", "AceGroup.line.setter", "AddrGroup.line.setter", "AddrGroup.items.setter", "AceGroup.items.setter", "Acl.items.setter"):
        f = ctx.func(q)
        acc = _accumulator(f)
        if acc is None:
            continue
        n += 1
        rep.instance()
        bad = None
        for x in own_nodes(f.node):
            if isinstance(x, ast.Call) and isinstance(x.func, ast.Attribute) and src(x.func.value) == acc and x.func.attr in ("pop", "remove", "clear", "reverse", "sort"):
                bad = bad or x
            if isinstance(x, ast.Delete) and any(isinstance(t, ast.Subscript) and src(t.value) == acc for t in x.targets):
                bad = bad or x
            if isinstance(x, ast.Assign) and any(isinstance(t, ast.Subscript) and src(t.value) == acc for t in x.targets):
                bad = bad or x
        if bad is not None:
            rep.violation(q, snippet(bad), f"an item already collected in `{acc}` is taken out again: a valid line before an invalid one disappears without a trace", where(f, bad), inp="a remark directly above an unparsable permit line")
        else:
            rep.ok(f"{q}: `{acc}`", "only grows", where=where(f))
    rep.floor(2, "builders with an accumulator") if n else None


def no_dedup_collection(ctx: Ctx, rep: Report, rid: str = "R12.12") -> None:
    """Parsed lines are collected with list operations: the set-like `Group.add` / `Group.update` (which skip an item
    equal to one already there - equality is the rendered text) are for the user, package code that collects lines does
    not call them (two identical lines of a configuration are two entries)."""
    rep.rule(rid)
    grp = ctx.prog.classes.get("Group")
    rep.require(grp is not None, "class Group vanished")
    dedup = [m for m in grp.methods.values() if any(isinstance(x, ast.Compare) and len(x.ops) == 1 and isinstance(x.ops[0], ast.NotIn) and "items" in src(x.comparators[0]) for x in own_nodes(m.node))]
    changed = True
    while changed:
        changed = False
        for m in grp.methods.values():
            if m in dedup:
                continue
            if any(e.target in dedup and not e.weak for e in ctx.cg.all_edges(m)):
                dedup.append(m)
                changed = True
    names = {m.name for m in dedup}
    rep.instance()
    rep.require(bool(dedup), "Group lost its set-like add (the rule has nothing to protect)")
    bad = []
    for f in ctx.prog.funcs:
        if f.cls is grp:
            continue
        for e in ctx.cg.all_edges(f):
            if e.kind == "call" and not e.weak and e.target in dedup and isinstance(e.site, ast.Call):
                bad.append((f, e.site))
        # unresolved receivers: `<x>.add(item)` / `.update(items)` on something that is not a set/dict literal-bound local
    if bad:
        f, c = bad[0]
        rep.violation(f.qualname, snippet(c), f"entries are collected through the de-duplicating Group.{'/'.join(sorted(names))}: a line equal to an earlier one (a repeated separator remark, 'eq 53' next to 'eq domain') is dropped without a trace", where(f, c), inp="two identical remark lines in one ACL section")
    else:
        rep.ok("package", f"no package code outside Group calls the set-like {sorted(names)}", where="cisco_acl/group.py")


def classifier_ignores_values(ctx: Ctx, rep: Report, rid: str = "R12.13") -> None:
    """The line classifier tells rule lines from other lines by their keywords; a number in front is a sequence number
    whatever its value: no negative answer depends on a comparison of that number (every number a sequence setter
    accepts, 0..SEQUENCE_MAX, must pass)."""
    from ..intervals import IntSet, NotInterval, cond_to_intset

    rep.rule(rid)
    f = ctx.func("helpers.is_line_for_acl")
    cfg = ctx.cfg(f)
    smax = ctx.folder.const("helpers", "SEQUENCE_MAX")
    accepted = IntSet([(0, int(smax))])
    n = 0
    for c in cfg.live:
        if c.kind != "cond" or c.ast is None:
            continue
        if not any(isinstance(x, ast.Call) and isinstance(x.func, ast.Name) and x.func.id == "int" for x in ast.walk(c.ast)):
            continue
        n += 1
        rep.instance()
        try:
            held = cond_to_intset(c.ast, lambda x: isinstance(x, ast.Call) and isinstance(x.func, ast.Name) and x.func.id == "int", lambda x: ctx.folder.fold(x, f.module))
        except NotInterval:
            rep.violation("helpers.is_line_for_acl", snippet(c.ast), "a numeric test of the leading number that cannot be read as an interval stands in the classifier", where(f, c.ast))
            continue
        for lab, rejected in (("T", held), ("F", held.complement())):
            succ = c.succs(lab)
            falsy = [s for s in succ if s.kind == "stmt" and isinstance(s.ast, ast.Return) and isinstance(s.ast.value, ast.Constant) and not s.ast.value.value]
            if falsy:
                lost = rejected.intersect(accepted)
                if lost.ivs:
                    rep.violation("helpers.is_line_for_acl", snippet(c.ast), f"lines whose sequence number is in {lost} are classified as 'not a rule line' and dropped, although the sequence setters accept these numbers", where(f, c.ast), inp=f"'{int(smax)} permit ip any any'")
                else:
                    rep.ok(f"helpers.is_line_for_acl: {snippet(c.ast, 40)}", "rejects no acceptable sequence number", where=where(f, c.ast))
    rep.instance()
    if n == 0:
        rep.ok("helpers.is_line_for_acl", "no answer depends on the value of the leading number", nontrivial=False, where=where(f))


def _accumulator(f: Func) -> Optional[str]:
    """Local list that receives `.append(...)` in the function and occurs in the value stored to self.items."""
    appended = {src(n.func.value) for n in own_nodes(f.node) if isinstance(n, ast.Call) and isinstance(n.func, ast.Attribute) and n.func.attr == "append" and isinstance(n.func.value, ast.Name)}
    for n in own_nodes(f.node):
        if isinstance(n, ast.Assign):
            for t in n.targets:
                if isinstance(t, ast.Attribute) and src(t.value) == "self" and t.attr in ("items", "_items"):
                    for nm in names_in(n.value):
                        if nm in appended:
                            return nm
                    # no append anywhere: the stored local itself, when it is built by a comprehension
                    if not appended and isinstance(n.value, ast.Name):
                        for d in own_nodes(f.node):
                            if isinstance(d, (ast.Assign, ast.AnnAssign)) and getattr(d, "value", None) is not None and isinstance(d.value, (ast.ListComp, ast.GeneratorExp)) and any(isinstance(t2, ast.Name) and t2.id == n.value.id for t2 in (d.targets if isinstance(d, ast.Assign) else [d.target])):
                                return n.value.id
    return None


ALLOWED_LINE_FILTERS = "truthiness of the element, isinstance(element, ...), `element is not None`"


def line_filters(ctx: Ctx, rep: Report) -> None:
    """R12.7: between the text and the item list, lines are filtered only by emptiness / 'parser returned no object'."""
    rep.rule("R12.7")
    n = 0
    for q in ("helpers.lines_wo_spaces", "Acl.line.setter", "AceGroup.line.setter", "AddrGroup.line.setter"):
        f = ctx.func(q)
        for x in own_nodes(f.node):
            if isinstance(x, (ast.ListComp, ast.GeneratorExp, ast.SetComp)):
                for g in x.generators:
                    tv = src(g.target)
                    for c in g.ifs:
                        n += 1
                        ok = src(c) == tv
                        if isinstance(c, ast.Call) and src(c.func) == "isinstance" and c.args and src(c.args[0]) == tv:
                            ok = True
                        if isinstance(c, ast.Compare) and src(c.left) == tv and isinstance(c.ops[0], ast.IsNot) and isinstance(c.comparators[0], ast.Constant) and c.comparators[0].value is None:
                            ok = True
                        # flattening of the report values etc. (no line variable involved) is not a line filter
                        if ok:
                            rep.ok(f"{q}: filter `{snippet(c, 40)}`", "drops only empty lines / lines for which no object was built", nontrivial=False, where=where(f, c))
                        else:
                            rep.violation(q, f"filter `{snippet(c)}`", f"body lines are filtered by a condition other than {ALLOWED_LINE_FILTERS}: they vanish before the per-line reporting can name them", where(f, c), inp="a body line starting with the filtered pattern")
    rep.instance(n)
    rep.floor(2, "comprehension filters between text and items")


def every_line_converted(ctx: Ctx, rep: Report, rid: str = "R12.8") -> None:
    """Between the text and the item list no body line is passed over: the loop (or comprehension) over the lines hands
    every line to the reporting converter `_line_to_oace` - it is not left early (`break`), no iteration skips the
    converter without a log record, and the list is not shortened by slicing unless the removed head is the header that
    `_parse_type_name` reads."""
    rep.rule(rid)
    conv = "_line_to_oace"
    for q in ("Acl.line.setter", "AceGroup.line.setter"):
        f = ctx.func(q)
        cfg = ctx.cfg(f)
        rep.instance()
        # names that hold the list of lines
        lines_vars: Set[str] = set()
        changed = True
        while changed:
            changed = False
            for n in own_nodes(f.node):
                if not isinstance(n, (ast.Assign, ast.AnnAssign)) or getattr(n, "value", None) is None:
                    continue
                tg = n.targets[0] if isinstance(n, ast.Assign) else n.target
                v = n.value
                names = []
                if isinstance(tg, ast.Name):
                    names = [tg.id]
                elif isinstance(tg, ast.Tuple):
                    names = [e.value.id for e in tg.elts if isinstance(e, ast.Starred) and isinstance(e.value, ast.Name)]
                is_src = any(isinstance(c_, ast.Call) and (src(c_.func).endswith("lines_wo_spaces") or (isinstance(c_.func, ast.Attribute) and c_.func.attr in ("split", "splitlines") and mentions(c_.func.value, f.params[1]))) for c_ in ast.walk(v))
                derived = any(isinstance(x, ast.Name) and x.id in lines_vars for x in ast.walk(v))
                if (is_src or derived) and not (isinstance(v, ast.Call) and conv in src(v.func)) and not any(isinstance(x, ast.Call) and conv in src(x.func) for x in ast.walk(v)):
                    for nm in names:
                        if nm not in lines_vars:
                            lines_vars.add(nm)
                            changed = True
        problems: List[Tuple[ast.AST, str]] = []
        converted = False
        # loops over the lines
        for lp in [n for n in cfg.live if n.kind == "for" and any(isinstance(x, ast.Name) and x.id in lines_vars for x in ast.walk(n.ast.iter))]:
            var = src(lp.ast.target)
            rebound = [x for b in lp.ast.body for x in ast.walk(b) if isinstance(x, ast.Name) and x.id == var and isinstance(x.ctx, ast.Store)]
            if rebound:
                par = rebound[0]
                while getattr(par, "_parent", None) is not None and not isinstance(par, ast.stmt):
                    par = par._parent
                problems.append((par, f"the line variable `{var}` is re-bound inside the loop before the line is converted: what the converter (and its warning) sees is not the line of the text"))
            for path in loop_body_paths(cfg, lp):
                end = path[-1][0]
                if end is cfg.raise_exit:
                    continue
                calls_conv = any(nd.ast is not None and nd.kind in ("stmt", "cond") and any(isinstance(x, ast.Call) and conv in src(x.func) and any(mentions(a, var) for a in list(x.args) + [k.value for k in x.keywords]) for x in ast.walk(nd.ast)) for nd, _ in path)
                if calls_conv:
                    converted = True
                if end is not lp:
                    brk = next((nd.ast for nd, _ in path if nd.kind == "stmt" and isinstance(nd.ast, (ast.Break, ast.Return))), lp.ast)
                    problems.append((brk, f"the loop over the lines is left early ({snippet(brk, 30)}): every line after this one is never looked at and nothing reports it"))
                elif not calls_conv:
                    env: Dict[str, ast.AST] = {}
                    if _path_logs(path, env, {var}, LOG_ANY) is None:
                        atoms = "; ".join(f"{snippet(nd.ast, 30)}={lab}" for nd, lab in path if nd.kind == "cond")
                        problems.append((lp.ast, f"an iteration [{atoms}] neither converts the line through {conv} nor logs it"))
        def _head_read(base: str) -> bool:
            return any(isinstance(x, ast.Call) and "_parse_type_name" in src(x.func) and any(src(a).startswith(f"{base}[0]") for a in x.args) for x in own_nodes(f.node))

        def _tail_of_lines(e: ast.AST) -> Optional[str]:
            """`X[1:]` with X a list of the lines -> X."""
            if isinstance(e, ast.Subscript) and isinstance(e.slice, ast.Slice) and isinstance(e.value, ast.Name) and e.value.id in lines_vars:
                sl = e.slice
                if sl.upper is None and sl.step is None and isinstance(sl.lower, ast.Constant) and sl.lower.value == 1:
                    return e.value.id
            return None

        # comprehensions over the lines (or over the lines after the header that _parse_type_name reads)
        for n in own_nodes(f.node):
            if isinstance(n, (ast.ListComp, ast.GeneratorExp)):
                for g in n.generators:
                    over_all = isinstance(g.iter, ast.Name) and g.iter.id in lines_vars
                    tail = _tail_of_lines(g.iter)
                    if (over_all or (tail and _head_read(tail))) and any(isinstance(x, ast.Call) and conv in src(x.func) for x in ast.walk(n.elt)):
                        converted = True
                    elif isinstance(g.iter, ast.Subscript) and isinstance(g.iter.value, ast.Name) and g.iter.value.id in lines_vars and any(isinstance(x, ast.Call) and conv in src(x.func) for x in ast.walk(n.elt)):
                        problems.append((n, f"only the part {snippet(g.iter)} of the lines is converted: the rest vanishes without a warning"))
                        converted = True
        # shortening by slicing
        for n in own_nodes(f.node):
            if isinstance(n, (ast.Assign, ast.AnnAssign)) and isinstance(getattr(n, "value", None), ast.Subscript) and isinstance(n.value.slice, ast.Slice) and isinstance(n.value.value, ast.Name) and n.value.value.id in lines_vars:
                base = n.value.value.id
                head_read = _head_read(base)
                sl = n.value.slice
                only_head = sl.upper is None and sl.step is None and isinstance(sl.lower, ast.Constant) and sl.lower.value == 1
                if not (only_head and head_read):
                    problems.append((n, f"`{snippet(n)}` removes lines from the list before they are converted: they vanish without a warning"))
        if not converted:
            problems.append((f.node, f"no loop or comprehension hands the body lines to {conv}"))
        if problems:
            for node, why in problems[:3]:
                rep.violation(q, snippet(node, 60) if not isinstance(node, ast.FunctionDef) else "line -> items", why, where(f, node), inp="an ACL text with a stray 'ip access-list ...' line in its body")
        else:
            rep.ok(f"{q}: every line is converted", f"the lines ({', '.join(sorted(lines_vars))}) all reach {conv}; no early exit, no slicing", where=where(f))


def _members_through_helper(ctx: Ctx, rep: Report, f: Func, q: str) -> bool:
    """The member loop written as `[self._conv(s) for s in items]` (+ a filter that drops the None results): the same
    obligation on the paths of the helper - a path that returns None (member skipped) logs the item or is the documented
    description line; every other path returns the member or raises.  False when the shape is not this one."""
    from .common import callee_of_self_call

    for n in own_nodes(f.node):
        if not (isinstance(n, (ast.ListComp, ast.GeneratorExp)) and len(n.generators) == 1 and isinstance(n.generators[0].target, ast.Name) and not n.generators[0].ifs):
            continue
        call = n.elt
        if not (isinstance(call, ast.Call) and call.args and src(call.args[0]) == n.generators[0].target.id):
            continue
        m = callee_of_self_call(ctx, f, call)
        if m is None:
            continue
        mcfg = ctx.cfg(m)
        prm = m.params[-1] if len(call.args) == 1 else m.params[1 if m.cls is not None else 0]
        derived = {prm}
        grow = True
        while grow:
            grow = False
            for x in own_nodes(m.node):
                if isinstance(x, ast.Assign):
                    tn = set()
                    for t in x.targets:
                        tn |= {y.id for y in ast.walk(t) if isinstance(y, ast.Name)}
                    if names_in(x.value) & derived and not tn <= derived:
                        derived |= tn
                        grow = True
        npaths = 0
        for pi in function_paths(mcfg):
            if pi.raises:
                continue
            if pi.ret is not None and not (isinstance(pi.ret, ast.Constant) and pi.ret.value is None):
                continue  # the member is returned
            npaths += 1
            rep.instance()
            env: Dict[str, ast.AST] = {}
            for node, lab in pi.nodes:
                if node.kind == "stmt" and isinstance(node.ast, ast.Assign) and isinstance(node.ast.targets[0], ast.Name):
                    env[node.ast.targets[0].id] = node.ast.value
            log = _path_logs(pi.nodes, env, derived, LOG_ANY)
            desc = None
            for node, lab in pi.nodes:
                if node.kind == "cond" and lab == "T" and isinstance(node.ast, ast.Call) and isinstance(node.ast.func, ast.Attribute) and node.ast.func.attr == "startswith" and node.ast.args:
                    if ctx.folder.fold(node.ast.args[0], m.module) == "description ":
                        desc = node.ast
            if log is not None:
                rep.ok(f"{q}: member skipped after {snippet(log, 40)} (in {m.qualname})", "a log record names it", where=where(m, log))
            elif desc is not None:
                rep.ok(f"{q}: member skipped by {snippet(desc, 40)} (in {m.qualname})", "documented description line", where=where(m, desc))
            else:
                rep.violation(q, f"member skipped silently in {m.qualname}", "a path of the per-member helper returns None without logging the member and without raising", where(m), inp="an address-group body line that is not an address")
        if npaths == 0:
            rep.note(f"R12.5 {q}: every path of {m.qualname} returns the member or raises")
        return True
    return False


def r12_5(ctx: Ctx, rep: Report) -> None:  # noqa: C901
    rep.rule("R12.5")
    from .normalise import normalised as _nrm

    for q in ("AddrGroup.line.setter", "AddrGroup.items.setter"):
        f = _nrm(ctx, ctx.func(q), "valuecalls,gencalls")  # a member loop moved into a helper that returns the list, or into a generator drained by list()
        cfg = ctx.cfg(f)
        loops = [n for n in cfg.live if n.kind == "for"]
        if not loops and _members_through_helper(ctx, rep, f, q):
            continue
        rep.require(bool(loops), f"{q}: member loop vanished")
        # accumulator = the list stored to self.items at the end
        acc = _accumulator(f)
        if acc is None:
            rep.instance()
            rep.violation(q, "self.items = ...", "the member loop does not accumulate into the list that is stored", where(f))
            continue
        loop = loops[0]
        lvars = names_in(loop.ast.target)
        # names derived from the loop variable inside the body
        derived = set(lvars)
        changed = True
        while changed:
            changed = False
            for n in ast.walk(loop.ast):
                if isinstance(n, ast.Assign):
                    tn = set()
                    for t in n.targets:
                        tn |= {x.id for x in ast.walk(t) if isinstance(x, ast.Name)}
                    if names_in(n.value) & derived and not tn <= derived:
                        derived |= tn
                        changed = True
        npaths = 0
        for path in loop_body_paths(cfg, loop):
            end = path[-1][0]
            if end is cfg.raise_exit:
                continue
            appended = any(node.kind == "stmt" and node.ast is not None and any(isinstance(x, ast.Call) and isinstance(x.func, ast.Attribute) and x.func.attr == "append" and src(x.func.value) == acc for x in ast.walk(node.ast)) for node, lab in path)
            if appended:
                continue
            npaths += 1
            rep.instance()
            env: Dict[str, ast.AST] = {}
            for node, lab in path:
                if node.kind == "stmt" and isinstance(node.ast, ast.Assign) and isinstance(node.ast.targets[0], ast.Name):
                    env[node.ast.targets[0].id] = node.ast.value
            log = _path_logs(path, env, derived, LOG_ANY)
            desc = None
            for node, lab in path:
                if node.kind == "cond" and lab == "T" and isinstance(node.ast, ast.Call) and isinstance(node.ast.func, ast.Attribute) and node.ast.func.attr == "startswith" and node.ast.args:
                    v = ctx.folder.fold(node.ast.args[0], f.module)
                    if v == "description ":
                        desc = node.ast
            typeerr = False
            if log is not None:
                rep.ok(f"{q}: member skipped after {snippet(log, 40)}", "a log record names it", where=where(f, log))
            elif desc is not None:
                rep.ok(f"{q}: member skipped by {snippet(desc, 40)}", "documented description line", where=where(f, desc))
            else:
                txt = " -> ".join(repr(n) for n, _ in path[:8])
                rep.violation(q, "member skipped silently", "a path through the member loop neither appends the member nor logs it nor raises", where(f), path=[repr(n) for n, _ in path], inp="an address-group body line that is not an address")
        if npaths == 0:
            rep.note(f"R12.5 {q}: every path through the member loop appends or raises")
    # empty result raises (line form)
    f = _nrm(ctx, ctx.func("AddrGroup.line.setter"), "valuecalls,gencalls")
    rep.instance()
    cfg = ctx.cfg(f)
    acc = _accumulator(f)
    okempty = False
    for p in function_paths(cfg):
        if not p.raises:
            continue
        for t, truth in p.atoms:
            if (isinstance(t, ast.Name) and t.id == acc and not truth) or (src(t) == f"len({acc})" and not truth):
                okempty = True
    if okempty:
        rep.ok("AddrGroup.line.setter: no member parsed", f"raises when {acc} is empty", where=where(f))
    else:
        rep.violation("AddrGroup.line.setter", "empty result", "a group whose every member was skipped is built silently instead of failing", where(f))


def r12_6(ctx: Ctx, rep: Report) -> None:
    rep.rule("R12.6")
    f = ctx.func("helpers.is_line_for_acl")
    actions = set(ctx.folder.const("helpers", "ACTIONS"))
    lits: Set[str] = set()
    for n in own_nodes(f.node):
        if isinstance(n, ast.Call) and isinstance(n.func, ast.Attribute) and n.func.attr == "startswith" and n.args:
            lenv = ctx.folder.local_env(f)
            v = ctx.folder.fold(n.args[0], f.module, lenv)
            if not isinstance(v, (str, tuple, list)) and isinstance(n.args[0], ast.Name):
                # the prefix is the variable of a loop/comprehension over a constant sequence of prefixes
                for g_ in own_nodes(f.node):
                    its = [(c.target, c.iter) for c in g_.generators] if isinstance(g_, (ast.GeneratorExp, ast.ListComp, ast.SetComp)) else ([(g_.target, g_.iter)] if isinstance(g_, ast.For) else [])
                    for tgt, it in its:
                        if isinstance(tgt, ast.Name) and tgt.id == n.args[0].id:
                            seq = ctx.folder.fold(it, f.module, lenv)
                            if isinstance(seq, (tuple, list, set)) and all(isinstance(x, str) for x in seq):
                                v = list(seq)
            if isinstance(v, str):
                lits.add(v)
            elif isinstance(v, (tuple, list)):
                lits |= set(v)
        # `any(map(line.startswith, (<prefixes>)))`: the bound method applied to each constant
        if isinstance(n, ast.Call) and isinstance(n.func, ast.Name) and n.func.id == "map" and len(n.args) == 2 and isinstance(n.args[0], ast.Attribute) and n.args[0].attr == "startswith":
            seq = ctx.folder.fold(n.args[1], f.module, ctx.folder.local_env(f))
            if isinstance(seq, (tuple, list, set, frozenset)) and all(isinstance(x, str) for x in seq):
                lits |= set(seq)
    rep.instance()
    want = {a + " " for a in actions}
    if not lits:
        rep.note("R12.6 helpers.is_line_for_acl tests no literal prefix with startswith - the accepted prefixes are not in a form this rule reads, not judged")
    elif lits == want:
        rep.ok("helpers.is_line_for_acl", f"prefixes {sorted(lits)} = ACTIONS + blank", where=where(f))
    else:
        miss, extra = sorted(want - lits), sorted(lits - want)
        rep.violation("helpers.is_line_for_acl", f"prefixes {sorted(lits)}", f"the ACL-line classifier must accept exactly ACTIONS followed by a blank (missing {miss}, extra {extra}): lines of a missing action are reported as garbage, a prefix without the blank accepts 'permitted ...'", where(f), inp="10 deny ip any any")
    g = ctx.func("AceGroup._line_to_oace")
    skips: Set[str] = set()
    for n in own_nodes(g.node):
        if isinstance(n, (ast.List, ast.Tuple)) and n.elts and all(isinstance(e, ast.Constant) and isinstance(e.value, str) for e in n.elts):
            par = getattr(n, "_parent", None)
            if isinstance(par, (ast.Assign, ast.For, ast.AnnAssign)):
                skips |= {e.value for e in n.elts}
    rep.instance()
    if skips == DOCUMENTED_SKIPS:
        rep.ok("AceGroup._line_to_oace: ignorable prefixes", str(sorted(skips)), where=where(g))
    else:
        rep.violation("AceGroup._line_to_oace", f"ignorable prefixes {sorted(skips)}", f"the documented ignorable lines are {sorted(DOCUMENTED_SKIPS)}: anything else dropped without a warning is a lost line", where(g))


def run(ctx: Ctx, rep: Report, tier: str) -> None:
    r12_1(ctx, rep)
    r12_2(ctx, rep)
    r12_3(ctx, rep)
    r12_4(ctx, rep)
    line_filters(ctx, rep)
    every_line_converted(ctx, rep)
    accumulator_only_grows(ctx, rep)
    no_dedup_collection(ctx, rep)
    classifier_ignores_values(ctx, rep)
    # R12.16 an ACL built from text with group_by goes through Acl.group: every parsed line is placed in a block (C15 R15.1)
    from .c15 import r15_1, r15_2

    sub15 = Report("C12")
    r15_1(ctx, sub15)
    r15_2(ctx, sub15)  # ... one block per heading, stored in the order the headings stand in the text
    rep.absorb(sub15, "R12.16")
    # R12.14 premises: a builder parses under the settings the object has NOW (no snapshot of them outlives a change:
    # C17 R17.6), and assigning a text always parses it (every normal path of a line setter stores what the other paths
    # store: C01 R01.7 - a "same text as last time" shortcut skips lines that were edited away since)
    from .c17 import derived_attributes_refreshed
    from .c01 import setter_completeness

    from .c17 import carried_flags

    sub3 = Report("C12")
    derived_attributes_refreshed(ctx, sub3)
    setter_completeness(ctx, sub3)
    carried_flags(ctx, sub3)
    rep.absorb(sub3, "R12.14")
    # R12.15 no valid line is refused for its length (C06 R06.9): a long entry dropped with a warning is a lost line
    from .c06 import length_gates

    sub4 = Report("C12")
    length_gates(ctx, sub4)
    rep.absorb(sub4, "R12.15")
    # R12.9 premise: the whitespace normaliser the builders apply first maps every spelling of a line to its canonical
    # form (C06 R06.5): a line it leaves un-normalised matches no pattern and is dropped
    from .c06 import normaliser_fixed_point

    sub = Report("C12")
    normaliser_fixed_point(ctx, sub, rid="R06.5")
    rep.absorb(sub, "R12.9")
    # R12.10 premise: members are parsed under the container's own limit (C05 R05.6): a member refused because the
    # default limit was applied is dropped with a debug record only
    from .c05 import r05_6

    sub2 = Report("C12")
    r05_6(ctx, sub2)
    rep.absorb(sub2, "R12.10")
    r12_5(ctx, rep)
    r12_6(ctx, rep)


# what the later rounds (seeding rounds 2-5, refactor twins, defect hunt) added to what the check decides
LATER_ROUNDS = "collections only grow, nothing is de-duplicated, every line placed by grouping (the dropped repeated heading is known finding K6), blocks are stored in the order their headings stand in the text"
EXPLANATION = EXPLANATION.replace(" Does not decide", " Later rounds added: " + LATER_ROUNDS + ". Does not decide", 1) if " Does not decide" in EXPLANATION else EXPLANATION + " Later rounds added: " + LATER_ROUNDS + "."
