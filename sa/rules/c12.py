"""C12 — not implemented yet (fail closed)."""
from ..model import AnalysisError
PROPERTY = "C12"
LEVEL = "other"
EXPLANATION = "not implemented"
def run(ctx, rep, tier):
    raise AnalysisError("rules for C12 are not implemented yet")
