"""C03 — not implemented yet (fail closed)."""
from ..model import AnalysisError
PROPERTY = "C03"
LEVEL = "other"
EXPLANATION = "not implemented"
def run(ctx, rep, tier):
    raise AnalysisError("rules for C03 are not implemented yet")
