"""C03 Shadow detection is sound — logical skeleton of Ace.shadow_of and its helpers."""

from __future__ import annotations

import ast
from typing import Dict, List, Optional, Set, Tuple

from ..cfg import CFG, Node
from ..core import Ctx, Report, snippet, where
from ..fold import known
from ..model import AnalysisError, Func, own_nodes, src
from ..pathsem import PathInfo, function_paths, resolve_local
from .common import (
    chain,
    chains_in,
    deep_resolve,
    expr_fields,
    falsy_const_return,
    fields_read,
    first_difference,
    held_label,
    inclusion,
    mentions,
    names_in,
    norm_field,
    normalised_body,
    reachable_without_edges,
    return_nodes,
)

PROPERTY = "C03"
LEVEL = "other"
EXPLANATION = (
    "Decides the logical skeleton of Ace.shadow_of: it is a conjunction over every packet field the renderer emits, "
    "skip options can only falsify and are independent, source and destination helpers agree, 'no restriction' is "
    "recognised by the absent operator and not by an empty port list, inclusion tests run bottom ⊆ top, the protocol "
    "wildcard is the name 'ip' of number 0 on every platform, and the address cover is ∀bottom ∃top with empty covering "
    "nothing. Does not decide that the per-field inclusion tests compute true set inclusion for all values (that rests "
    "on ipaddress, on the wildcard expansion and on the port sets)."
)
ASSUMPTIONS = [
    "ipaddress.IPv4Network.subnet_of is true set inclusion of contiguous networks",
    "Port.ports and AddressBase.ipnets() denote the packet sets (C05/C08 cover their structural parts)",
]

PORT_ABSENCE_ATTRS = {"operator", "_operator", "line", "items", "_items"}
PORT_DENOTATION_ATTRS = {"ports", "_ports", "sport", "_sport"}


# ------------------------------------------------------------------ derived facts
def packet_fields(ctx: Ctx) -> List[str]:
    """Attributes whose text the extended branch of Ace.line getter joins, minus the sequence prefix."""
    from .common import rendered_fields

    g = ctx.func("Ace.line.getter")
    best: List[str] = []
    for seq in rendered_fields(ctx, g):
        fields = [norm_field(g.cls, a) for a in seq if not a.endswith("()")]
        if len(fields) > len(best):
            best = fields
    if len(best) < 5:
        raise AnalysisError("Ace.line getter: cannot recover the list of rendered fields")
    return best


def shadow_of_func(ctx: Ctx) -> Func:
    """Ace.shadow_of after the behaviour-preserving rewrites of rules/normalise.py (ladder of early returns)."""
    from .normalise import normalised

    # the per-field helpers stay calls here (R03.1 reads which fields each call covers): no tail-call inlining
    return normalised(ctx, ctx.func("Ace.shadow_of"), "delegation,calls,unroll,quant,beta,getattr,temps,predicate")


def helper_for_field(ctx: Ctx, rep: Report, field: str) -> Optional[Func]:
    """The `_shadow_of__*` helper called from shadow_of that reads `field` of both sides."""
    so = shadow_of_func(ctx)
    other = so.params[1]
    for n in own_nodes(so.node):
        if isinstance(n, ast.Call) and isinstance(n.func, ast.Attribute):
            c = chain(n.func)
            if c and c[0] == "self" and len(c) == 2:
                m = so.cls.lookup_method(c[1])
                if m is None:
                    continue
                fr = expr_fields(ctx, so, n, {"self": "self", other: "other"})
                if field in fr.get("self", set()) and field in fr.get("other", set()):
                    from .normalise import normalised

                    return normalised(ctx, m)
    return None


def _positive_test(e: Optional[ast.AST], so: Func) -> Optional[ast.AST]:
    """The returned expression when its truth means that a test *held*: a call of a helper of the object, an equality,
    or bool() of one.  Negations, disjunctions, any()/all() over unknown collections and arithmetic do not count: reading
    a field in such an expression says nothing about the field being covered when the value is truthy."""
    while isinstance(e, ast.Call) and isinstance(e.func, ast.Name) and e.func.id == "bool" and len(e.args) == 1 and not e.keywords:
        e = e.args[0]
    if isinstance(e, ast.Call) and isinstance(e.func, ast.Attribute) and src(e.func.value) in ("self", "cls", "h") :
        return e
    if isinstance(e, ast.Compare) and len(e.ops) == 1 and isinstance(e.ops[0], ast.Eq):
        return e
    if isinstance(e, ast.BoolOp) and isinstance(e.op, ast.And):
        parts = [_positive_test(v, so) for v in e.values]
        if all(p is not None for p in parts):
            return e
    return None


# ------------------------------------------------------------------ R03.1
def r03_1(ctx: Ctx, rep: Report, rid: str = "R03.1") -> List[str]:
    rep.rule(rid)
    so = shadow_of_func(ctx)
    rep.require(len(so.params) >= 2, "Ace.shadow_of lost its `other` parameter")
    other = so.params[1]
    cfg = ctx.cfg(so)
    fields = packet_fields(ctx)
    rep.instance()
    roots = {"self": "self", other: "other"}
    conds = [n for n in cfg.live if n.kind == "cond"]
    cover: Dict[str, List[Node]] = {f: [] for f in fields}
    for c in conds:
        fr = expr_fields(ctx, so, c.ast, roots)
        for f in fields:
            if f in fr.get("self", set()) and f in fr.get("other", set()):
                cover[f].append(c)
    truthy = [r for r in return_nodes(cfg) if not falsy_const_return(r)]
    rep.require(bool(truthy), "Ace.shadow_of has no path that returns a truthy value")
    for f in fields:
        cut = {(c.id, held_label(c.ast)) for c in cover[f]}
        reach = reachable_without_edges(cfg, cfg.entry, cut)
        bad = []
        for r in truthy:
            rv = _positive_test(r.ast.value, so)
            rf = expr_fields(ctx, so, rv, roots) if rv is not None else {}
            self_cov = f in rf.get("self", set()) and f in rf.get("other", set())
            if r in reach and not self_cov:
                bad.append(r)
        if bad:
            path = cfg.witness_path(cfg.entry, bad[0], lambda n: False)
            rep.violation(
                "Ace.shadow_of",
                f"field {f}",
                f"a path reaches `{snippet(bad[0].ast)}` without a cover test of {f} having held on both entries"
                + ("" if cover[f] else " (no test reads this field of self and other)"),
                where(so, bad[0].ast),
                path=[repr(n) for n in path],
            )
        else:
            rep.ok(f"shadow_of covers {f}", "every truthy return is dominated by a held test of this field: " + ", ".join(snippet(c.ast, 50) for c in cover[f]), where=where(so))
    return fields


# ------------------------------------------------------------------ R03.2
def skip_structure(ctx: Ctx, f: Func, rep: Report, qual: str) -> None:
    """Monotone + independent skip handling in one address helper."""
    cfg = ctx.cfg(f)
    if "skip" not in f.params:
        rep.violation(qual, "parameter skip", "the address cover helper no longer receives the skip options", where(f))
        return
    tainted = {"skip"}
    changed = True
    while changed:
        changed = False
        for n in own_nodes(f.node):
            tg, val = None, None
            if isinstance(n, ast.Assign) and len(n.targets) == 1 and isinstance(n.targets[0], ast.Name):
                tg, val = n.targets[0].id, n.value
            elif isinstance(n, ast.AnnAssign) and isinstance(n.target, ast.Name) and n.value is not None:
                tg, val = n.target.id, n.value
            elif isinstance(n, ast.NamedExpr) and isinstance(n.target, ast.Name):
                tg, val = n.target.id, n.value
            if tg and tg not in tainted and names_in(val) & tainted:
                tainted.add(tg)
                changed = True
    sconds: List[Tuple[Node, str, str]] = []  # node, token, present label
    for c in cfg.live:
        if c.kind != "cond" or not (names_in(c.ast) & tainted):
            continue
        token, present = "?", "T"
        t = c.ast
        if isinstance(t, ast.Compare) and len(t.ops) == 1 and isinstance(t.ops[0], (ast.In, ast.NotIn)) and isinstance(t.left, ast.Constant):
            token = str(t.left.value)
            present = "T" if isinstance(t.ops[0], ast.In) else "F"
        sconds.append((c, token, present))
    if not sconds:
        rep.violation(qual, "skip handling", "no condition derived from the skip options: the skip options are ignored", where(f))
        return
    rep.instance(len(sconds))
    for c, token, present in sconds:
        absent = "F" if present == "T" else "T"
        pres_t = [s for lab, s in c.succ if lab == present]
        abs_t = [s for lab, s in c.succ if lab == absent]
        if not pres_t or not abs_t:
            continue
        rp = cfg.reachable(pres_t[0], labels_avoid=("exc",))
        ra = cfg.reachable(abs_t[0], labels_avoid=("exc",))
        exclusive = [n for n in rp - ra if n.kind not in ("exit", "raise")]
        ok = True
        for n in exclusive:
            if n.kind == "cond":
                continue
            if n.kind == "stmt" and isinstance(n.ast, ast.Return) and falsy_const_return(n) and n.ast.value is not None:
                continue
            if n.kind == "stmt" and isinstance(n.ast, ast.Pass):
                continue
            ok = False
            rep.violation(
                qual,
                f"skip token {token!r}: {snippet(n.ast)}",
                "a statement that runs only when the skip option is present is neither a test nor `return False`: "
                "adding a skip option can change the answer other than from True to False",
                where(f, n.ast),
            )
        if ok:
            rep.ok(f"{qual}: skip {token!r} is monotone", f"{len(exclusive)} exclusive node(s), all tests or `return False`", where=where(f, c.ast))
    # no positive answer before the skip options were looked at: every truthy return lies behind every skip test
    truthy_r = [r for r in return_nodes(cfg) if not falsy_const_return(r)]
    for c, token, present in sconds:
        early = [r for r in truthy_r if not cfg.dominates(c, r) and r in cfg.reachable(cfg.entry, avoid=lambda n, c=c: n is c, labels_avoid=("exc",))]
        if early:
            rep.violation(qual, f"{snippet(early[0].ast)} before the test of skip token {token!r}", "a positive answer can be given without the skip options having been consulted: with the option present the pair must answer False", where(f, early[0].ast), inp="identical non-contiguous wildcards on both entries, skip=['nc_wildcard']")
    # independence
    for c1, t1, p1 in sconds:
        for c2, t2, p2 in sconds:
            if c1 is c2 or t1 == t2:
                continue
            a1 = "F" if p1 == "T" else "T"
            pres = [s for lab, s in c1.succ if lab == p1]
            abse = [s for lab, s in c1.succ if lab == a1]
            if not pres or not abse:
                continue
            via_p = c2 in cfg.reachable(pres[0], labels_avoid=("exc",))
            via_a = c2 in cfg.reachable(abse[0], labels_avoid=("exc",))
            if via_a and not via_p:
                rep.violation(
                    qual,
                    f"skip token {t2!r} is tested only when {t1!r} is absent",
                    "skip options are not independent: with both options given the second is ignored, so adding an "
                    "option can turn False into True",
                    where(f, c2.ast),
                    inp="top 'permit ip 10.0.0.0 0.0.3.3 any', bottom 'permit ip 10.0.0.0 0.0.1.3 any', skip=['addrgroup','nc_wildcard']",
                )
            elif via_a and via_p:
                rep.ok(f"{qual}: skip {t2!r} independent of {t1!r}", "tested on both branches", where=where(f, c2.ast))


def r03_2(ctx: Ctx, rep: Report, helpers: Dict[str, Optional[Func]], rid: str = "R03.2") -> None:
    rep.rule(rid)
    so = shadow_of_func(ctx)
    for fld in ("_srcaddr", "_dstaddr"):
        h = helpers.get(fld)
        if h is None:
            continue
        skip_structure(ctx, h, rep, h.qualname)
    # skip is forwarded unchanged
    fwd = 0
    for n in own_nodes(so.node):
        if isinstance(n, ast.Call) and isinstance(n.func, ast.Attribute) and src(n.func.value) == "self":
            m = so.cls.lookup_method(n.func.attr)
            if m is not None and "skip" in m.params:
                val = None
                for kw in n.keywords:
                    if kw.arg == "skip":
                        val = kw.value
                idx = m.params.index("skip") - 1
                if val is None and idx < len(n.args):
                    val = n.args[idx]
                fwd += 1
                if val is None or src(val) != "skip":
                    rep.violation("Ace.shadow_of", snippet(n), "the skip options are not forwarded unchanged to the address helper", where(so, n))
                else:
                    rep.ok(f"Ace.shadow_of -> {m.name}", "skip forwarded unchanged", where=where(so, n))
    rep.instance(fwd)
    rep.floor(4, "skip conditions and forwardings")


# ------------------------------------------------------------------ R03.3
SIBLINGS = [
    ("Ace._shadow_of__srcaddr", "Ace._shadow_of__dstaddr"),
    ("Ace._shadow_of__srcport", "Ace._shadow_of__dstport"),
    ("Ace._lt__srcaddr", "Ace._lt__dstaddr"),
    ("Ace._lt__srcport", "Ace._lt__dstport"),
]


def r03_3(ctx: Ctx, rep: Report, pairs=SIBLINGS[:2], rid: str = "R03.3") -> None:
    rep.rule(rid)
    for a, b in pairs:
        fa, fb = ctx.prog.find_func(a), ctx.prog.find_func(b)
        if fa is None or fb is None:
            # a refactor that merges both sides into one helper removes the obligation
            rep.note(f"R03.3 sibling pair {a} / {b} not present as two functions (merged?)")
            continue
        rep.instance()
        from .normalise import normalised

        na = normalised_body(normalised(ctx, fa).node, {"src": "dst"})
        nb = normalised_body(normalised(ctx, fb).node, None)
        if na == nb:
            rep.ok(f"{a} ≡ {b}", "identical modulo src↔dst renaming, temporaries and local names", where=where(fa))
        else:
            x, y = first_difference(na, nb)
            rep.violation(a, f"{x}  <>  {y}", f"source and destination helpers disagree (first difference after src↔dst normalisation, {b} on the right)", where(fa))


def _interval_operators(ctx: Ctx) -> Set[str]:
    """Operators whose port set is a single interval (C08 forward shapes): range, gt, lt."""
    from .c08 import forward_shape, op_paths
    from .normalise import normalised

    fwd = normalised(ctx, ctx.func("Port._items_to_ports"), "dispatch,unroll,beta")
    operators = list(ctx.folder.const("helpers", "OPERATORS"))
    out: Set[str] = set()
    for op, ps in op_paths(ctx, fwd, operators).items():
        normal = [p for p in ps if not p.raises]
        if op in operators and normal and forward_shape(ctx, fwd, normal[0], fwd.params[1])["kind"] == "INTERVAL":
            out.add(op)
    return out


def _ident_operators(ctx: Ctx) -> Set[str]:
    """Operators whose port set IS their operand list (C08 forward shape IDENT): eq."""
    from .c08 import forward_shape, op_paths
    from .normalise import normalised

    fwd = normalised(ctx, ctx.func("Port._items_to_ports"), "dispatch,unroll,beta")
    operators = list(ctx.folder.const("helpers", "OPERATORS"))
    out: Set[str] = set()
    for op, ps in op_paths(ctx, fwd, operators).items():
        normal = [p for p in ps if not p.raises]
        if op in operators and normal and forward_shape(ctx, fwd, normal[0], fwd.params[1])["kind"] == "IDENT":
            out.add(op)
    return out


def _compares_operands(x: ast.AST, y: ast.AST) -> bool:
    """Either side of the inclusion reads the operand list (`.items`) and not the port list."""
    def leafs(e: ast.AST) -> Set[str]:
        return {c[-1].lstrip("_").rstrip("()") for c in chains_in(e)}

    lx, ly = leafs(x), leafs(y)
    return ("items" in lx and "ports" not in lx) or ("items" in ly and "ports" not in ly)


def _bounds_cover(e: Optional[ast.AST], other: str, field: str, h: Func) -> Optional[bool]:
    """None: not a bounds comparison.  True: `top.low <= bottom.low and bottom.high <= top.high` (top from other, bottom
    from self, ports of `field`).  False: a bounds comparison that is not this one."""
    if not (isinstance(e, ast.BoolOp) and isinstance(e.op, ast.And) and len(e.values) == 2):
        return None
    rel = {}
    for v in e.values:
        if not (isinstance(v, ast.Compare) and len(v.ops) == 1 and isinstance(v.ops[0], (ast.LtE, ast.GtE))):
            return None
        l, r = v.left, v.comparators[0]
        if isinstance(v.ops[0], ast.GtE):
            l, r = r, l
        # l <= r ; each side X.<field>.ports[0|-1] or min()/max()
        def side(x):
            end = None
            if isinstance(x, ast.Subscript) and isinstance(x.slice, (ast.Constant, ast.UnaryOp)):
                end = "low" if src(x.slice) == "0" else "high" if src(x.slice) == "-1" else None
                x = x.value
            elif isinstance(x, ast.Call) and isinstance(x.func, ast.Name) and x.func.id in ("min", "max") and len(x.args) == 1:
                end = "low" if x.func.id == "min" else "high"
                x = x.args[0]
            c = chain(x)
            if end is None or not c or len(c) < 3 or norm_field(h.cls, c[1]) != field or c[-1].lstrip("_") != "ports":
                return None
            return ("top" if c[0] == other else "bottom" if c[0] == "self" else None, end)
        a, b = side(l), side(r)
        if a is None or b is None or a[0] is None or b[0] is None:
            return None
        rel[(a, b)] = True
    want = {(("top", "low"), ("bottom", "low")), (("bottom", "high"), ("top", "high"))}
    return set(rel) == want


def _operators_on_path(ctx: Ctx, p, other: str, field: str, h: Func) -> Optional[Set[str]]:
    """Operators the top entry's port expression can have on this path (from tests of other.<field>.operator)."""
    ops = set(ctx.folder.const("helpers", "OPERATORS"))
    seen = False
    for test, truth in p.atoms:
        t = deep_resolve(test, p.env)
        if isinstance(t, ast.Compare) and len(t.ops) == 1:
            c = chain(t.left)
            if c and c[0] == other and len(c) >= 3 and norm_field(h.cls, c[1]) == field and c[-1].lstrip("_") == "operator":
                cmp_ = t.comparators[0]
                vals = None
                if isinstance(cmp_, ast.Constant) and isinstance(cmp_.value, str):
                    vals = {cmp_.value}
                elif isinstance(cmp_, (ast.List, ast.Tuple, ast.Set)) and all(isinstance(e, ast.Constant) for e in cmp_.elts):
                    vals = {e.value for e in cmp_.elts}
                if vals is None:
                    continue
                positive = isinstance(t.ops[0], (ast.Eq, ast.In)) == truth
                if isinstance(t.ops[0], (ast.Eq, ast.In, ast.NotEq, ast.NotIn)):
                    ops = ops & vals if positive else ops - vals
                    seen = True
    return ops if seen else None


# ------------------------------------------------------------------ R03.4 / R03.7
def port_cover_rules(ctx: Ctx, rep: Report, h: Func, field: str, rid4: str = "R03.4", rid7: str = "R03.7", do7: bool = True) -> None:
    cfg = ctx.cfg(h)
    other = h.params[1] if len(h.params) > 1 else "other"
    paths = [p for p in function_paths(cfg) if not p.raises]
    # R03.4
    rep.rule(rid4)
    rep.instance()
    n_true = 0
    for p in paths:
        if not (isinstance(p.ret, ast.Constant) and p.ret.value is True):
            continue
        n_true += 1
        has_absence = False
        empty_reason = None
        for test, truth in p.atoms:
            t = deep_resolve(test, p.env)
            for c in chains_in(t):
                if c[0] == other and len(c) >= 3 and norm_field(h.cls, c[1]) == field:
                    leaf = c[2].rstrip("()")
                    if leaf in PORT_ABSENCE_ATTRS:
                        has_absence = True
                    elif leaf in PORT_DENOTATION_ATTRS and not truth:
                        empty_reason = snippet(test)
        if has_absence:
            rep.ok(f"{h.qualname}: `return True` path", "guarded by a test of the top's operator/line/items (absent expression)", where=where(h))
        else:
            rep.violation(
                h.qualname,
                f"return True when {empty_reason or 'no test of the top operator'} is falsy",
                "an empty port *list* is read as 'no restriction', but 'lt 1' / 'gt 65535' have an operator and denote no "
                "port: such a top would be reported to cover every entry",
                where(h),
                inp="top 'permit tcp any lt 1 any', bottom 'permit tcp any eq 80 any'",
            )
    # R03.7
    if not do7:
        return
    rep.rule(rid7)
    rep.instance()
    found = False
    interval_ops = _interval_operators(ctx)
    for p in paths:
        cands: List[ast.AST] = []
        if p.ret is not None and not isinstance(p.ret, ast.Constant):
            cands.append(p.ret)
        for c in cands:
            inc = inclusion(c, p.env)
            if inc is None:
                # a comparison of the lowest and highest port decides inclusion only when the top set is an interval
                rc = deep_resolve(c, p.env)
                bc = _bounds_cover(rc, other, field, h)
                if bc is None and isinstance(rc, ast.Compare):
                    # the conjunction was written as a guard plus a return: the other half held on this path
                    for t_, tr_ in p.atoms:
                        rt_ = deep_resolve(t_, p.env)
                        if tr_ and isinstance(rt_, ast.Compare):
                            cand = ast.BoolOp(op=ast.And(), values=[rt_, rc])
                            b2 = _bounds_cover(cand, other, field, h)
                            if b2 is not None:
                                bc = b2
                                break
                if bc is not None:
                    found = True
                    ops = _operators_on_path(ctx, p, other, field, h)
                    if not bc:
                        rep.violation(h.qualname, snippet(c), "the bounds comparison runs the wrong way or mixes the two entries", where(h))
                    elif ops is not None and ops <= interval_ops:
                        rep.ok(f"{h.qualname}: {snippet(c, 60)}", f"bounds comparison on a path where the top operator is one of {sorted(ops)}: its port set is an interval", where=where(h))
                    else:
                        rep.violation(h.qualname, snippet(c), f"the lowest/highest ports are compared on a path where the top operator may be {sorted(ops - interval_ops) if ops is not None else 'anything'}: such a set has gaps (eq 80 443) and an entry inside a gap is reported covered", where(h), inp="top 'permit tcp any any eq 22 443', bottom 'permit tcp any any eq 80'")
                elif not (isinstance(c, ast.Call) and isinstance(c.func, ast.Attribute) and src(c.func.value) in ("self", "cls")):
                    rep.violation(h.qualname, snippet(c), "the answer on this path is not a set-inclusion test of the bottom ports in the top ports", where(h))
                    found = True
                continue
            found = True
            x, y, kind = inc
            rx_, ry = deep_resolve(x, p.env), deep_resolve(y, p.env)
            x_self, x_other = mentions(rx_, "self"), mentions(rx_, other)
            y_self, y_other = mentions(ry, "self"), mentions(ry, other)
            if kind == "equal":
                rep.violation(h.qualname, snippet(c), "the cover test is an equality, not an inclusion of the bottom set in the top set", where(h))
            elif kind == "proper":
                rep.violation(h.qualname, snippet(c), "the cover test demands a proper subset: an identical entry is not reported", where(h))
            elif x_self and not x_other and y_other and not y_self and _compares_operands(rx_, ry) and not ((_operators_on_path(ctx, p, other, field, h) or {"?"}) <= _ident_operators(ctx)):
                ops_ = _operators_on_path(ctx, p, other, field, h)
                rep.violation(h.qualname, snippet(c), f"the inclusion is between the OPERANDS (.items), not the port sets, on a path where the top operator may be {sorted(ops_) if ops_ is not None else 'anything'}: only for an operator whose port set is its operands (eq) is that the same test - for neq it is the reverse", where(h), inp="top 'permit tcp any any neq 80', bottom 'permit tcp any any neq 80 443'")
            elif x_self and not x_other and y_other and not y_self:
                rep.ok(f"{h.qualname}: {snippet(c, 60)}", f"normalises to bottom(self) ⊆ top({other})", where=where(h))
            else:
                rep.violation(h.qualname, snippet(c), f"inclusion runs the wrong way: {snippet(rx_, 40)} ⊆ {snippet(ry, 40)} (must be bottom from self ⊆ top from {other})", where(h))
    if not found:
        # a helper that returns only constants decides nothing
        rep.violation(h.qualname, "cover test", "no set-inclusion test (bottom ⊆ top) decides the answer", where(h))


# ------------------------------------------------------------------ R03.5
def r03_5(ctx: Ctx, rep: Report, h: Optional[Func]) -> None:
    rep.rule("R03.5")
    if h is None:
        return
    other = h.params[1] if len(h.params) > 1 else "other"
    cfg = ctx.cfg(h)
    paths = [p for p in function_paths(cfg) if not p.raises]
    platforms = ctx.folder.const("helpers", "PLATFORMS")
    rep.instance()
    wild: Set[str] = set()
    for p in paths:
        if isinstance(p.ret, ast.Constant) and p.ret.value is True:
            recognised = False
            for test, truth in p.atoms:
                t = deep_resolve(test, p.env)
                if isinstance(t, ast.Compare) and len(t.ops) == 1 and isinstance(t.ops[0], ast.In) and truth:
                    # `x in ("ip",)` is equality with each member; `x in ("ip")` / `x in "ip"` is a SUBSTRING test
                    rhs = t.comparators[0]
                    ch = chain(t.left)
                    if isinstance(rhs, ast.Constant) and isinstance(rhs.value, str):
                        recognised = True
                        rep.violation(h.qualname, snippet(test), f"`in {rhs.value!r}` is a substring test: the empty name of every protocol number that has no name is 'in' it, so a top entry with such a number covers everything", where(h, test), inp="permit 200 any any above permit tcp any any")
                        continue
                    if isinstance(rhs, (ast.Tuple, ast.List, ast.Set)) and all(isinstance(e, ast.Constant) for e in rhs.elts) and ch and ch[0] == other and norm_field(h.cls, ch[1]) == "_protocol":
                        recognised = True
                        for e in rhs.elts:
                            wild.add(repr(e.value) + ":" + ch[-1])
                        continue
                if isinstance(t, ast.Compare) and len(t.ops) == 1 and isinstance(t.ops[0], ast.Eq) and truth:
                    recognised = True
                    sides = [t.left, t.comparators[0]]
                    const = [s for s in sides if isinstance(s, ast.Constant)]
                    var = [s for s in sides if not isinstance(s, ast.Constant)]
                    if const and var:
                        ch = chain(var[0])
                        if ch and ch[0] == other and norm_field(h.cls, ch[1]) == "_protocol":
                            wild.add(repr(const[0].value) + ":" + ch[-1])
                        elif ch and ch[0] == "self":
                            rep.violation(h.qualname, snippet(test), "the protocol wildcard short-cut tests the bottom entry (self): a bottom 'ip' would be covered by any top", where(h))
                        else:
                            rep.violation(h.qualname, snippet(test), "unrecognised short-cut to True in the protocol cover test", where(h))
            if not p.atoms:
                rep.violation(h.qualname, "return True", "the protocol cover test is unconditionally true", where(h))
            elif not recognised:
                rep.violation(h.qualname, "return True under [" + "; ".join(snippet(t_, 40) + ("" if tr_ else " (false)") for t_, tr_ in p.atoms) + "]", "a positive protocol answer that is neither equality of the numbers nor the test for the wildcard protocol", where(h))
    nr2p = ctx.folder.const("protocol", "NR_TO_PROTOCOL")
    for w in sorted(wild):
        val, attr = w.rsplit(":", 1)
        val = eval(val)  # literal repr of a str/int constant produced above
        if attr == "name":
            for plat in platforms:
                nums = [n for n, nm in nr2p.get(plat, {}).items() if nm == val]
                if nums != [0]:
                    rep.violation(h.qualname, f"name {val!r} on {plat} -> numbers {nums}", "the wildcard protocol name must be the name of number 0 and of nothing else on every platform", where(h))
                else:
                    rep.ok(f"NR_TO_PROTOCOL[{plat}]: {val!r} ⇔ 0", "the wildcard name denotes exactly protocol 0", nontrivial=True)
        elif attr in ("number", "_number"):
            if val != 0:
                rep.violation(h.qualname, f"number == {val}", "the wildcard protocol number must be 0", where(h))
            else:
                rep.ok("wildcard protocol number", "0")
        else:
            rep.violation(h.qualname, w, "unrecognised protocol wildcard test", where(h))
    if not wild:
        rep.note("R03.5 no protocol wildcard short-cut found (every protocol compared by number)")
    # the general comparison is by number on both sides
    okcmp = False
    for p in paths:
        r = deep_resolve(p.ret, p.env) if p.ret is not None else None
        cands = [r] if r is not None and not isinstance(r, ast.Constant) else []
        for test, truth in p.atoms:
            cands.append(deep_resolve(test, p.env))
        for t in cands:
            if isinstance(t, ast.Compare) and len(t.ops) == 1 and isinstance(t.ops[0], (ast.Eq, ast.NotEq)):
                cl, cr = chain(t.left), chain(t.comparators[0])
                if cl and cr and {cl[0], cr[0]} == {"self", other} and cl[-1].lstrip("_") == cr[-1].lstrip("_") == "number":
                    okcmp = True
    rep.instance()
    if okcmp:
        rep.ok(f"{h.qualname}: general case", "compares protocol.number of self and other", where=where(h))
    else:
        rep.violation(h.qualname, "general comparison", "protocols are not compared by number on both sides", where(h))


# ------------------------------------------------------------------ R03.6
def check_subnet_of_shape(ctx: Ctx, rep: Report, f: Func, tops: str, bottoms: str, need_empty_guard: bool = True) -> None:
    cfg = ctx.cfg(f)
    paths = [p for p in function_paths(cfg) if not p.raises]
    _quantifier_domains(rep, f, tops, bottoms)
    fors = [n for n in cfg.live if n.kind == "for"]
    outer = [n for n in fors if src(n.ast.iter) == bottoms]
    inner = [n for n in fors if src(n.ast.iter) == tops]
    if not outer and not inner and _all_any_form(ctx, rep, f, paths, tops, bottoms):
        _empty_guards(rep, f, paths, tops, bottoms, need_empty_guard)
        return
    if not outer or not inner:
        rep.violation(f.qualname, "loop nest", f"expected `for b in {bottoms}` enclosing `for t in {tops}` (∀ bottom ∃ top)", where(f))
        return
    o, i = outer[0], inner[0]
    bvar, tvar = src(o.ast.target), src(i.ast.target)
    # (a) success test: <bvar>.subnet_of(<tvar>)
    succ_conds = []
    for c in cfg.live:
        if c.kind == "cond" and isinstance(c.ast, ast.Call) and isinstance(c.ast.func, ast.Attribute) and c.ast.func.attr == "subnet_of" and len(c.ast.args) == 1:
            recv, arg = src(c.ast.func.value), src(c.ast.args[0])
            if recv == bvar and arg == tvar:
                succ_conds.append(c)
            elif recv == tvar and arg == bvar:
                rep.violation(f.qualname, snippet(c.ast), "direction reversed: tests whether the *top* network lies inside the *bottom* network", where(f, c.ast), inp="every /32 would cover its /8")
                return
    if not succ_conds:
        rep.violation(f.qualname, "inclusion test", f"no `{bvar}.subnet_of({tvar})` test inside the loop nest", where(f))
        return
    rep.ok(f"{f.qualname}: {snippet(succ_conds[0].ast)}", "receiver is the bottom element, argument the top element", where=where(f, succ_conds[0].ast))
    # (b) the next bottom (and the final True) is reachable from the outer body only through a held success test
    cut = {(c.id, "T") for c in succ_conds}
    body_start = [s for lab, s in o.succ if lab == "body"]
    truthy = [r for r in return_nodes(cfg) if not falsy_const_return(r)]
    reach = reachable_without_edges(cfg, body_start[0], cut) if body_start else set()
    if o in reach or any(r in reach for r in truthy):
        rep.violation(f.qualname, "∀∃ structure", "a bottom network can be passed over (next iteration or `return True`) without any top network containing it", where(f, o.ast))
    else:
        rep.ok(f"{f.qualname}: ∀ bottom ∃ top", "from the outer loop body the next bottom / `return True` is reachable only through a held inclusion test", where=where(f, o.ast))
    # (c) truthy return only after the outer loop is exhausted
    for r in truthy:
        cut2 = {(o.id, "exit")}
        if r in reachable_without_edges(cfg, cfg.entry, cut2):
            rep.violation(f.qualname, snippet(r.ast), "a truthy return is reachable before every bottom network was examined", where(f, r.ast))
        else:
            rep.ok(f"{f.qualname}: {snippet(r.ast)}", "only after the outer loop is exhausted", where=where(f, r.ast))
    _empty_guards(rep, f, paths, tops, bottoms, need_empty_guard)


_KEEPS_ELEMENTS = ("list", "tuple", "sorted", "set", "frozenset")


def members_only_for_groups(ctx: Ctx, rep: Report, rid: str = "R03.11") -> None:
    """The networks of an address are its own network(s) or, for an address group, those of its members - never both:
    the line setters re-type an address without emptying `_items`, so the member loop of `ipnets()` has to run only when
    the address is (still) a group, i.e. under the group-type test or after the own-network tests have failed."""
    rep.rule(rid)
    ab = ctx.cls("AddressBase")
    for cls in ctx.prog.classes.values():
        f = cls.methods.get("ipnets")
        if ab not in cls.mro:
            continue  # a pure container (AddrGroup) is always a group
        if f is None:
            continue
        cfg = ctx.cfg(f)

        def reads_members(x: ast.AST, depth: int = 0) -> bool:
            for y in ast.walk(x):
                if isinstance(y, ast.Attribute) and src(y) in ("self._items", "self.items"):
                    return True
                if isinstance(y, ast.Call) and isinstance(y.func, ast.Attribute) and src(y.func.value) == "self" and y.func.attr.startswith("_") and depth < 2:
                    m = cls.lookup_method(y.func.attr)
                    if m is not None and m is not f and reads_members(m.node, depth + 1):
                        return True
            return False

        sites = [n for n in cfg.live if n.ast is not None and n.kind in ("stmt", "for", "cond") and reads_members(n.ast.iter if n.kind == "for" else n.ast)]
        for lp in sites:
            rep.instance()
            deps = cfg.transitive_control_deps(lp)
            guarded = False
            for c, lab in deps:
                if c.kind != "cond":
                    continue
                t = src(c.ast)
                if "addrgroup" in t and ("type" in t) and lab == "T" and isinstance(c.ast, ast.Compare) and isinstance(c.ast.ops[0], (ast.Eq, ast.In)):
                    guarded = True
                if "addrgroup" in t and ("type" in t) and lab == "F" and isinstance(c.ast, ast.Compare) and isinstance(c.ast.ops[0], (ast.NotEq, ast.NotIn)):
                    guarded = True
                if t.startswith("isinstance(self._wildcard") and lab == "F":
                    guarded = True
            what = snippet(lp.ast.iter if lp.kind == "for" else lp.ast, 60)
            if guarded:
                rep.ok(f"{f.qualname}: {what}", "members are read only for a group (type test) / only when the address has no network of its own", where=where(f, lp.ast))
            else:
                rep.violation(f.qualname, what, "the members' networks are added whatever the address currently is: an address that was a group and was re-assigned a host/prefix/wildcard line still covers its old members", where(f, lp.ast), inp="a = Address('object-group G', items=[...]); a.line = 'host 10.0.0.1'; a.ipnets()")
        if not sites:
            rep.note(f"{rid} {f.qualname} does not read the members (not judged)")


def _quantifier_domains(rep: Report, f: Func, tops: str, bottoms: str) -> None:
    """The lists the cover test quantifies over are the arguments: not re-bound to something else, nothing added or
    removed (an added top widens the cover, a removed bottom drops an obligation)."""
    for nm in (tops, bottoms):
        if nm not in f.params:
            continue
        rep.instance()
        bad = None
        for n in own_nodes(f.node):
            if isinstance(n, ast.Name) and n.id == nm and isinstance(n.ctx, (ast.Store, ast.Del)):
                par = getattr(n, "_parent", None)
                v = getattr(par, "value", None) if isinstance(par, (ast.Assign, ast.AnnAssign)) else None
                keeps = isinstance(v, ast.Call) and isinstance(v.func, ast.Name) and v.func.id in _KEEPS_ELEMENTS and len(v.args) == 1 and src(v.args[0]) == nm and not v.keywords
                if not keeps:
                    bad = bad or par or n
            if isinstance(n, ast.Call) and isinstance(n.func, ast.Attribute) and src(n.func.value) == nm and n.func.attr in ("append", "extend", "insert", "remove", "pop", "clear", "add", "discard", "update", "__iadd__"):
                bad = bad or n
            if isinstance(n, ast.AugAssign) and src(n.target) == nm:
                bad = bad or n
        if bad is not None:
            rep.violation(f.qualname, snippet(bad), f"the list `{nm}` the cover test quantifies over is changed inside the test: networks that neither entry names decide the answer", where(f, bad), inp="tops [10.0.0.0/25, host 10.0.0.200] would cover 10.0.0.0/24")
        else:
            rep.ok(f"{f.qualname}: domain `{nm}`", "the argument itself (at most copied element for element)", where=where(f))


def _all_any_form(ctx: Ctx, rep: Report, f: Func, paths, tops: str, bottoms: str) -> bool:
    """`all(any(b.subnet_of(t) for t in tops) for b in bottoms)` (the inner test possibly behind a one-expression
    local function): the same ∀ bottom ∃ top statement as the loop nest.  True when this form was recognised
    (verdicts are emitted here)."""
    from .common import _SubstMany, _strip_doc, clone

    cands = []
    for p in paths:
        # only the returned name itself is resolved: the lists inside keep their local names (`tops_`, `bottoms_`)
        r = resolve_local(p.ret, p.env) if p.ret is not None else None
        while isinstance(r, ast.Call) and isinstance(r.func, ast.Name) and r.func.id == "bool" and len(r.args) == 1:
            r = r.args[0]
        if isinstance(r, ast.Call) and isinstance(r.func, ast.Name) and r.func.id in ("all", "any") and len(r.args) == 1 and isinstance(r.args[0], (ast.GeneratorExp, ast.ListComp)):
            cands.append(r)
    if not cands:
        return False
    for r in cands:
        g = r.args[0]
        if r.func.id != "all" or len(g.generators) != 1:
            rep.violation(f.qualname, snippet(r), "the cover test must be ∀ bottom ∃ top: all(any(b.subnet_of(t) for t in tops) for b in bottoms)", where(f, r))
            continue
        og = g.generators[0]
        inner = g.elt
        if isinstance(inner, ast.Call) and isinstance(inner.func, ast.Name) and inner.func.id not in ("any", "all"):
            # one-expression local function / lambda bound to a local name
            body = None
            for h in ctx.prog.funcs:
                if h.parent is f and h.name == inner.func.id:
                    b = _strip_doc(list(h.node.body))
                    if len(b) == 1 and isinstance(b[0], ast.Return) and b[0].value is not None and len(h.params) == len(inner.args) and not inner.keywords:
                        body = _SubstMany(dict(zip(h.params, inner.args))).visit(clone(b[0].value))
            if body is None:
                for n in own_nodes(f.node):
                    if isinstance(n, ast.Assign) and isinstance(n.targets[0], ast.Name) and n.targets[0].id == inner.func.id and isinstance(n.value, ast.Lambda):
                        ps = [a.arg for a in n.value.args.args]
                        if len(ps) == len(inner.args) and not inner.keywords:
                            body = _SubstMany(dict(zip(ps, inner.args))).visit(clone(n.value.body))
            if body is not None:
                inner = body
        ok_outer = src(og.iter) == bottoms and not og.ifs and isinstance(og.target, ast.Name)
        ok_inner = isinstance(inner, ast.Call) and isinstance(inner.func, ast.Name) and inner.func.id == "any" and len(inner.args) == 1 and isinstance(inner.args[0], (ast.GeneratorExp, ast.ListComp)) and len(inner.args[0].generators) == 1
        if not ok_outer or not ok_inner:
            if src(og.iter) == tops:
                rep.violation(f.qualname, snippet(r), "quantifiers run over the wrong lists: every *top* is required to satisfy the inner test (must be ∀ bottom ∃ top)", where(f, r))
            else:
                rep.violation(f.qualname, snippet(r), f"the cover test must be all(any(b.subnet_of(t) for t in {tops}) for b in {bottoms}) without filters", where(f, r))
            continue
        ig = inner.args[0].generators[0]
        test = inner.args[0].elt
        bvar = og.target.id
        tvar = src(ig.target)
        if src(ig.iter) != tops or ig.ifs:
            rep.violation(f.qualname, snippet(inner), f"the inner quantifier must run over every element of `{tops}`", where(f, r))
            continue
        if isinstance(test, ast.Call) and isinstance(test.func, ast.Attribute) and test.func.attr == "subnet_of" and len(test.args) == 1:
            recv, arg = src(test.func.value), src(test.args[0])
            if recv == bvar and arg == tvar:
                rep.ok(f"{f.qualname}: {snippet(test)}", "receiver is the bottom element, argument the top element", where=where(f, r))
                rep.ok(f"{f.qualname}: ∀ bottom ∃ top", f"all(... for {bvar} in {bottoms}) of any(... for {tvar} in {tops}): no bottom is passed over, True only when every bottom has a containing top", where=where(f, r))
                continue
            if recv == tvar and arg == bvar:
                rep.violation(f.qualname, snippet(test), "direction reversed: tests whether the *top* network lies inside the *bottom* network", where(f, r), inp="every /32 would cover its /8")
                continue
        if isinstance(test, ast.Call) and isinstance(test.func, ast.Attribute) and test.func.attr == "supernet_of" and len(test.args) == 1 and src(test.func.value) == tvar and src(test.args[0]) == bvar:
            rep.ok(f"{f.qualname}: {snippet(test)}", "top.supernet_of(bottom) == bottom.subnet_of(top)", where=where(f, r))
            continue
        rep.violation(f.qualname, snippet(test), f"the inner test is not `{bvar}.subnet_of({tvar})`", where(f, r))
    return True


def _empty_guards(rep: Report, f: Func, paths, tops: str, bottoms: str, need_empty_guard: bool) -> None:
    # (d) empty covers nothing / nothing covers empty
    if need_empty_guard:
        for nm in (tops, bottoms):
            guarded = False
            for p in paths:
                for test, truth in p.atoms:
                    if src(test) == nm and not truth and isinstance(p.ret, ast.Constant) and p.ret.value is False:
                        guarded = True
                    if isinstance(test, ast.Call) and src(test) == f"len({nm})" and not truth and isinstance(p.ret, ast.Constant) and p.ret.value is False:
                        guarded = True
            # every path on which nm is empty must return False: cut the guard's falsy edge and see that a truthy return
            # cannot be reached through an exhausted loop over nm only
            if guarded:
                rep.ok(f"{f.qualname}: empty {nm}", "returns False", where=where(f))
            else:
                rep.violation(f.qualname, f"empty {nm}", f"an empty `{nm}` is not answered with False: an address group without members would cover / be covered", where(f))


def r03_6(ctx: Ctx, rep: Report, helpers: Dict[str, Optional[Func]]) -> None:
    rep.rule("R03.6")
    so_f = ctx.func("helpers.subnet_of")
    rep.instance()
    params = so_f.params
    rep.require(set(params) >= {"tops", "bottoms"}, "helpers.subnet_of lost its tops/bottoms parameters")
    check_subnet_of_shape(ctx, rep, so_f, "tops", "bottoms")
    for fld in ("_srcaddr", "_dstaddr"):
        h = helpers.get(fld)
        if h is None:
            continue
        rep.instance()
        other = h.params[1] if len(h.params) > 1 else "other"
        cfg = ctx.cfg(h)
        seen = False
        for p in function_paths(cfg):
            if p.raises:
                continue
            r = deep_resolve(p.ret, p.env) if p.ret is not None else None
            if r is None or isinstance(r, ast.Constant):
                continue
            for call in [x for x in ast.walk(r) if isinstance(x, ast.Call)]:
                tgt = None
                if isinstance(call.func, ast.Attribute) and call.func.attr == "subnet_of":
                    tgt = call
                if tgt is None:
                    continue
                args: Dict[str, ast.AST] = {}
                for k in tgt.keywords:
                    if k.arg:
                        args[k.arg] = k.value
                for idx, a in enumerate(tgt.args):
                    if idx < len(params):
                        args[params[idx]] = a
                if not {"tops", "bottoms"} <= set(args):
                    continue
                seen = True
                t, b = args["tops"], args["bottoms"]
                ok_t = mentions(t, other) and not mentions(t, "self")
                ok_b = mentions(b, "self") and not mentions(b, other)
                ft = {norm_field(h.cls, c[1]) for c in chains_in(t) if len(c) >= 2}
                fb = {norm_field(h.cls, c[1]) for c in chains_in(b) if len(c) >= 2}
                if not (ok_t and ok_b):
                    rep.violation(h.qualname, snippet(tgt), f"tops must come from {other} (the upper entry) and bottoms from self", where(h), inp="every host would cover its supernet")
                elif ft != {fld} or fb != {fld}:
                    rep.violation(h.qualname, snippet(tgt), f"address cover of {fld} reads {sorted(ft | fb)}", where(h))
                else:
                    rep.ok(f"{h.qualname}: subnet_of(tops={snippet(t, 30)}, bottoms={snippet(b, 30)})", f"tops from {other}.{fld}, bottoms from self.{fld}", where=where(h))
        if not seen:
            rep.violation(h.qualname, "address cover", "the answer is not decided by helpers.subnet_of(tops, bottoms)", where(h))


def run(ctx: Ctx, rep: Report, tier: str) -> None:
    fields = r03_1(ctx, rep)
    helpers = {f: helper_for_field(ctx, rep, f) for f in fields}
    r03_2(ctx, rep, helpers)
    r03_3(ctx, rep)
    n = 0
    for fld in ("_srcport", "_dstport"):
        h = helpers.get(fld)
        if h is not None:
            port_cover_rules(ctx, rep, h, fld)
            n += 1
    rep.rule("R03.4")
    rep.floor(min(2, n) if n else 0, "port cover helpers")
    opt = helpers.get("_option")
    if opt is not None:
        flags_rule(ctx, rep, opt)
    r03_5(ctx, rep, helpers.get("_protocol"))
    r03_6(ctx, rep, helpers)
    address_answers(ctx, rep, helpers)
    from .c01 import field_isolation

    field_isolation(ctx, rep, "R03.8")
    # R03.9 the sets the cover tests read (ipnets(), ports) are not stale: every memo is reset by every writer
    from .c05 import memo_rules

    memo_rules(ctx, rep, rid="R03.9")
    # R03.14 ... and nobody changes in place the list a memoised ipnets() hands out (C05 R05.9)
    from .c05 import r05_9

    sub59 = Report("C03")
    r05_9(ctx, sub59)
    rep.absorb(sub59, "R03.14")
    # R03.16 the network lists compared are complete: the expansion of a group leaves no member out (C05 R05.12)
    from .c05 import expansion_covers_members

    sub512 = Report("C03")
    expansion_covers_members(ctx, sub512)
    rep.absorb(sub512, "R03.16")
    # R03.17 the kind an address is given ('any' / host / subnet) follows from the tests that mean it (C01 R01.6): an
    # address typed 'any' covers everything in every address cover test
    from .c01 import classification_guards

    classification_guards(ctx, rep, rid="R03.17")
    cover_sets_not_edited(ctx, rep)
    # R03.23 the sets the cover tests read are computed from the two entries alone: no store outside the objects (a
    # module-level cache of prefixes, a closure counter) feeds them (C17 R17.2) - a cache filed under an incomplete key
    # hands one wildcard the prefixes of another
    from .c17 import r17_2

    sub172 = Report("C03")
    r17_2(ctx, sub172)
    rep.absorb(sub172, "R03.23")
    # R03.18 the flags the option cover test reads describe the option text the entry renders: a refused `option.line = ...`
    # changes neither (text stored before the word test = new text over the old flags; `permit tcp any any syn` is then
    # reported in the shadow of an entry that renders `... ack time-range WORK`)
    from .c08 import rejected_leaves_unchanged

    rejected_leaves_unchanged(ctx, rep, rid="R03.18", targets=(("Option.line.setter", ("_line",)),), what="the new option text over the old flag and log lists: the entry renders tokens its cover test does not know", inp="top = Ace('permit tcp any any'); top.option.line = 'ack time-range WORK'  # ValueError; top.line ends in 'ack time-range WORK', top.option.flags == []")
    # R03.19 / R03.20 the same for the networks (C05 R05.17) and the port sets (C08 R08.13) the cover tests read: a refused
    # assignment to an address or a port expression of an entry leaves text and sets in agreement
    from .c05 import rejected_address_changes_nothing

    rejected_address_changes_nothing(ctx, rep, rid="R03.19")
    rejected_leaves_unchanged(ctx, rep, rid="R03.20")
    # R03.21 the members an address-group reference is judged by are those of the group it names (C13 R13.9)
    from .c13 import members_follow_group_name

    members_follow_group_name(ctx, rep, rid="R03.21")
    # R03.24 the networks the address cover test reads are the object's own: the memo list of a non-contiguous wildcard is
    # never handed to a caller itself (C05 R05.14) - a caller that extends the list it got from `ipnets()` would widen what
    # the entry is later reported to shadow (round-7 seed C03-r7-1)
    from .c05 import memo_not_handed_out

    memo_not_handed_out(ctx, rep, rid="R03.24")
    members_only_for_groups(ctx, rep)
    # R03.12 premise: the flag/log split of the option text (the flag cover test reads .flags)
    from .c01 import option_partition

    subo = Report("C03")
    option_partition(ctx, subo)
    rep.absorb(subo, "R03.12")
    # R03.10 premise: a field object re-parsed in place refreshes everything the cover tests read (ports, networks,
    # flags): every normal path of a line setter assigns the attributes the other paths assign (C01 R01.7)
    from .c01 import setter_completeness

    sub = Report("C03")
    setter_completeness(ctx, sub)
    rep.absorb(sub, "R03.10")
    # R03.13 premise: the port sets the cover tests compare are the sets the operators denote (all C08 rules: a range
    # that loses port 65535 makes `range 1024 65535` both cover less and be covered by less)
    from . import c08

    sub8 = Report("C03")
    c08.run(ctx, sub8, tier)
    rep.absorb(sub8, "R03.13")


def address_answers(ctx: Ctx, rep: Report, helpers: Dict[str, Optional[Func]], rid: str = "R03.15") -> None:
    """Every answer of an address cover helper that can be positive is the answer of the network containment test
    (`subnet_of(tops=..., bottoms=...)`): equality of two address objects compares their text or group name, not the
    networks behind them, and is no ground for "covered"."""
    from .common import single_env

    rep.rule(rid)
    for fld in ("_srcaddr", "_dstaddr"):
        h = helpers.get(fld)
        if h is None:
            continue
        env = single_env(h.node)
        cfg = ctx.cfg(h)
        for r in return_nodes(cfg):
            if r.ast.value is None or falsy_const_return(r):
                continue
            rep.instance()
            v = r.ast.value
            for _ in range(4):
                if isinstance(v, ast.Name) and v.id in env:
                    v = env[v.id]
                elif isinstance(v, ast.Call) and isinstance(v.func, ast.Name) and v.func.id == "bool" and len(v.args) == 1:
                    v = v.args[0]
            if isinstance(v, ast.Call) and src(v.func).endswith("subnet_of"):
                rep.ok(f"{h.qualname}: {snippet(r.ast, 50)}", "the answer of the network containment test", where=where(h, r.ast))
            else:
                rep.violation(h.qualname, snippet(r.ast), "a positive address answer that is not the answer of the network containment test (equal text or equal group name does not mean equal networks)", where(h, r.ast), inp="two object-groups with the same name and different members")
    rep.floor(2, "answers of the address cover helpers")


_MUTATORS = {"discard", "remove", "add", "update", "pop", "clear", "difference_update", "intersection_update", "symmetric_difference_update", "append", "extend", "insert", "sort", "reverse", "popitem", "setdefault"}


def cover_sets_not_edited(ctx: Ctx, rep: Report, rid: str = "R03.22") -> None:
    """The cover tests compare the sets the two entries denote - ports, flags, networks - as they are: between the
    binding of a local that holds such a set and the test that reads it, nothing edits the set in place (`discard`,
    `remove`, `add`, `-=`, `del x[i]`, `x[i] = ...`).  An "equivalence" applied to one side only (`established` dropped
    from the lower entry's flags when the upper one tests `ack`) makes the comparison answer for another entry."""
    rep.rule(rid)
    ace = ctx.cls("Ace")
    funcs = [m for nm, m in ace.methods.items() if nm.startswith("_shadow_of__") or nm == "shadow_of"]
    for q in ("helpers.subnet_of",):
        g = ctx.prog.find_func(q)
        if g is not None:
            funcs.append(g)
    n = 0
    for f in funcs:
        n += 1
        rep.instance()
        locals_ = {x.id for x in own_nodes(f.node) if isinstance(x, ast.Name) and isinstance(x.ctx, ast.Store)}
        # a local bound to a display written in the function (an accumulator, a table of checks) is its own construction
        acc = set()
        for x in own_nodes(f.node):
            if isinstance(x, (ast.Assign, ast.AnnAssign)) and x.value is not None:
                tg = x.targets[0] if isinstance(x, ast.Assign) else x.target
                if isinstance(tg, ast.Name) and (isinstance(x.value, (ast.List, ast.Set, ast.Dict, ast.Tuple)) or (isinstance(x.value, ast.Call) and src(x.value.func) in ("set", "list", "dict") and not x.value.args)):
                    acc.add(tg.id)
        bad = None
        for x in own_nodes(f.node):
            nm = None
            if isinstance(x, ast.Call) and isinstance(x.func, ast.Attribute) and x.func.attr in _MUTATORS and isinstance(x.func.value, ast.Name):
                nm = x.func.value.id
            elif isinstance(x, ast.AugAssign) and isinstance(x.target, ast.Name) and isinstance(x.op, (ast.Sub, ast.BitOr, ast.BitAnd, ast.BitXor)):
                nm = x.target.id
            elif isinstance(x, (ast.Subscript,)) and isinstance(x.ctx, (ast.Store, ast.Del)) and isinstance(x.value, ast.Name):
                nm = x.value.id
            if nm is not None and (nm in locals_ or nm in f.params) and nm not in acc:
                bad = (x, nm)
                break
        if bad is not None:
            rep.violation(f.qualname, snippet(bad[0], 60), f"`{bad[1]}`, one of the sets the cover test compares, is edited in place before the comparison: the test no longer answers for the entries as they are written (a flag, port or network dropped from one side only)", where(f, bad[0]), inp="permit tcp any any ack  /  permit tcp any any established  ->  the second is reported shadowed and deleted")
        else:
            rep.ok(f.qualname, "the compared sets are read as they were bound (no in-place edit)", nontrivial=False, where=where(f))
    rep.floor(6, "cover helpers")


def flags_rule(ctx: Ctx, rep: Report, h: Func) -> None:
    """R03.7 for the option flags helper (inclusion direction only; empty flags really mean no flag)."""
    rep.rule("R03.7")
    rep.instance()
    other = h.params[1] if len(h.params) > 1 else "other"
    cfg = ctx.cfg(h)
    found = False
    for p in function_paths(cfg):
        if p.raises or p.ret is None or isinstance(p.ret, ast.Constant):
            continue
        inc = inclusion(p.ret, p.env)
        if inc is None:
            continue
        found = True
        x, y, kind = inc
        rx_, ry = deep_resolve(x, p.env), deep_resolve(y, p.env)
        good = kind == "subset" and mentions(rx_, "self") and not mentions(rx_, other) and mentions(ry, other) and not mentions(ry, "self")
        if good:
            rep.ok(f"{h.qualname}: {snippet(p.ret, 60)}", f"bottom(self) ⊆ top({other})", where=where(h))
        else:
            rep.violation(h.qualname, snippet(p.ret), f"flag cover is not bottom ⊆ top ({kind}: {snippet(rx_, 40)} vs {snippet(ry, 40)})", where(h))
    if not found:
        rep.violation(h.qualname, "cover test", "no set-inclusion test decides the flag cover", where(h))


# what the later rounds (seeding rounds 2-5, refactor twins, defect hunt) added to what the check decides
LATER_ROUNDS = "a refused assignment to an option, address or port expression of an entry leaves text and cover sets in agreement, members follow the group name, `any` is typed only under the test that means it, the compared sets are not edited in place, no store outside the objects feeds them"
EXPLANATION = EXPLANATION.replace(" Does not decide", " Later rounds added: " + LATER_ROUNDS + ". Does not decide", 1) if " Does not decide" in EXPLANATION else EXPLANATION + " Later rounds added: " + LATER_ROUNDS + "."
