"""C17 — not implemented yet (fail closed)."""
from ..model import AnalysisError
PROPERTY = "C17"
LEVEL = "other"
EXPLANATION = "not implemented"
def run(ctx, rep, tier):
    raise AnalysisError("rules for C17 are not implemented yet")
