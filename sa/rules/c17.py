"""C17 No operation's effect depends on earlier operations — hidden carried state, state outside the object."""

from __future__ import annotations

import ast
from typing import Dict, List, Optional, Set, Tuple

from ..cfg import Node
from ..core import Ctx, Report, snippet, where
from ..model import Class, Func, own_nodes, src
from .c05 import memo_rules
from .keys import DATA_CLASSES, consumed, exported, reinit_sites

PROPERTY = "C17"
LEVEL = "other"
EXPLANATION = (
    "Decides the static core of 'no operation's effect depends on which operations were applied before': a class that "
    "re-initialises itself from data() carries no constructor option that data() does not export (it would be silently "
    "reset by the first re-initialising setter), the package keeps no state outside the objects (no module-level value "
    "mutated by a function, no memo that survives a reassignment), and re-initialisation assigns every attribute the "
    "class can hold (nothing keeps a pre-operation value by accident). Does not decide agreement of each operation with "
    "a reference model or parse-back after each step: those need executions."
)
ASSUMPTIONS = ["objects are not shared between threads"]

# (class, key): reason why a consumed-but-not-exported key is not carried state
CARRY_EXCEPTIONS = {
    ("Remark", "type"): "no effect on a remark",
    ("Remark", "max_ncwb"): "no effect on a remark",
    ("Remark", "protocol_nr"): "no effect on a remark",
    ("Remark", "port_nr"): "no effect on a remark",
    ("Acl", "sequence"): "Acl never re-initialises itself through data()",
}


def reinit_classes(ctx: Ctx) -> Dict[str, List[str]]:
    """class name -> setters through which instances of it re-initialise themselves."""
    out: Dict[str, List[str]] = {}
    for f, call, kind, d in reinit_sites(ctx):
        owner = f.cls
        for cls in ctx.prog.subclasses(owner):
            if cls.name not in DATA_CLASSES:
                continue
            # the site applies to cls only if cls does not override the accessor
            g = cls.lookup_setter(f.name) if f.kind == "setter" else cls.lookup_method(f.name)
            if g is f:
                out.setdefault(cls.name, []).append(f.qualname)
    return out


def r17_1(ctx: Ctx, rep: Report) -> None:
    rep.rule("R17.1")
    rc = reinit_classes(ctx)
    rep.instance(len(rc))
    rep.floor(5, "classes that re-initialise themselves")
    for cn, setters in sorted(rc.items()):
        cls = ctx.cls(cn)
        ex, co = exported(ctx, cls), consumed(ctx, cls)
        df = cls.lookup_method("data")
        for k in sorted(co):
            if k in ex or k == "uuid":
                continue
            rep.instance()
            if (cn, k) in CARRY_EXCEPTIONS:
                rep.ok(f"{cn}: option {k!r}", CARRY_EXCEPTIONS[(cn, k)], nontrivial=False)
                continue
            rep.violation(
                df.qualname,
                f"consumed key {k!r} not exported",
                f"{cn} re-initialises itself from data() in {sorted(set(setters))}, but data() does not export the constructor option {k!r} "
                f"(read by {co[k]}): the first such setter silently resets it to the default, so later operations depend on earlier ones",
                where(df),
                inp=f"g = {cn}(..., {k}=<non-default>); g.{'type = \"extended\"' if cn != 'AddrGroup' else 'platform = \"nxos\"'}  ->  {k} back to its default",
            )
        rep.ok(f"{cn}: exported ⊇ consumed", f"checked {len(co)} constructor keys against {len(ex)} exported keys", where=where(df))


def r17_2(ctx: Ctx, rep: Report, fixture: bool = False) -> int:
    rep.rule("R17.2")
    hits = 0
    for mod in ctx.prog.modules.values():
        mutable_globals: Dict[str, ast.AST] = {}
        for name, exprs in mod.consts.items():
            v = exprs[-1]
            if isinstance(v, (ast.List, ast.Dict, ast.Set, ast.ListComp, ast.DictComp, ast.SetComp)) or (isinstance(v, ast.Call) and isinstance(v.func, ast.Name) and v.func.id in ("list", "dict", "set", "defaultdict")):
                mutable_globals[name] = v
        for f in ctx.prog.funcs:
            if f.module is not mod:
                continue
            local_names = {x.id for x in ast.walk(f.node) if isinstance(x, ast.Name) and isinstance(x.ctx, ast.Store)} | set(f.params)
            for n in own_nodes(f.node):
                if isinstance(n, (ast.Global, ast.Nonlocal)):
                    hits += 1
                    rep.violation(f.qualname, f"{'global' if isinstance(n, ast.Global) else 'nonlocal'} {', '.join(n.names)}", "module-level state is rebound by a function: results depend on earlier calls", where(f, n))
                tgt = None
                if isinstance(n, ast.Call) and isinstance(n.func, ast.Attribute) and n.func.attr in ("append", "extend", "insert", "pop", "remove", "clear", "update", "setdefault", "add", "discard", "sort", "reverse", "popitem") and isinstance(n.func.value, ast.Name):
                    tgt = n.func.value.id
                elif isinstance(n, (ast.Assign, ast.AugAssign, ast.Delete)):
                    for t in (n.targets if isinstance(n, (ast.Assign, ast.Delete)) else [n.target]):
                        if isinstance(t, ast.Subscript) and isinstance(t.value, ast.Name):
                            tgt = t.value.id
                if tgt and tgt in mutable_globals and tgt not in local_names:
                    hits += 1
                    rep.violation(f.qualname, snippet(n), f"the module-level {tgt} is mutated by a function: state survives outside the objects and later operations depend on earlier ones", where(f, n))
    if not fixture:
        rep.instance()
        if hits == 0:
            rep.ok("package", f"no function rebinds or mutates module-level state ({sum(len(m.consts) for m in ctx.prog.modules.values())} module-level names examined)")
    return hits


_MUT = ("append", "extend", "insert", "pop", "remove", "clear", "update", "setdefault", "add", "discard", "sort", "reverse", "popitem")


def _is_mutable_literal(v: Optional[ast.AST]) -> bool:
    return isinstance(v, (ast.List, ast.Dict, ast.Set, ast.ListComp, ast.DictComp, ast.SetComp)) or (isinstance(v, ast.Call) and isinstance(v.func, ast.Name) and v.func.id in ("list", "dict", "set", "defaultdict") )


def r17_4(ctx: Ctx, rep: Report, fixture: bool = False) -> int:
    """State shared between calls or between objects: a mutable default argument that the function changes, stores or
    returns; a class-level container that is changed in place through an instance (never re-bound per instance)."""
    rep.rule("R17.4")
    hits = 0
    n_defaults = 0
    for f in ctx.prog.funcs:
        a = f.node.args
        pos = a.posonlyargs + a.args
        pairs = list(zip(pos[len(pos) - len(a.defaults):], a.defaults)) + [(k, d) for k, d in zip(a.kwonlyargs, a.kw_defaults) if d is not None]
        for arg, d in pairs:
            if not _is_mutable_literal(d):
                continue
            n_defaults += 1
            nm = arg.arg
            if any(isinstance(x, ast.Name) and x.id == nm and isinstance(x.ctx, ast.Store) for x in own_nodes(f.node)):
                # re-bound before use is the usual `x = x or []` idiom: look only at uses of the original
                pass
            for x in own_nodes(f.node):
                if not (isinstance(x, ast.Name) and x.id == nm and isinstance(x.ctx, ast.Load)):
                    continue
                par = getattr(x, "_parent", None)
                bad = None
                if isinstance(par, ast.Attribute) and par.attr in _MUT and isinstance(getattr(par, "_parent", None), ast.Call):
                    bad = "changed in place"
                elif isinstance(par, ast.Subscript) and par.value is x and isinstance(par.ctx, (ast.Store, ast.Del)):
                    bad = "changed in place"
                elif isinstance(par, ast.Return):
                    bad = "returned"
                elif isinstance(par, ast.Assign) and par.value is x and any(isinstance(t, ast.Attribute) for t in par.targets):
                    bad = "stored in an object"
                if bad:
                    hits += 1
                    rep.violation(f.qualname, f"default {nm}={snippet(d, 20)}: {snippet(par, 40)}", f"the default value of `{nm}` is one object for all calls and is {bad}: what one call leaves in it is seen by the next", where(f, x))
                    break
    n_cls = 0
    for cls in ctx.prog.classes.values():
        for st in cls.node.body:
            tg, v = None, None
            if isinstance(st, ast.Assign) and len(st.targets) == 1 and isinstance(st.targets[0], ast.Name):
                tg, v = st.targets[0].id, st.value
            elif isinstance(st, ast.AnnAssign) and isinstance(st.target, ast.Name) and st.value is not None:
                tg, v = st.target.id, st.value
            if tg is None or not _is_mutable_literal(v):
                continue
            n_cls += 1
            users = [c for c in ctx.prog.classes.values() if cls in c.mro]
            rebound = any(isinstance(x, ast.Attribute) and x.attr == tg and isinstance(x.ctx, ast.Store) and src(x.value) == "self" for c in users for g in c.all_funcs() for x in own_nodes(g.node))
            if rebound:
                continue
            for c in users:
                for g in c.all_funcs():
                    for x in own_nodes(g.node):
                        if isinstance(x, ast.Attribute) and x.attr == tg and src(x.value) in ("self", "cls", cls.name) and isinstance(x.ctx, ast.Load):
                            par = getattr(x, "_parent", None)
                            if (isinstance(par, ast.Attribute) and par.attr in _MUT and isinstance(getattr(par, "_parent", None), ast.Call)) or (isinstance(par, ast.Subscript) and par.value is x and isinstance(par.ctx, (ast.Store, ast.Del))):
                                hits += 1
                                rep.violation(g.qualname, f"{cls.name}.{tg} = {snippet(v, 20)}: {snippet(par, 40)}", f"the class-level container `{tg}` is one object for every instance and is changed in place here: what one object does is seen by all others", where(g, x))
    if not fixture:
        rep.instance()
        if hits == 0:
            rep.ok("package", f"no mutable default argument is changed, stored or returned ({n_defaults} mutable defaults); no class-level container is changed in place through an instance ({n_cls} class-level containers)")
    return hits


def derived_attributes_refreshed(ctx: Ctx, rep: Report, rid: str = "R17.6", fixture: bool = False) -> int:
    """An attribute that is computed from other attributes of the object - a helper object built from the object's
    settings (`self._names = PortName(protocol=self._protocol, platform=self._platform, ...)`), a dict that snapshots them -
    is computed again by every setter / public method that changes one of those settings: otherwise the next operation
    works with the settings the object had before."""
    rep.rule(rid)
    base = ctx.prog.classes.get("Base")
    hits = 0
    n_cand = 0
    for cls in ctx.prog.classes.values():
        cands: Dict[str, Tuple[Func, ast.AST, Set[str]]] = {}
        for f in cls.all_funcs():
            for n in own_nodes(f.node):
                if not (isinstance(n, (ast.Assign, ast.AnnAssign)) and n.value is not None):
                    continue
                t = n.targets[0] if isinstance(n, ast.Assign) else n.target
                if not (isinstance(t, ast.Attribute) and src(t.value) == "self"):
                    continue
                v = n.value
                # the value may be built by a private helper of the class that ends in the construction
                if isinstance(v, ast.Call) and isinstance(v.func, ast.Attribute) and src(v.func.value) == "self" and not v.args and not v.keywords:
                    m = cls.lookup_method(v.func.attr)
                    if m is not None:
                        rets = [r.value for r in own_nodes(m.node) if isinstance(r, ast.Return) and r.value is not None and not (isinstance(r.value, ast.Constant) and r.value.value is None)]
                        if len(rets) == 1:
                            v = rets[0]
                reads = {x.attr for x in ast.walk(v) if isinstance(x, ast.Attribute) and src(x.value) == "self" and isinstance(x.ctx, ast.Load)}
                if not reads:
                    continue
                kind = None
                if isinstance(v, ast.Call) and isinstance(v.func, ast.Name):
                    c = ctx.prog.resolve_name(f.module, v.func.id)
                    if isinstance(c, Class) and not (base is not None and c.is_subclass_of(base)) and any(isinstance(x, ast.Attribute) and src(x.value) == "self" for a in list(v.args) + [k.value for k in v.keywords] for x in ast.walk(a)):
                        kind = f"a {c.name} built from"
                    elif v.func.id == "dict" and len(reads) >= 2 and all(k.arg for k in v.keywords):
                        kind = "a dict that snapshots"
                elif isinstance(v, ast.Dict) and len(reads) >= 2:
                    kind = "a dict that snapshots"
                if kind:
                    cands[t.attr] = (f, n, {cls_norm(cls, r) for r in reads}, kind)  # type: ignore[assignment]
        if not cands:
            continue
        memo: Dict = {}
        users = [c for c in ctx.prog.classes.values() if cls in c.mro]
        for attr, (f0, n0, deps, kind) in sorted(cands.items()):  # type: ignore[misc]
            n_cand += 1
            for ucls in users:
                entries = []
                for c in ucls.mro:
                    for g in c.all_funcs():
                        if g.parent is not None or g.name == "__init__":
                            continue
                        own = ucls.lookup_setter(g.name) if g.kind == "setter" else (ucls.lookup_method(g.name) if g.kind in ("method",) else None)
                        if own is g and (g.kind == "setter" or not g.name.startswith("_")):
                            entries.append(g)
                for e in entries:
                    w = {cls_norm(ucls, a) for a, _k in ctx.effects.self_writes(e, ucls)}
                    touched = sorted(w & deps)
                    if not touched or attr in w and attr in _must_assign(ctx, e, ucls, memo):
                        continue
                    if attr in _must_assign(ctx, e, ucls, memo):
                        continue
                    hits += 1
                    tag = e.qualname if ucls is e.cls else f"{e.qualname} (as inherited by {ucls.name})"
                    rep.violation(tag, f"writes {touched}, self.{attr} keeps its value", f"self.{attr} is {kind} {sorted(deps)} ({f0.qualname}); this operation changes {touched} and does not compute it again: what is done next (parsing names, building entries) still uses the old settings", where(e), inp=f"obj = {ucls.name}(...); obj.{e.name} = <other value>; then parse or render")
    if not fixture:
        rep.instance()
        if hits == 0:
            rep.ok("package", f"every attribute derived from the object's settings ({n_cand} found) is recomputed by every operation that changes them", nontrivial=bool(n_cand))
    return hits


def cls_norm(cls: Class, attr: str) -> str:
    """`platform` and `_platform` are one setting when the class has a getter of that name for the private attribute."""
    return attr.lstrip("_")


def no_shared_fromkeys_value(ctx: Ctx, rep: Report, rid: str = "R17.7") -> int:
    """`dict.fromkeys(keys, <one mutable object>)` files the SAME object under every key: where the values are changed
    afterwards (through `D[k][...] = v`, `D[k].update(...)`, or a local bound to `D[k]`), a change meant for one key is a
    change of all - two ACLs bound to one interface both get both directions."""
    rep.rule(rid)
    hits = 0
    n = 0
    for f in ctx.prog.funcs:
        for x in own_nodes(f.node):
            if not (isinstance(x, (ast.Assign, ast.AnnAssign)) and x.value is not None and isinstance(x.value, ast.Call) and src(x.value.func) == "dict.fromkeys" and len(x.value.args) == 2):
                continue
            v = x.value.args[1]
            mutable = isinstance(v, (ast.Dict, ast.List, ast.Set)) or (isinstance(v, ast.Call) and src(v.func) in ("dict", "list", "set"))
            t = x.targets[0] if isinstance(x, ast.Assign) else x.target
            if not mutable or not isinstance(t, ast.Name):
                continue
            n += 1
            d_ = t.id
            aliases = {y.targets[0].id for y in own_nodes(f.node) if isinstance(y, ast.Assign) and isinstance(y.targets[0], ast.Name) and isinstance(y.value, ast.Subscript) and src(y.value.value) == d_}
            aliases |= {y.target.id for y in own_nodes(f.node) if isinstance(y, ast.AnnAssign) and isinstance(y.target, ast.Name) and y.value is not None and isinstance(y.value, ast.Subscript) and src(y.value.value) == d_}
            def is_value(e: ast.AST) -> bool:
                return (isinstance(e, ast.Subscript) and src(e.value) == d_) or (isinstance(e, ast.Name) and e.id in aliases)
            changed = [y for y in own_nodes(f.node) if (isinstance(y, ast.Assign) and any(isinstance(tt, ast.Subscript) and is_value(tt.value) for tt in y.targets)) or (isinstance(y, ast.Call) and isinstance(y.func, ast.Attribute) and y.func.attr in ("update", "append", "extend", "add", "setdefault", "insert") and is_value(y.func.value))]
            rep.instance()
            if changed:
                hits += 1
                rep.violation(f.qualname, f"{snippet(x, 50)} ... {snippet(changed[0], 40)}", "every key of the dict holds the same mutable object, and that object is changed through one key: the change shows under all keys", where(f, x), inp="interface X / ip access-group A in / ip access-group B out  ->  A and B both get input and output")
            else:
                rep.ok(f"{f.qualname}: {snippet(x, 40)}", "the shared value is not changed afterwards", where=where(f, x))
    rep.instance()
    if hits == 0 and n == 0:
        rep.ok("package", "no dict.fromkeys with a mutable value", nontrivial=False)
    return hits


def carried_flags(ctx: Ctx, rep: Report, rid: str = "R17.5", fixture: bool = False) -> int:
    """No method remembers in a flag that "there is nothing to do" when what it would do depends on objects nested in the
    object (ports, addresses): those are handed out to the user and change without the owner noticing, so the flag is
    stale after `ace.dstport.items = [...]` and the next call skips the work."""
    rep.rule(rid)
    hits = 0
    for cls in ctx.prog.classes.values():
        for f in cls.methods.values():
            if f.name.startswith("__"):
                continue
            flags = set()
            for x in own_nodes(f.node):
                if isinstance(x, ast.If) and x.body and isinstance(x.body[-1], ast.Return):
                    t = x.test
                    if isinstance(t, ast.UnaryOp) and isinstance(t.op, ast.Not):
                        t = t.operand
                    if isinstance(t, ast.Attribute) and src(t.value) == "self" and cls.lookup_getter(t.attr) is None:
                        flags.add(t.attr)
            for fl in sorted(flags):
                sets = [x for x in own_nodes(f.node) if isinstance(x, ast.Assign) and any(isinstance(t, ast.Attribute) and src(t) == f"self.{fl}" for t in x.targets) and isinstance(x.value, ast.Constant) and x.value.value is True]
                if not sets:
                    continue
                nested = [x for x in own_nodes(f.node) if isinstance(x, ast.Attribute) and isinstance(x.value, ast.Attribute) and src(x.value.value) == "self" and isinstance(x.ctx, ast.Load) and x.value.attr != fl]
                if nested:
                    hits += 1
                    rep.violation(f.qualname, f"self.{fl} ... {snippet(sets[0], 30)}", f"the method returns early when self.{fl} is set and sets it itself after looking at `{snippet(nested[0], 30)}`: the nested object can change without this object noticing, and the next call answers from the flag", where(f, sets[0]), inp="ace.ungroup_ports(); ace.dstport.items = [80, 443]; ace.ungroup_ports()")
    # "same value as last time" shortcut of a setter: the value equals what is stored, but the object need not be in the
    # state that value produced any more (its items were edited in place since)
    def owns_nested(cls_) -> bool:
        # the class, or a class that inherits the setter, keeps a list of members or an object of the package in an attribute
        for c_ in ctx.prog.classes.values():
            if cls_ not in c_.mro:
                continue
            for g in c_.all_funcs():
                for x in own_nodes(g.node):
                    if isinstance(x, (ast.Assign, ast.AnnAssign)) and x.value is not None:
                        for t in (x.targets if isinstance(x, ast.Assign) else [x.target]):
                            if isinstance(t, ast.Attribute) and src(t.value) == "self":
                                if t.attr.lstrip("_") == "items" or isinstance(x.value, (ast.List, ast.ListComp)):
                                    return True
                                if isinstance(x.value, ast.Call) and isinstance(x.value.func, ast.Name) and x.value.func.id in ctx.prog.classes:
                                    return True
        return False

    for cls in ctx.prog.classes.values():
        for f in cls.setters.values():
            if len(f.params) < 2 or not owns_nested(cls):
                continue
            p_ = f.params[1]
            for x in own_nodes(f.node):
                if isinstance(x, ast.If) and x.body and isinstance(x.body[-1], ast.Return):
                    for c in ast.walk(x.test):
                        if isinstance(c, ast.Compare) and len(c.ops) == 1 and isinstance(c.ops[0], (ast.Eq, ast.Is)):
                            sides = [c.left, c.comparators[0]]
                            # the new value, as given or converted (`bool(v)`, `str(v)`, `h.init_x(v)`), against a stored one
                            has_param = lambda s_: any(isinstance(z, ast.Name) and z.id == p_ for z in ast.walk(s_))  # noqa: E731
                            has_self = lambda s_: any(isinstance(z, ast.Attribute) and src(z.value) == "self" for z in ast.walk(s_))  # noqa: E731
                            if any(has_param(s_) and not has_self(s_) for s_ in sides) and any(has_self(s_) and not has_param(s_) for s_ in sides):
                                hits += 1
                                rep.violation(f.qualname, snippet(x.test, 60), "the setter does nothing when it is given the value it stored last time: what that value once produced (parsed items, derived fields) may have been changed in place since, and is not rebuilt - the answers from the flag of 'already done' are stale", where(f, x), inp="g = AddrGroup(text); g.items.pop(); g.line = text  # nothing is parsed")
    if not fixture:
        rep.instance()
        if hits == 0:
            rep.ok("package", "no method keeps a 'nothing to do' flag over the state of nested objects; no setter skips its work for a repeated value", nontrivial=False)
    return hits


class _Top(set):
    """Must-assign set of a function that never returns normally: absorbing for union (vacuous truth)."""

    def __or__(self, other):
        return self

    def __ror__(self, other):
        return self

    def __ior__(self, other):
        return self

    def __contains__(self, item) -> bool:
        return True


NEVER_RETURNS = _Top()


def _must_assign(ctx: Ctx, f: Func, self_cls: Class, memo: Dict, depth: int = 0, symenv: Optional[Dict[str, object]] = None) -> Set[str]:
    """Attributes of self that are assigned on every normally-returning path of f (interprocedural, must).

    With `symenv` (e.g. {"self._platform": "ios"}) branches whose condition folds to a constant are pruned."""
    key = (id(f), self_cls.name, tuple(sorted((symenv or {}).items())))
    if key in memo:
        return memo[key]
    memo[key] = set()
    if depth > 8:
        return set()
    cfg = ctx.cfg(f)
    self_name = f.params[0] if f.params else "self"

    from .common import single_env as _single_env

    senv_ = _single_env(f.node)

    def gen(n: Node) -> Set[str]:
        out: Set[str] = set()
        if n.ast is None or n.kind not in ("stmt",):
            return out
        if isinstance(n.ast, (ast.Assign, ast.AnnAssign, ast.AugAssign)):
            tgts = n.ast.targets if isinstance(n.ast, ast.Assign) else [n.ast.target]
            # `a, self._x = self._x, v`: every element of a tuple target is a target
            tgts = [e for t in tgts for e in (t.elts if isinstance(t, (ast.Tuple, ast.List)) else [t])]
            for t in tgts:
                if isinstance(t, ast.Attribute) and src(t.value) == self_name and (not isinstance(n.ast, ast.AnnAssign) or n.ast.value is not None):
                    st = self_cls.lookup_setter(t.attr)
                    if st is not None:
                        r_ = _must_assign(ctx, st, self_cls, memo, depth + 1, symenv)
                        if r_ is NEVER_RETURNS:
                            return NEVER_RETURNS
                        out |= r_
                    else:
                        out.add(t.attr)
        for x in ast.walk(n.ast):
            # a bound method picked by a conditional expression (directly, or through a local bound once to it):
            # whichever is called, the attributes both of them assign are assigned
            if isinstance(x, ast.Call):
                fx = x.func
                if isinstance(fx, ast.Name) and fx.id in senv_:
                    fx = senv_[fx.id]
                if isinstance(fx, ast.IfExp):
                    cands = []
                    for alt in (fx.body, fx.orelse):
                        if isinstance(alt, ast.Attribute) and src(alt.value) == self_name:
                            m_ = self_cls.lookup_method(alt.attr)
                            if m_ is not None and m_ is not f:
                                cands.append(m_)
                    if len(cands) == 2:
                        sets = [_must_assign(ctx, m_, self_cls, memo, depth + 1, symenv) for m_ in cands]
                        live = [s_ for s_ in sets if s_ is not NEVER_RETURNS]
                        if not live:
                            return NEVER_RETURNS
                        acc = set(live[0])
                        for s_ in live[1:]:
                            acc &= s_
                        out |= acc
            if isinstance(x, ast.Call) and isinstance(x.func, ast.Attribute):
                callee = None
                if src(x.func.value) == self_name:
                    callee = self_cls.lookup_method(x.func.attr)
                elif src(x.func.value) == "super()" and f.cls in self_cls.mro:
                    for c in self_cls.mro[self_cls.mro.index(f.cls) + 1 :]:
                        if x.func.attr in c.methods:
                            callee = c.methods[x.func.attr]
                            break
                elif isinstance(x.func.value, ast.Name) and x.func.value.id in ctx.prog.classes and x.args and src(x.args[0]) == self_name:
                    callee = ctx.prog.classes[x.func.value.id].lookup_method(x.func.attr)
                if callee is not None and callee is not f:
                    r_ = _must_assign(ctx, callee, self_cls, memo, depth + 1, symenv)
                    if r_ is NEVER_RETURNS:
                        return NEVER_RETURNS
                    out |= r_
        return out

    # forward must-analysis (a node that calls a never-returning callee has no normal successor state): IN[n] = intersection of OUT[pred]; OUT = IN | gen
    order = cfg.live
    gens = {n: gen(n) for n in order}

    def solve(fixed: Dict[str, bool]):
        OUT: Dict[Node, Optional[Set[str]]] = {n: None for n in order}
        changed = True
        it = 0
        while changed and it < 50:
            changed = False
            it += 1
            for n in order:
                preds = []
                for lab, p in n.pred:
                    if lab == "exc":
                        continue
                    if p.kind == "cond" and lab in ("T", "F") and isinstance(p.ast, ast.Name) and p.ast.id in fixed and fixed[p.ast.id] != (lab == "T"):
                        continue  # this case fixes the local the other way
                    if symenv and p.kind == "cond" and lab in ("T", "F"):
                        from ..fold import known as _known

                        v = ctx.folder.fold(p.ast, f.module, dict(symenv))
                        if _known(v) and bool(v) != (lab == "T"):
                            continue  # infeasible edge for this platform
                    preds.append(p)
                ins: Optional[Set[str]] = None
                for p in preds:
                    if OUT.get(p) is None:
                        continue
                    ins = set(OUT[p]) if ins is None else ins & OUT[p]
                if n is cfg.entry:
                    ins = set()
                if ins is None:
                    continue
                if gens[n] is NEVER_RETURNS:
                    continue  # the statement never completes normally
                new = ins | gens[n]
                if OUT[n] is None or new != OUT[n]:
                    OUT[n] = new
                    changed = True
        return OUT.get(cfg.exit)

    # case split on boolean locals that are bound once and tested more than once (`is_host = ...; if not is_host and ...:
    # ...; if is_host:`): every path belongs to exactly one case, so the must-set is the intersection over the cases
    from ..pathsem import _assigned_names

    unstable = _assigned_names(f.node)
    tested: Dict[str, int] = {}
    for c in order:
        if c.kind == "cond" and isinstance(c.ast, ast.Name) and c.ast.id not in unstable and c.ast.id not in f.params:
            tested[c.ast.id] = tested.get(c.ast.id, 0) + 1
    split = sorted(k for k, v in tested.items() if v >= 2)[:3]
    res = None
    any_case = False
    import itertools as _it

    for values in _it.product([True, False], repeat=len(split)):
        r_case = solve(dict(zip(split, values)))
        if r_case is None:
            continue
        any_case = True
        res = set(r_case) if res is None else res & r_case
    if not any_case or res is None:
        res = NEVER_RETURNS  # no normal path (under this platform): vacuous for the caller
    memo[key] = res
    return res


def r17_3(ctx: Ctx, rep: Report) -> None:
    rep.rule("R17.3")
    memo: Dict[Tuple[int, str], Set[str]] = {}
    rc = reinit_classes(ctx)
    for cn in sorted(rc):
        cls = ctx.cls(cn)
        init = cls.lookup_method("__init__")
        if init is None:
            continue
        rep.instance()
        all_attrs: Dict[str, str] = {}
        for c in cls.mro:
            for g in c.all_funcs():
                for n in own_nodes(g.node):
                    if isinstance(n, (ast.Assign, ast.AnnAssign, ast.AugAssign)):
                        for t in n.targets if isinstance(n, ast.Assign) else [n.target]:
                            if isinstance(t, ast.Attribute) and src(t.value) == "self" and cls.lookup_setter(t.attr) is None:
                                all_attrs.setdefault(t.attr, g.qualname)
        must = _must_assign(ctx, init, cls, memo)
        missing = sorted(a for a in all_attrs if a not in must)
        if missing:
            for a in missing:
                rep.violation(
                    init.qualname,
                    f"{cn}: attribute {a} not assigned on every path of the __init__ chain",
                    f"{all_attrs[a]} stores {a}, but re-initialisation ({sorted(set(rc[cn]))}) does not assign it on every path: it keeps its pre-operation value",
                    where(init),
                )
        else:
            rep.ok(f"{cn}.__init__ chain", f"definitely assigns all {len(all_attrs)} attributes the class stores", where=where(init))
    # __dict__.update re-initialisations replace every attribute: the donor is a fresh instance of the same class
    for f, call, kind, d in reinit_sites(ctx):
        if "__dict__" not in kind:
            continue
        rep.instance()
        donor_cls = call.func.id if isinstance(call.func, ast.Name) else ""
        if f.cls is not None and donor_cls == f.cls.name:
            rep.ok(f"{f.qualname}: {kind}", "donor is a fresh instance of the same class: every attribute is replaced", where=where(f, call))
        else:
            rep.violation(f.qualname, kind, f"the donor object is a {donor_cls}, not a {f.cls.name if f.cls else '?'}: attributes of the receiver survive the re-initialisation", where(f, call))


PREMISES = ["c10", "c15", "c16", "c19", "c02", "c04"]


def run(ctx: Ctx, rep: Report, tier: str) -> None:
    # R17.0: the structural obligations of every public operation (resequence, group/ungroup/sort, copy/export/import
    # and the switches, port splitting, platform change, shadow removal) are necessary conditions of this property too:
    # an operation that breaks its own contract cannot agree with a reference model of that operation.
    import importlib

    for name in PREMISES:
        mod = importlib.import_module(f"sa.rules.{name}")
        if getattr(mod, "EXPLANATION", "") == "not implemented":
            continue
        sub = Report(name.upper())
        mod.run(ctx, sub, tier)
        rep.absorb(sub, "R17.0")
    r17_1(ctx, rep)
    r17_2(ctx, rep)
    from ..fixtures import run_fixture

    run_fixture("modstate", lambda c, r: r17_2(c, r, fixture=True), expect_violation="module-level")
    r17_4(ctx, rep)
    run_fixture("shared", lambda c, r: r17_4(c, r, fixture=True), expect_violation="one object for")
    carried_flags(ctx, rep)
    no_shared_fromkeys_value(ctx, rep)
    run_fixture("carried", lambda c, r: carried_flags(c, r, fixture=True), expect_violation="answers from the flag")
    derived_attributes_refreshed(ctx, rep)
    run_fixture("carried", lambda c, r: derived_attributes_refreshed(c, r, fixture=True), expect_violation="keeps its value")
    n = memo_rules(ctx, rep, rid="R17.2m")
    if not n:
        rep.note("R17.2m no memoised method in the package")
    r17_3(ctx, rep)


# what the later rounds (seeding rounds 2-5, refactor twins, defect hunt) added to what the check decides
LATER_ROUNDS = "no 'nothing to do' flag or repeated-value shortcut over nested state, attributes derived from settings are refreshed by every writer of those settings, no state shared through mutable defaults or class-level containers, no shared dict.fromkeys value that is changed afterwards"
EXPLANATION = EXPLANATION.replace(" Does not decide", " Later rounds added: " + LATER_ROUNDS + ". Does not decide", 1) if " Does not decide" in EXPLANATION else EXPLANATION + " Later rounds added: " + LATER_ROUNDS + "."
