"""C11 Shadow answers exact on group-free entries; ACL report follows its spec (skip combinations, attribution)."""

from __future__ import annotations

import ast
from typing import Dict, List, Optional, Set, Tuple

from ..cfg import Node
from ..core import Ctx, Report, snippet, where
from ..model import Func, own_nodes, src
from ..pathsem import function_paths
from .c03 import SIBLINGS, helper_for_field, r03_1, r03_2, r03_3
from .common import chain, chains_in, deep_resolve, mentions, names_in, norm_field, reachable_without_edges, single_env
from .shading import analyse_shading, check_strictly_above


def _norm_gl(ctx, q):
    """The method with a generator that is consumed by one loop written as the nested loops it stands for, and pairwise
    tuple assignments split (`a, b = x[:i], x[i:]`)."""
    from .normalise import normalised

    return normalised(ctx, ctx.func(q), "genloops")

PROPERTY = "C11"
LEVEL = "other"
EXPLANATION = (
    "Decides the skip-combination clause (skip options are independent and can only falsify), source/destination "
    "agreement and conjunction completeness of the pairwise test, and the report bookkeeping of Acl.shading: tops are "
    "visited in list order, an entry is recorded under the first top that covers it, only on a positive answer, at most "
    "once. Does not decide completeness ('exactly when' the packet set is contained), which is a statement about values."
)
ASSUMPTIONS = ["the per-field cover tests are the ones analysed under C03"]


def r11_3(ctx: Ctx, rep: Report) -> None:  # noqa: C901
    rep.rule("R11.3")
    sf = analyse_shading(ctx)
    f, cfg = sf.f, sf.cfg
    rep.instance()
    if sf.probe is None or sf.outer is None or sf.inner is None:
        rep.violation("Acl.shading", "attribution loop", "no nested top/bottom loop with a shadow_of test found", where(f))
        return
    P = sf.probe
    bvar, tvar = src(sf.bottom), src(sf.top)
    # result dict = the returned name
    rets = [n for n in cfg.live if n.kind == "stmt" and isinstance(n.ast, ast.Return) and n.ast.value is not None]
    dnames = {src(r.ast.value) for r in rets}
    if len(dnames) != 1:
        rep.violation("Acl.shading", "return", f"the report is not a single accumulated object: returns {sorted(dnames)}", where(f))
        return
    D = dnames.pop()
    # ascending visit order
    it = sf.outer.ast.iter  # type: ignore[union-attr]
    it_s = src(it)
    if "reversed" in it_s or "[::-1]" in it_s or "sorted" in it_s:
        rep.violation("Acl.shading", f"for ... in {it_s}", "tops are not visited in list order: an entry would be attributed to a later covering entry", where(f, it))
    else:
        rep.ok(f"Acl.shading: for ... in {it_s}", "tops visited in ascending list order", where=where(f, it))
    # append sites
    appends: List[Tuple[Node, ast.AST, ast.AST]] = []
    for n in cfg.live:
        if n.kind != "stmt" or not isinstance(n.ast, ast.Expr) or not isinstance(n.ast.value, ast.Call):
            continue
        c = n.ast.value
        if isinstance(c.func, ast.Attribute) and c.func.attr in ("append", "add", "extend") and c.args:
            recv = c.func.value
            key = None
            if isinstance(recv, ast.Call) and isinstance(recv.func, ast.Attribute) and recv.func.attr in ("setdefault", "get") and src(recv.func.value) == D and recv.args:
                key = recv.args[0]
            elif isinstance(recv, ast.Subscript) and src(recv.value) == D:
                key = recv.slice
            if key is not None:
                appends.append((n, key, c.args[0]))
    # direct stores D[k] = [...]
    if not appends:
        rep.violation("Acl.shading", f"report {D}", "no statement records a bottom entry under its top in the returned report", where(f))
        return
    # recorder set
    senv = single_env(f.node)  # `line_bottom = ace_bottom.line` used as the recorded text
    guards: List[Tuple[Node, ast.AST, str]] = []  # cond node, tested expr, set name
    for c in cfg.live:
        if c.kind == "cond" and isinstance(c.ast, ast.Compare) and len(c.ast.ops) == 1 and isinstance(c.ast.ops[0], (ast.NotIn, ast.In)) and isinstance(c.ast.comparators[0], ast.Name):
            if mentions(deep_resolve(c.ast.left, senv), bvar.split(".")[0]):
                guards.append((c, c.ast.left, c.ast.comparators[0].id))
    p_true = [s for lab, s in P.succ if lab == "T"]
    inner_head = sf.inner
    for node, key, val in appends:
        cons = f"{D}[{snippet(key, 30)}] += {snippet(val, 30)}"
        # (1) only on a positive answer
        if node in reachable_without_edges(cfg, cfg.entry, {(P.id, "T")}):
            rep.violation("Acl.shading", cons, "an entry is recorded on a path where no shadow_of answer was positive: the report lists entries nobody shadows", where(f, node.ast))
            continue
        # (2) key from top, value from bottom
        rkey, rval = deep_resolve(key, senv), deep_resolve(val, senv)
        if not (mentions(rkey, tvar.split(".")[0]) and mentions(rval, bvar.split(".")[0])) or mentions(rkey, bvar.split(".")[0]):
            rep.violation("Acl.shading", cons, f"the report must list the bottom entry ({bvar}) under its top ({tvar})", where(f, node.ast))
            continue
        # (3) guarded by "not yet recorded"
        gs = [(g, e, s) for g, e, s in guards if g in cfg.reachable(p_true[0], labels_avoid=("exc",))] if p_true else []
        held = {(g.id, "T" if isinstance(g.ast.ops[0], ast.NotIn) else "F") for g, _, _ in gs}
        if not gs or node in reachable_without_edges(cfg, p_true[0], held):
            rep.violation("Acl.shading", cons, "the entry is recorded without a 'not yet recorded' guard: it is listed under every covering top, not once under the first", where(f, node.ast))
            continue
        rep.ok(f"Acl.shading: {cons}", "recorded only after a positive answer and only if not yet recorded", where=where(f, node.ast))
        # (4) recording post-dominates every positive answer
        for g, e, sname in gs:
            def is_rec(n: Node, sname=sname, e=e) -> bool:
                if n.kind != "stmt" or not isinstance(n.ast, ast.Expr) or not isinstance(n.ast.value, ast.Call):
                    return False
                c = n.ast.value
                return isinstance(c.func, ast.Attribute) and c.func.attr in ("add", "append") and src(c.func.value) == sname and c.args and src(c.args[0]) == src(e)

            recs = [n for n in cfg.live if is_rec(n)]
            if not recs:
                rep.violation("Acl.shading", f"{sname}.add({snippet(e, 30)})", "the 'already recorded' set is never filled with what the guard tests", where(f, g.ast))
                continue
            already = {(g2.id, "F" if isinstance(g2.ast.ops[0], ast.NotIn) else "T") for g2, e2, s2 in gs if s2 == sname and src(e2) == src(e)}
            escaped = False
            if p_true and inner_head is not None and not is_rec(p_true[0]):
                # reachable from the positive answer without recording and without learning "already recorded"
                seen = set()
                stack = [p_true[0]]
                while stack:
                    x = stack.pop()
                    if x in seen or is_rec(x):
                        continue
                    seen.add(x)
                    if x is inner_head:
                        escaped = True
                        break
                    for lab, nx in x.succ:
                        if lab == "exc" or (x.id, lab) in already:
                            continue
                        stack.append(nx)
            if escaped:
                rep.violation("Acl.shading", f"{sname}.add({snippet(e, 30)})", "a positive answer can continue to the next candidate without the entry being marked as recorded: a later top would list it again", where(f, recs[0].ast))
            else:
                rep.ok(f"Acl.shading: {sname}.add({snippet(e, 30)})", "post-dominates every positive answer", where=where(f, recs[0].ast))
            # (5) the set lives across tops: initialised outside the loops
            inits = [n for n in cfg.live if n.kind == "stmt" and isinstance(n.ast, (ast.Assign, ast.AnnAssign)) and sname in {t.id for t in ast.walk(n.ast.targets[0] if isinstance(n.ast, ast.Assign) else n.ast.target) if isinstance(t, ast.Name)}]
            body = cfg.reachable([s for lab, s in sf.outer.succ if lab == "body"][0], labels_avoid=("exc",)) if [s for lab, s in sf.outer.succ if lab == "body"] else set()
            body_only = {n for n in body if sf.outer in cfg.reachable(n, labels_avoid=("exc",))}
            if any(n in body_only for n in inits):
                rep.violation("Acl.shading", f"{sname} re-initialised inside the loop", "the 'already recorded' set is reset for every top: entries are listed under several tops", where(f, inits[0].ast))
            elif inits:
                rep.ok(f"Acl.shading: {sname} initialised once", "before the loop over tops", where=where(f, inits[0].ast))


def r11_5(ctx: Ctx, rep: Report) -> None:
    """Every (top, bottom) pair is examined: the loops of Acl.shading are left only by exhaustion and no candidate
    is skipped before the shadow_of test."""
    rep.rule("R11.5")
    sf = analyse_shading(ctx)
    f, cfg = sf.f, sf.cfg
    if sf.probe is None or sf.outer is None or sf.inner is None:
        return
    for loop, what in ((sf.outer, "tops"), (sf.inner, "candidates")):
        if loop is sf.outer and sf.inner is sf.outer and what == "candidates":
            continue
        rep.instance()
        body = [s for lab, s in loop.succ if lab == "body"]
        if not body:
            continue
        # nodes of one iteration: reachable from the body start without passing the loop head again
        region = cfg.reachable(body[0], avoid=lambda n, loop=loop: n is loop, labels_avoid=("exc",))
        region = {n for n in region if loop in cfg.reachable(n, labels_avoid=("exc",))}
        region.add(body[0])
        leaks = []
        for n in region:
            if n is loop:
                continue
            for lab, s in n.succ:
                if lab == "exc":
                    continue
                if s not in region and s is not loop and s is not cfg.raise_exit:
                    leaks.append((n, lab, s))
        if leaks:
            n, lab, s = leaks[0]
            rep.violation("Acl.shading", f"{snippet(n.ast) if n.ast is not None else n.kind} leaves the loop over {what}", f"the loop over {what} can be left before it is exhausted: later entries are never compared, so shadowed entries are missing from the report", where(f, n.ast), inp="an ACL with shadowed entries near the top and an independent shading pair near the end (A, a1, B, b1)")
        else:
            rep.ok(f"Acl.shading: loop over {what}", "left only by exhaustion (no break/return inside)", where=where(f, loop.ast))
    # no candidate is skipped: every path through the inner body reaches the probe
    rep.instance()
    inner_body = [s for lab, s in sf.inner.succ if lab == "body"]
    if inner_body and inner_body[0] is not sf.probe and not cfg.all_paths_pass(inner_body[0], sf.inner, lambda n: n is sf.probe, labels_avoid=("exc",)):
        rep.violation("Acl.shading", "candidate skipped before the shadow_of test", "some candidate below the top is passed over without being tested", where(f, sf.inner.ast))
    else:
        rep.ok("Acl.shading: inner loop", "every candidate reaches the shadow_of test", where=where(f, sf.inner.ast))
    # every top reaches its candidates
    if sf.outer is not sf.inner:
        rep.instance()
        ob = [s for lab, s in sf.outer.succ if lab == "body"]
        if ob and ob[0] is not sf.inner and not cfg.all_paths_pass(ob[0], sf.outer, lambda n: n is sf.inner, labels_avoid=("exc",)):
            rep.violation("Acl.shading", "top skipped", "some top entry is passed over without its candidates being examined", where(f, sf.outer.ast))
        else:
            rep.ok("Acl.shading: outer loop", "every top reaches the loop over its candidates", where=where(f, sf.outer.ast))


def r11_4(ctx: Ctx, rep: Report, helpers: Dict[str, Optional[Func]]) -> None:
    rep.rule("R11.4")
    for fld in ("_srcaddr", "_dstaddr"):
        h = helpers.get(fld)
        if h is None:
            continue
        other = h.params[1] if len(h.params) > 1 else "other"
        cfg = ctx.cfg(h)
        for c in cfg.live:
            if c.kind != "cond" or not isinstance(c.ast, ast.Compare):
                continue
            t = c.ast
            if not (len(t.ops) == 1 and isinstance(t.ops[0], ast.In) and isinstance(t.left, ast.Constant) and isinstance(t.left.value, str)):
                continue
            token = t.left.value
            if token not in ("addrgroup", "nc_wildcard"):
                continue
            if not any(isinstance(x, ast.Name) and x.id.startswith("skip") or isinstance(x, ast.Name) and x.id == "options" for x in ast.walk(t.comparators[0])) and not isinstance(t.comparators[0], ast.Name):
                continue
            # skip-token test (right side is a plain local) vs. kind test (right side is a display of .type)
            if not isinstance(t.comparators[0], ast.Name):
                continue
            rep.instance()
            pres = [s for lab, s in c.succ if lab == "T"]
            abse = [s for lab, s in c.succ if lab == "F"]
            if not pres or not abse:
                continue
            region = cfg.reachable(pres[0], labels_avoid=("exc",)) - cfg.reachable(abse[0], labels_avoid=("exc",))
            reads: Dict[str, Set[str]] = {"self": set(), other: set()}
            from .common import deep_resolve, single_env

            senv = single_env(h.node)  # `bottom_o = self.srcaddr` ... `bottom_o.type`
            for n in region:
                if n.kind == "cond":
                    for ch in chains_in(deep_resolve(n.ast, senv) or n.ast):
                        if ch[0] in reads and len(ch) >= 3 and norm_field(h.cls, ch[1]) == fld:
                            reads[ch[0]].add(ch[2].rstrip("()"))
            want = "ipnet" if token == "nc_wildcard" else "type"
            missing = [side for side in ("self", other) if want not in reads[side] and not (token == "nc_wildcard" and "type" in reads[side] and "ipnet" in reads[side])]
            if missing:
                rep.violation(h.qualname, f"skip {token!r} region", f"the skipped address kind is not examined on {' and '.join(missing)} via .{want}: the answer is not forced to False whenever a skipped kind is involved", where(h, c.ast))
            else:
                rep.ok(f"{h.qualname}: skip {token!r}", f"reads .{want} of {fld} on self and {other}", where=where(h, c.ast))
    rep.floor(4, "skip-token regions")


def skip_forwarding(ctx: Ctx, rep: Report, rid: str = "R11.6") -> None:
    """The skip options reach the pairwise test unchanged from every entry point: a function that receives `skip` and
    calls a function that also takes `skip` passes its own value on (not a default, not another value)."""
    rep.rule(rid)
    n = 0
    for f in sorted(ctx.prog.funcs, key=lambda x: x.qualname):
        if "skip" not in f.params:
            continue
        seen_calls = set()
        for e in ctx.cg.all_edges(f):
            g = e.target
            if not isinstance(g, Func) or e.weak or e.kind != "call" or not isinstance(e.site, ast.Call) or "skip" not in g.params or id(e.site) in seen_calls:
                continue
            seen_calls.add(id(e.site))
            n += 1
            rep.instance()
            call = e.site
            val = next((k.value for k in call.keywords if k.arg == "skip"), None)
            if val is None:
                params = list(g.params)
                if g.cls is not None and g.kind in ("method", "getter", "setter", "classmethod") and params:
                    params = params[1:]
                i = params.index("skip") if "skip" in params else -1
                if 0 <= i < len(call.args):
                    val = call.args[i]
            # `skip_ = list(skip or [])` handed on: the same options as a list (a copy, None read as "none given")
            def same_options(v: Optional[ast.AST], depth: int = 0) -> bool:
                if v is None or depth > 3:
                    return False
                if src(v) == "skip":
                    return True
                if isinstance(v, ast.Call) and isinstance(v.func, ast.Name) and v.func.id in ("list", "tuple") and len(v.args) == 1 and not v.keywords:
                    return same_options(v.args[0], depth + 1)
                if isinstance(v, ast.BoolOp) and isinstance(v.op, ast.Or) and len(v.values) == 2 and isinstance(v.values[1], (ast.List, ast.Tuple)) and not v.values[1].elts:
                    return same_options(v.values[0], depth + 1)
                if isinstance(v, ast.Name):
                    binds = [x.value for x in own_nodes(f.node) if isinstance(x, (ast.Assign, ast.AnnAssign)) and x.value is not None and any(isinstance(t, ast.Name) and t.id == v.id for t in (x.targets if isinstance(x, ast.Assign) else [x.target]))]
                    return len(binds) == 1 and v.id not in f.params and same_options(binds[0], depth + 1)
                return False

            if same_options(val):
                rep.ok(f"{f.qualname} -> {g.qualname}", "skip forwarded unchanged", where=where(f, call))
            else:
                rep.violation(f.qualname, snippet(call), f"the skip options are not handed on to {g.qualname} ({'not passed: the default applies' if val is None else 'another value: ' + snippet(val)}): this entry point answers as if no option had been given", where(f, call), inp="Acl.shadow_of(skip=['nc_wildcard']) vs Acl.shading(skip=['nc_wildcard'])")
    rep.floor(4, "calls that must forward the skip options")


def ungroup_always_flattens(ctx: Ctx, rep: Report, rid: str = "R11.7") -> None:
    """The report is computed on a flattened copy: `Acl.ungroup()` flattens whenever it is called - an ACL can hold groups
    without a grouping prefix (built from `items=[AceGroup, ...]`, from data, by insert), so no path of ungroup() returns
    without having replaced the items by the flat list (entries inside a group would be missing from the report)."""
    rep.rule(rid)
    f = ctx.func("Acl.ungroup")
    cfg = ctx.cfg(f)
    paths = [p for p in function_paths(cfg) if not p.raises]
    rep.instance(len(paths))
    bad = None
    for p in paths:
        flat = False
        for node, _lab in p.nodes:
            if node.kind == "stmt" and isinstance(node.ast, ast.Assign) and any(isinstance(t, ast.Attribute) and src(t.value) == "self" and t.attr in ("items", "_items") for t in node.ast.targets) and "_ungroup(" in src(node.ast.value):
                flat = True
        if not flat:
            bad = p
            break
    if bad is not None:
        held = "; ".join(f"{snippet(t, 30)}{'' if tr else ' (false)'}" for t, tr in bad.atoms)
        rep.violation("Acl.ungroup", f"path [{held}] returns without flattening", "groups that the ACL holds stay groups on this path: shading() / delete_shadow(), which work on an ungrouped copy, do not see the entries inside them", where(f), inp="Acl(items=[AceGroup(...), ...]) without group_by; acl.shading()")
    else:
        rep.ok("Acl.ungroup", "every normal path stores the flattened list", where=where(f))
    sh = _norm_gl(ctx, "Acl.shading")
    rep.instance()
    if any(isinstance(x, ast.Call) and isinstance(x.func, ast.Attribute) and x.func.attr in ("ungroup", "_ungroup") for x in own_nodes(sh.node)):
        rep.ok("Acl.shading", "works on an ungrouped copy", where=where(sh))
    else:
        rep.violation("Acl.shading", "flattening", "the report no longer flattens the groups before comparing entries", where(sh))


def report_in_position_order(ctx: Ctx, rep: Report, rid: str = "R11.8") -> None:
    """'Earlier' means earlier in the ACL: the list the report loops over is the item list filtered, in item order - not
    sorted by sequence number or anything else (text need not be in ascending number order; unnumbered lines have 0)."""
    from .common import order_of

    rep.rule(rid)
    f = _norm_gl(ctx, "Acl.shading")
    cfg = ctx.cfg(f)
    loops = [n for n in cfg.live if n.kind == "for"]
    rep.instance()
    rep.require(bool(loops), "Acl.shading lost its loops")
    it = loops[0].ast.iter
    base = it.args[0] if isinstance(it, ast.Call) and isinstance(it.func, ast.Name) and it.func.id == "enumerate" and it.args else it
    if isinstance(base, ast.Call) and "combinations" in src(base.func) and base.args:
        base = base.args[0]
    state, why = order_of(ctx, f, base)
    reorder = [x for x in own_nodes(f.node) if isinstance(x, ast.Call) and isinstance(x.func, ast.Attribute) and x.func.attr in ("sort", "reverse") and isinstance(base, ast.Name) and src(x.func.value) == base.id]
    if reorder:
        rep.violation("Acl.shading", snippet(reorder[0], 60), "the entries are re-ordered before they are compared: 'an earlier entry' is then not an entry that stands above in the ACL, and the report lists entries under the wrong one (or not at all)", where(f, reorder[0]), inp="'20 permit ...' written above '10 permit ...'")
    elif state.startswith("ordered:"):
        rep.ok(f"Acl.shading: {snippet(base, 30)}", f"item order ({why})", where=where(f, base))
    else:
        rep.violation("Acl.shading", snippet(base, 60), f"the list the report loops over is not in item order: {state} ({why})", where(f, base), inp="'20 permit ...' written above '10 permit ...'")


def run(ctx: Ctx, rep: Report, tier: str) -> None:
    # R11.0: every clause C03 decides about the pairwise test (conjunction, skip independence/monotonicity = the
    # 'for every combination of skip options' clause, sibling agreement, inclusion direction, ...) is a premise here
    from . import c03
    from .c03 import packet_fields

    sub = Report("C11")
    c03.run(ctx, sub, tier)
    rep.absorb(sub, "R11.0")
    helpers = {f: helper_for_field(ctx, rep, f) for f in packet_fields(ctx)}
    r11_3(ctx, rep)
    rep.rule("R11.3b")
    check_strictly_above(ctx, rep, analyse_shading(ctx))
    r11_4(ctx, rep, helpers)
    r11_5(ctx, rep)
    skip_forwarding(ctx, rep)
    ungroup_always_flattens(ctx, rep)
    report_in_position_order(ctx, rep)
    # R11.9 premise: an entry that carries a log keyword is an entry of the ACL (C01 R01.18): refused words drop the line
    # from the ACL with a warning and the report is silently incomplete
    from .c01 import log_keywords_pass

    log_keywords_pass(ctx, rep, rid="R11.9")
    # R11.10 premise: no valid entry is refused for its length (C06 R06.9): a long group-free entry (two wildcards, two
    # port ranges, flags, log) that the line normaliser refuses is dropped from the ACL with a warning - the report is
    # silently incomplete, and `shading()` raises where an entry renders longer than it was typed
    from .c06 import length_gates

    sub69 = Report("C11")
    length_gates(ctx, sub69)
    rep.absorb(sub69, "R11.10")


# what the later rounds (seeding rounds 2-5, refactor twins, defect hunt) added to what the check decides
LATER_ROUNDS = "the skip options are independent and monotone on every path, ungroup always flattens, the report follows item order, log keywords pass the option word test, no entry is refused for its length"
EXPLANATION = EXPLANATION.replace(" Does not decide", " Later rounds added: " + LATER_ROUNDS + ". Does not decide", 1) if " Does not decide" in EXPLANATION else EXPLANATION + " Later rounds added: " + LATER_ROUNDS + "."
