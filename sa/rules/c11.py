"""C11 — not implemented yet (fail closed)."""
from ..model import AnalysisError
PROPERTY = "C11"
LEVEL = "other"
EXPLANATION = "not implemented"
def run(ctx, rep, tier):
    raise AnalysisError("rules for C11 are not implemented yet")
