"""C06 — not implemented yet (fail closed)."""
from ..model import AnalysisError
PROPERTY = "C06"
LEVEL = "other"
EXPLANATION = "not implemented"
def run(ctx, rep, tier):
    raise AnalysisError("rules for C06 are not implemented yet")
