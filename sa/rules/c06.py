"""C06 Rendered text is a parser fixed point — every renderer speaks the vocabulary its own parser listens to."""

from __future__ import annotations

import ast
import re as _re
from typing import Any, Dict, List, Optional, Set, Tuple

from ..core import Ctx, Report, snippet, where
from ..fold import UNKNOWN, known
from ..model import AnalysisError, Class, Func, own_nodes, src
from ..pathsem import feasible, fold_path, function_paths, render_table, resolve_local
from .. import rx
from .c01 import normalise_first, regex_pieces
from .common import chain, deep_resolve

PROPERTY = "C06"
LEVEL = "other"
EXPLANATION = (
    "Decides that every renderer speaks the vocabulary its own parser listens to, per platform (ACL header with or "
    "without the type word, address-group header, object-group/addrgroup/group-object keywords, host, any, the remark "
    "action, the sequence prefix, the config-level section regexes), that parsing starts from whitespace-normalised text, "
    "and that every attribute a renderer reads is set by the paired parser or is an exported constructor option. Does "
    "not decide the fixed-point equality X(X(t).line).line == X(t).line over the input space."
)
ASSUMPTIONS = ["platforms claimed: ios and nxos (asa support is declared partial by the library itself)"]

NATIVE = ("ios", "nxos")


def _call_regex_under(ctx: Ctx, f: Func, plat: str, helper_names=("findall1", "findall2", "findall3", "re_find_t", "match", "search", "findall"), _depth: int = 0) -> List[str]:
    """Regex patterns (folded) that `f` applies on paths feasible for platform `plat` (private helpers of the object
    that `f` calls on those paths included)."""
    out: List[str] = []
    symenv = {"self._platform": plat, "self.platform": plat, "platform": plat}
    for p in function_paths(ctx.cfg(f)):
        if feasible(p, ctx.folder, f, symenv) is False:
            continue
        env = dict(symenv)
        loopvals: Dict[str, List[str]] = {}
        for node, lab in p.nodes:
            if node.ast is None:
                continue
            if node.kind == "stmt" and isinstance(node.ast, (ast.Assign, ast.AnnAssign)) and node.ast.value is not None:
                t = node.ast.targets[0] if isinstance(node.ast, ast.Assign) else node.ast.target
                if isinstance(t, ast.Name):
                    env[t.id] = ctx.folder.fold(node.ast.value, f.module, env)
                elif isinstance(t, ast.Tuple) and isinstance(node.ast.value, ast.Tuple) and len(t.elts) == len(node.ast.value.elts):
                    for a, b in zip(t.elts, node.ast.value.elts):
                        if isinstance(a, ast.Name):
                            env[a.id] = ctx.folder.fold(b, f.module, env)
            if node.kind == "for" and isinstance(node.ast.target, ast.Name):
                seq = ctx.folder.fold(node.ast.iter, f.module, env)
                if isinstance(seq, (tuple, list)) and seq and all(isinstance(v, str) for v in seq):
                    loopvals[node.ast.target.id] = list(seq)
            roots = [node.ast] if node.kind != "for" else [node.ast.iter]
            for r in roots:
                for x in ast.walk(r):
                    if isinstance(x, ast.Call) and isinstance(x.func, ast.Attribute) and src(x.func.value) == "self" and f.cls is not None and _depth < 2:
                        m = f.cls.lookup_method(x.func.attr)
                        if m is not None and m is not f:
                            for v in _call_regex_under(ctx, m, plat, helper_names, _depth + 1):
                                if v not in out:
                                    out.append(v)
                    if isinstance(x, ast.Call) and ((isinstance(x.func, ast.Attribute) and x.func.attr in helper_names) or (isinstance(x.func, ast.Name) and x.func.id in helper_names)) and x.args:
                        v = ctx.folder.fold(x.args[0], f.module, env)
                        vals = [v]
                        if not isinstance(v, str):
                            # the pattern is built from the variable of a loop over a constant tuple of words
                            used = [k for k in loopvals if any(isinstance(y, ast.Name) and y.id == k for y in ast.walk(x.args[0]))]
                            if len(used) == 1:
                                vals = [ctx.folder.fold(x.args[0], f.module, dict(env, **{used[0]: w})) for w in loopvals[used[0]]]
                        for v in vals:
                            if isinstance(v, str) and v not in out:
                                out.append(v)
    return out


def r06_1(ctx: Ctx, rep: Report) -> None:  # noqa: C901
    rep.rule("R06.1")
    folder = ctx.folder
    # ---- 1. ACL header
    w = ctx.func("Acl._cfg_acl_name")
    r = ctx.func("Acl._parse_type_name")
    types = ["extended", "standard"]
    for plat in NATIVE:
        for ty in types:
            if plat == "nxos" and ty == "standard":
                continue
            rep.instance()
            env = {"self._platform": plat, "self._type": ty, "self._name": "NAME"}
            (se, text), = render_table(folder, ctx.cfg(w), w, [env])
            if not known(text) or not isinstance(text, str):
                raise AnalysisError("Acl._cfg_acl_name is no longer foldable")
            ok, why = _parse_header(ctx, r, plat, text, ty)
            if ok:
                rep.ok(f"ACL header {plat}/{ty}: {text!r}", why, where=where(w))
            else:
                rep.violation("Acl._cfg_acl_name", f"{plat}/{ty}: {text!r}", f"the header the renderer emits is not read back by Acl._parse_type_name on the same platform: {why}", where(w), inp=f'Acl("{text}\\n permit ip any any", platform="{plat}").line re-parsed')
    # ---- 2. address-group header
    w = ctx.func("AddrGroup.cmd_addgr_name")
    r = ctx.func("AddrGroup.line.setter")
    for plat in NATIVE:
        rep.instance()
        (se, text), = render_table(folder, ctx.cfg(w), w, [{"self._platform": plat, "self._name": "NAME"}])
        if not known(text):
            raise AnalysisError("AddrGroup.cmd_addgr_name is no longer foldable")
        pats = _call_regex_under(ctx, r, plat)
        hit = [p for p in pats if _match_name(p, text) == "NAME"]
        if hit:
            rep.ok(f"address-group header {plat}: {text!r}", f"read back by {hit[0]!r}", where=where(w))
        else:
            rep.violation("AddrGroup.cmd_addgr_name", f"{plat}: {text!r}", f"none of the patterns the line setter applies on {plat} ({pats}) reads the name back from the rendered header", where(w), inp=f'AddrGroup(g.line, platform="{plat}") raises')
    # ---- 3. ACE address group keyword
    for cn, mname in (("AddressBase", "_cmd_addrgroup"), ("AddressAg", "_cmd_addrgroup")):
        cls = ctx.cls(cn)
        w = cls.methods.get(mname)
        if w is None:
            continue
        isg = cls.lookup_method("_is_addrgroup")
        lng = cls.lookup_method("_line_addrgroup")
        for plat in NATIVE:
            rep.instance()
            (se, kw), = render_table(folder, ctx.cfg(w), w, [{"self._platform": plat}])
            if not known(kw) or not isinstance(kw, str):
                raise AnalysisError(f"{cn}._cmd_addrgroup is no longer foldable")
            text = f"{kw} NAME"
            reads_self = lambda f: any(isinstance(x, ast.Call) and src(x.func) == f"self.{mname}" for x in own_nodes(f.node))  # noqa: E731
            ok1 = reads_self(isg) or any(isinstance(v, str) and text.startswith(v) for v in _startswith_literals(ctx, isg))
            pats = _call_regex_under(ctx, lng, plat)
            ok2 = reads_self(lng) or any(_match_name(p, text) == "NAME" for p in pats)
            normal = [p for p in function_paths(ctx.cfg(lng)) if not p.raises and feasible(p, folder, lng, {"self._platform": plat, "self.platform": plat}) is not False]
            if not normal:
                rep.ok(f"{cn} group keyword {plat}", f"{lng.qualname} rejects group references on {plat}: nothing is rendered that would need reading back", nontrivial=False, where=where(lng))
                continue
            if ok1 and ok2:
                rep.ok(f"{cn} group keyword {plat}: {kw!r}", "classifier and name extractor accept it", where=where(w))
            else:
                rep.violation(w.qualname, f"{plat}: {kw!r}", f"the keyword the renderer emits is not accepted by {'the classifier ' + isg.qualname if not ok1 else 'the name extractor ' + lng.qualname}", where(w), inp=f'{cn if cn != "AddressBase" else "Address"}("{text}", platform="{plat}")')
    # the ACE grammar alternation knows both spellings
    pe = ctx.func("parsers.parse_ace_extended")
    from .c01 import address_alternation

    addr = address_alternation(ctx, pe)
    rep.require(addr is not None, "parsers.parse_ace_extended: the address alternation of the ACE grammar was not found")
    lits = {x.strip() for x in rx.alternation_literals(addr)}
    w = ctx.cls("AddressBase").methods["_cmd_addrgroup"]
    for plat in NATIVE:
        rep.instance()
        (se, kw), = render_table(folder, ctx.cfg(w), w, [{"self._platform": plat}])
        if kw in lits:
            rep.ok(f"ACE grammar accepts {kw!r}", "member of the address alternation", where=where(pe))
        else:
            rep.violation("parsers.parse_ace_extended", f"address alternation {sorted(lits)}", f"the renderer writes {kw!r} on {plat} but the ACE grammar does not list it", where(pe))
    # ---- 5/6. host, any
    g = ctx.func("AddressBase.line.getter")
    emitted: Set[str] = set()
    for n in own_nodes(g.node):
        if isinstance(n, ast.Return) and n.value is not None:
            if isinstance(n.value, ast.Constant) and isinstance(n.value.value, str):
                emitted.add(n.value.value)
            elif isinstance(n.value, ast.JoinedStr) and n.value.values and isinstance(n.value.values[0], ast.Constant):
                emitted.add(str(n.value.values[0].value))
    ab = ctx.cls("AddressBase")
    for lit, clsf in (("host ", "_is_address_host"), ("any", "_is_address_any")):
        rep.instance()
        f = ab.lookup_method(clsf)
        accepts = set(_startswith_literals(ctx, f)) | set(_eq_literals(f))
        in_grammar = any(l.strip() == lit.strip() for l in lits)
        if lit in emitted and lit in accepts and in_grammar:
            rep.ok(f"address keyword {lit!r}", f"emitted by the renderer, accepted by {clsf} and by the ACE grammar", where=where(g))
        elif lit not in emitted:
            rep.ok(f"address keyword {lit!r}", "not emitted as a literal by the renderer (nothing to agree on)", nontrivial=False, where=where(g))
        else:
            rep.violation("AddressBase.line.getter", f"keyword {lit!r}", f"emitted by the renderer but {'not accepted by ' + clsf if lit not in accepts else 'absent from the ACE grammar'}", where(g), inp=f'Address("{lit}10.0.0.1")')
    # ---- 7. remark action
    rm = ctx.func("Remark.__init__")
    rep.instance()
    act = None
    for n in own_nodes(rm.node):
        if isinstance(n, ast.Assign) and any(isinstance(t, ast.Attribute) and src(t) == "self._action" for t in n.targets) and isinstance(n.value, ast.Constant):
            act = n.value.value
    actions = folder.const("helpers", "ACTIONS")
    pa = ctx.func("parsers.parse_action")
    rxa, _ = regex_pieces(ctx, pa)
    rl = ctx.func("Remark.line.setter")
    expects = {n.value.value for n in own_nodes(rl.node) if isinstance(n, ast.Assign) and isinstance(n.value, ast.Constant) and isinstance(n.value.value, str)}
    if act in actions and _re.match(rxa, f"{act} TEXT") and act in expects:
        rep.ok(f"remark action {act!r}", "in ACTIONS, matched by parse_action, expected by Remark.line setter", where=where(rm))
    else:
        rep.violation("Remark.__init__", f"_action = {act!r}", "the action word a remark renders is not the one its parser expects", where(rm))
    # ---- 8. sequence prefix
    sq = ctx.func("AceBase._sequence_s")
    for q in ("parsers.parse_ace_extended", "parsers.parse_ace_standard", "parsers.parse_action"):
        f = ctx.func(q)
        rep.instance()
        rxx, pieces = regex_pieces(ctx, f)
        first = pieces[0][0] if pieces else ""
        pv = folder.local_env(f).get(first)
        ok = isinstance(pv, str) and _re.fullmatch(pv, "4294967295") is not None and _re.fullmatch(pv, "") is not None
        if not isinstance(pv, str):
            # compiled pattern: the leading optional group of decimal digits
            pv = rx.group_text(rxx, 1)
            ok = rx.leading_optional_digits(rxx)
        if ok:
            rep.ok(f"{q}: leading piece {first} = {pv!r}", "matches any decimal sequence number and its absence", where=where(f))
        else:
            rep.violation(q, f"leading piece {first} = {pv!r}", "the sequence prefix the renderer writes (decimal digits or nothing) is not read back", where(f))
    # ---- 9. config-level section regexes
    cp_acls = ctx.func("ConfigParser.acls")
    cp_add = ctx.func("ConfigParser.addgrs")
    wa = ctx.func("Acl._cfg_acl_name")
    wg = ctx.func("AddrGroup.cmd_addgr_name")
    for plat in NATIVE:
        for ty in types:
            if plat == "nxos" and ty == "standard":
                continue
            # NAME, and names that begin with a type keyword (legal ACL names; on NX-OS the header has no type word)
            for name_w in ("NAME", "extended-in", "standard1"):
                rep.instance()
                (se, text), = render_table(folder, ctx.cfg(wa), wa, [{"self._platform": plat, "self._type": ty, "self._name": name_w}])
                pats = _call_regex_under(ctx, cp_acls, plat)
                ok = False
                for p in pats:
                    m = _re.findall(p, text)
                    if m and isinstance(m[0], tuple) and m[0][-1] == name_w and m[0][0].strip() in ("", ty):
                        ok = (m[0][0].strip() == ty) if plat == "ios" else (m[0][0].strip() == "")
                if ok:
                    rep.ok(f"ConfigParser.acls reads {text!r}", f"type and name recovered by {pats}", where=where(cp_acls))
                else:
                    rep.violation("ConfigParser.acls", f"{pats} on {text!r}", "the section pattern does not recover type and name from the header the Acl renders (a name that begins with a type keyword is cut)", where(cp_acls), inp=f"ip access-list {name_w} on {plat}")
        rep.instance()
        (se, text), = render_table(folder, ctx.cfg(wg), wg, [{"self._platform": plat, "self._name": "NAME"}])
        pats = _call_regex_under(ctx, cp_add, plat)
        ok = any((m := _re.findall(p, text)) and isinstance(m[0], tuple) and m[0][0] and m[0][-1] == "NAME" for p in pats)
        if ok:
            rep.ok(f"ConfigParser.addgrs reads {text!r}", f"kind and name recovered by {pats}", where=where(cp_add))
        else:
            rep.violation("ConfigParser.addgrs", f"{pats} on {text!r}", "the section pattern does not recover the group name from the header the AddrGroup renders", where(cp_add))
    rep.floor(20, "writer/reader keyword pairs")


def _match_name(pattern: str, text: str) -> Optional[str]:
    try:
        m = _re.findall(pattern, text)
    except _re.error:
        return None
    if not m:
        return None
    r = m[0]
    if isinstance(r, tuple):
        r = r[-1]
    return r


def _startswith_literals(ctx: Ctx, f: Optional[Func]) -> List[str]:
    out: List[str] = []
    if f is None:
        return out
    for n in own_nodes(f.node):
        if isinstance(n, ast.Call) and isinstance(n.func, ast.Attribute) and n.func.attr == "startswith" and n.args:
            v = ctx.folder.fold(n.args[0], f.module)
            if isinstance(v, str):
                out.append(v)
            elif isinstance(v, (tuple, list)):
                out.extend(v)
    return out


def _eq_literals(f: Optional[Func]) -> List[str]:
    out = []
    if f is None:
        return out
    for n in own_nodes(f.node):
        if isinstance(n, ast.Compare) and len(n.ops) == 1 and isinstance(n.ops[0], ast.Eq) and isinstance(n.comparators[0], ast.Constant) and isinstance(n.comparators[0].value, str):
            out.append(n.comparators[0].value)
    return out


def _parse_header(ctx: Ctx, r: Func, plat: str, text: str, ty: str) -> Tuple[bool, str]:
    """Does Acl._parse_type_name, specialised to `plat`, read type `ty` and name NAME from `text`?"""
    folder = ctx.folder
    symenv = {"self._platform": plat}
    # expected prefix
    exp = folder.local_env(r).get("expected")
    if isinstance(exp, str) and not text.startswith(exp):
        return False, f"text does not start with the expected prefix {exp!r}"
    pats = _call_regex_under(ctx, r, plat)
    rest = None
    for p in pats:
        m = _re.findall(p, text)
        if m and isinstance(m[0], str) and text.endswith(m[0]):
            rest = m[0]
    if rest is None:
        return False, f"no pattern of {pats} extracts the part after the prefix"
    # does a path feasible for plat treat the whole rest as the name (no type word)?
    takes_all = False
    assigned_type = None
    for p in function_paths(ctx.cfg(r)):
        if p.raises or feasible(p, folder, r, symenv) is False:
            continue
        nm = p.env.get("name")
        if isinstance(nm, ast.Name) and nm.id in ("_line",):
            if not any(isinstance(t, ast.Name) and t.id == "_type" for t, tr in p.atoms):
                takes_all = True
                # the type word this path assigns (last constant bound to _type before it is normalised)
                env2: Dict[str, object] = dict(folder.local_env(r))
                env2.update(symenv)
                for node, _lab in p.nodes:
                    st = node.ast
                    if node.kind == "stmt" and isinstance(st, (ast.Assign, ast.AnnAssign)) and getattr(st, "value", None) is not None:
                        tg = st.targets[0] if isinstance(st, ast.Assign) else st.target
                        pairs = [(tg, st.value)]
                        if isinstance(tg, ast.Tuple) and isinstance(st.value, ast.Tuple) and len(tg.elts) == len(st.value.elts):
                            pairs = list(zip(tg.elts, st.value.elts))
                        for a_, b_ in pairs:
                            if isinstance(a_, ast.Name) and a_.id == "_type":
                                v_ = folder.fold(b_, r.module, env2)
                                if isinstance(v_, str) and v_:
                                    assigned_type = v_
    if takes_all:
        if rest == "NAME" and assigned_type is not None and assigned_type != ty:
            return False, f"on {plat} the parser takes the remainder as the name and assigns type {assigned_type!r}, the renderer wrote a {ty!r} ACL"
        if rest == "NAME":
            return True, "platform takes the whole remainder as the name; the renderer wrote no type word"
        return False, f"on {plat} the parser takes the whole remainder {rest!r} as the name, but the renderer wrote a type word"
    typed = [p for p in pats if "(" in p and _re.findall(p, rest)]
    for p in typed:
        m = _re.findall(p, rest)
        if m and isinstance(m[0], tuple) and m[0][0] == ty and m[0][1] == "NAME":
            return True, f"type and name read back by {p!r}"
    if rest == "NAME":
        return False, f"on {plat} the parser expects a type word, the renderer wrote none (the ACL re-parses as another type)"
    return False, f"no typed pattern of {pats} reads {rest!r}"


def _own_reads(ctx: Ctx, f: Func, cls: Class, _seen: Optional[Set[int]] = None) -> Set[str]:
    """Plain attributes of the object itself (self.X, not self.X.Y's attributes) read by f, following
    property getters and methods invoked on self."""
    _seen = _seen if _seen is not None else set()
    if id(f) in _seen:
        return set()
    _seen.add(id(f))
    out: Set[str] = set()
    self_name = f.params[0] if f.params else "self"
    for n in own_nodes(f.node):
        if isinstance(n, ast.Attribute) and isinstance(n.value, ast.Name) and n.value.id == self_name and isinstance(n.ctx, ast.Load):
            g = cls.lookup_getter(n.attr)
            m = cls.lookup_method(n.attr)
            if g is not None:
                out |= _own_reads(ctx, g, cls, _seen)
            elif m is not None:
                out |= _own_reads(ctx, m, cls, _seen)
            elif n.attr not in ("__class__", "__dict__"):
                out.add(n.attr)
        if isinstance(n, ast.Call) and isinstance(n.func, ast.Attribute) and src(n.func.value) == "super()":
            for c in cls.mro[cls.mro.index(f.cls) + 1 :] if f.cls in cls.mro else []:
                g2 = c.getters.get(n.func.attr) or c.methods.get(n.func.attr)
                if g2 is not None:
                    out |= _own_reads(ctx, g2, cls, _seen)
                    break
        if isinstance(n, ast.Attribute) and src(n.value) == "super()" and f.cls in cls.mro:
            for c in cls.mro[cls.mro.index(f.cls) + 1 :]:
                g2 = c.getters.get(n.attr)
                if g2 is not None:
                    out |= _own_reads(ctx, g2, cls, _seen)
                    break
    return out


def _own_writes(ctx: Ctx, f: Func, cls: Class, _seen: Optional[Set[int]] = None) -> Set[str]:
    _seen = _seen if _seen is not None else set()
    if id(f) in _seen:
        return set()
    _seen.add(id(f))
    out: Set[str] = set()
    self_name = f.params[0] if f.params else "self"
    for n in own_nodes(f.node):
        if isinstance(n, (ast.Assign, ast.AugAssign, ast.AnnAssign)):
            tgts_ = n.targets if isinstance(n, ast.Assign) else [n.target]
            tgts_ = [e for t in tgts_ for e in (t.elts if isinstance(t, (ast.Tuple, ast.List)) else [t])]  # `self._a, self._b = pair`
            for t in tgts_:
                if isinstance(t, ast.Attribute) and isinstance(t.value, ast.Name) and t.value.id == self_name:
                    stt = cls.lookup_setter(t.attr)
                    if stt is not None:
                        out |= _own_writes(ctx, stt, cls, _seen)
                    else:
                        out.add(t.attr)
        if isinstance(n, ast.Call) and isinstance(n.func, ast.Attribute):
            if isinstance(n.func.value, ast.Name) and n.func.value.id == self_name:
                m = cls.lookup_method(n.func.attr)
                if m is not None:
                    out |= _own_writes(ctx, m, cls, _seen)
            elif src(n.func.value) == "super()" and f.cls in cls.mro:
                for c in cls.mro[cls.mro.index(f.cls) + 1 :]:
                    if n.func.attr in c.methods:
                        out |= _own_writes(ctx, c.methods[n.func.attr], cls, _seen)
                        break
    # bound methods of the object taken as values (a table of readers, `reader = self._line__host if ... else ...`) and
    # called through a local: what they write is written by this function
    local_names = {x.id for x in own_nodes(f.node) if isinstance(x, ast.Name) and isinstance(x.ctx, ast.Store)}
    if any(isinstance(x, ast.Call) and ((isinstance(x.func, ast.Name) and x.func.id in local_names) or isinstance(x.func, (ast.Subscript, ast.IfExp))) for x in own_nodes(f.node)):
        for n in own_nodes(f.node):
            if isinstance(n, ast.Attribute) and isinstance(n.ctx, ast.Load) and isinstance(n.value, ast.Name) and n.value.id == self_name:
                par = getattr(n, "_parent", None)
                if isinstance(par, ast.Call) and par.func is n:
                    continue
                m = cls.lookup_method(n.attr)
                if m is not None:
                    out |= _own_writes(ctx, m, cls, _seen)
    return out


def r06_3(ctx: Ctx, rep: Report) -> None:
    rep.rule("R06.3")
    n = 0
    for cls in ctx.prog.classes.values():
        g = cls.getters.get("line")
        st = cls.lookup_setter("line")
        if g is None or st is None or cls.name in ("Base",):
            continue
        n += 1
        reads = _own_reads(ctx, g, cls)
        writes = _own_writes(ctx, st, cls)
        # constructor options: assigned in the __init__ chain from kwargs / init helpers
        ctor: Set[str] = set()
        consts: Set[str] = set()
        for c in cls.mro:
            init = c.methods.get("__init__")
            if init is None:
                continue
            kw = init.node.args.kwarg.arg if init.node.args.kwarg else "kwargs"
            for x in own_nodes(init.node):
                if isinstance(x, (ast.Assign, ast.AnnAssign)) and x.value is not None:
                    for t in x.targets if isinstance(x, ast.Assign) else [x.target]:
                        if isinstance(t, ast.Attribute) and src(t.value) == "self":
                            if any(isinstance(y, ast.Name) and y.id == kw for y in ast.walk(x.value)):
                                ctor.add(t.attr)
                                stt = cls.lookup_setter(t.attr)
                                if stt is not None:
                                    ctor |= _own_writes(ctx, stt, cls)
                            elif isinstance(x.value, ast.Constant):
                                consts.add(t.attr)
        other_writers: Set[str] = set()
        for c in cls.mro:
            for f in c.all_funcs():
                if f.name == "__init__" or f is st:
                    continue
                for x in own_nodes(f.node):
                    if isinstance(x, (ast.Assign, ast.AugAssign, ast.AnnAssign)):
                        for t in x.targets if isinstance(x, ast.Assign) else [x.target]:
                            if isinstance(t, ast.Attribute) and src(t.value) == "self":
                                other_writers.add(t.attr)
        for a in sorted(reads):
            rep.instance()
            if a in writes:
                rep.ok(f"{cls.name}.line: {a}", "set by the paired line setter", nontrivial=False)
            elif a in ctor:
                rep.ok(f"{cls.name}.line: {a}", "constructor option (restored from exported data)", nontrivial=False)
            elif a in consts and a not in other_writers:
                rep.ok(f"{cls.name}.line: {a}", "constant stored once in __init__", nontrivial=False)
            elif a in other_writers and (cls.lookup_setter(a.lstrip("_")) is not None or a in ("_type", "_sequence", "_items", "_name", "_indent", "_has_port", "_platform")):
                rep.ok(f"{cls.name}.line: {a}", "own public setter / exported option", nontrivial=False)
            else:
                rep.violation(g.qualname, f"reads {a}", f"the renderer of {cls.name} reads {a}, which neither the line parser sets nor a constructor option restores: text that depends on it cannot round-trip", where(g))
    rep.floor(9, "line getter/setter pairs")


TEXT_NORMALISERS = ["helpers.init_line", "helpers.init_remark_text", "helpers.init_name", "helpers.int_to_str", "helpers.replace_spaces"]


def _is_ws_normalising(e: ast.AST) -> bool:
    """strip()/replace_spaces()/" ".join(x.split()): idempotent whitespace normalisations."""
    if isinstance(e, ast.Call) and isinstance(e.func, ast.Attribute) and e.func.attr == "strip" and not e.args:
        return True
    if isinstance(e, ast.Call) and src(e.func).split(".")[-1] == "replace_spaces":
        return True
    if isinstance(e, ast.Call) and isinstance(e.func, ast.Attribute) and e.func.attr == "join" and isinstance(e.func.value, ast.Constant) and e.func.value.value == " " and e.args and isinstance(e.args[0], ast.Call) and isinstance(e.args[0].func, ast.Attribute) and e.args[0].func.attr == "split" and not e.args[0].args:
        return True
    return False


def normaliser_fixed_point(ctx: Ctx, rep: Report, rid: str = "R06.5") -> None:
    """What a text initialiser returns is the direct result of an idempotent whitespace normalisation
    (nothing is cut, appended or re-formatted afterwards), so the stored text is a fixed point of it."""
    rep.rule(rid)
    for q in TEXT_NORMALISERS:
        f = ctx.prog.find_func(q)
        if f is None:
            continue
        rep.instance()
        bad = None
        for p in function_paths(ctx.cfg(f)):
            if p.raises or p.ret is None:
                continue
            e = p.ret
            if isinstance(e, ast.Name) and e.id in p.env:
                e = p.env[e.id]
            if isinstance(e, ast.Call) and isinstance(e.func, ast.Name) and e.func.id == "str" and e.args and isinstance(p.ret, ast.Name):
                # int_to_str: the int branch `line = str(line)` is followed by the normaliser on the same path
                continue
            if not _is_ws_normalising(e):
                bad = (p.ret, e)
        if bad is None:
            rep.ok(q, "returns the direct result of strip()/replace_spaces()", where=where(f))
        else:
            rep.violation(q, f"return {snippet(bad[0])} = {snippet(bad[1])}", "the returned text is transformed after the whitespace normalisation (cut, padded, re-formatted): it can end in a blank or differ from what the parser yields for the rendered line", where(f), inp="a remark longer than the cut with a blank at the cut position")
    rep.floor(4, "text initialisers")


def container_render_order(ctx: Ctx, rep: Report, rid: str = "R06.6") -> None:
    """A container renders its members in the order it stores them: the text is then parsed back into the same order
    (a renderer that sorts or reverses gives a stable text but data whose item order differs after the round trip)."""
    from .common import order_of, single_env

    rep.rule(rid)
    n = 0
    from .normalise import normalised as _nrm

    for q in ("AddrGroup.line.getter", "AceGroup.line.getter", "Acl.line.getter"):
        f = ctx.prog.find_func(q)
        if f is None:
            continue
        f = _nrm(ctx, f, "decomp")  # a flattening written as a nested comprehension is read as the loops it stands for
        n += 1
        rep.instance()
        senv = single_env(f.node)
        # the sequences of members the text is made from
        srcs = []
        for x in own_nodes(f.node):
            its = []
            if isinstance(x, (ast.ListComp, ast.GeneratorExp)):
                its = [g.iter for g in x.generators]
            elif isinstance(x, ast.For):
                its = [x.iter]
            for it in its:
                e = it
                for _ in range(4):
                    if isinstance(e, ast.Name) and e.id in senv:
                        e = senv[e.id]
                    else:
                        break
                if any(isinstance(y, ast.Attribute) and src(y) in ("self._items", "self.items") for y in ast.walk(e)):
                    srcs.append((it, e))
        bad = None
        for it, e in srcs:
            state, why = order_of(ctx, f, it)
            if not state.startswith("ordered:self"):
                bad = (it, e, state, why)
        # a local that holds the members may be re-bound to a sorted copy under a condition
        for x in own_nodes(f.node):
            if isinstance(x, (ast.Assign, ast.AnnAssign)) and getattr(x, "value", None) is not None and isinstance(x.value, ast.Call) and src(x.value.func) in ("sorted", "reversed") and x.value.args:
                a0 = x.value.args[0]
                e = senv.get(a0.id, a0) if isinstance(a0, ast.Name) else a0
                tgt = x.targets[0] if isinstance(x, ast.Assign) else x.target
                if isinstance(tgt, ast.Name) and any(isinstance(it_, ast.Name) and it_.id == tgt.id for it_, _ in [(i, 0) for i, _e in srcs] + [(g.iter, 0) for c in own_nodes(f.node) if isinstance(c, (ast.ListComp, ast.GeneratorExp)) for g in c.generators]):
                    bad = bad or (x.value, e, "reordered", "sorted()/reversed() copy of the members")
        if not srcs and bad is None:
            rep.violation(q, "members", "the renderer does not iterate the stored items", where(f))
        elif bad is not None:
            it, e, state, why = bad
            rep.violation(q, snippet(it), f"the members are rendered in another order than they are stored ({state}: {why}): the rendered text re-parses into data whose items are ordered differently", where(f, it), inp="an address group whose members are all numbered and not in ascending order")
        else:
            rep.ok(f"{q}", f"members rendered in stored order ({', '.join(snippet(i, 30) for i, _ in srcs)})", where=where(f))
    rep.floor(3, "container renderers")


def _len_bounded_names(ctx: Ctx, g: Func) -> Set[str]:
    """Names of str-typed locals/parameters of g whose length has an upper bound enforced by a raise."""
    cfg = ctx.cfg(g)
    lens: Dict[str, str] = {}  # local bound to len(<name>) -> name
    for n in own_nodes(g.node):
        if isinstance(n, ast.Assign) and isinstance(n.targets[0], ast.Name) and isinstance(n.value, ast.Call) and src(n.value.func) == "len" and n.value.args and isinstance(n.value.args[0], ast.Name):
            lens[n.targets[0].id] = n.value.args[0].id
    out: Set[str] = set()
    raises = [n for n in cfg.live if n.kind == "stmt" and isinstance(n.ast, ast.Raise)]
    for r in raises:
        for c, lab in cfg.transitive_control_deps(r):
            t = c.ast
            if c.kind != "cond" or not isinstance(t, ast.Compare) or len(t.ops) != 1:
                continue
            sides = [(t.left, t.ops[0], t.comparators[0]), (t.comparators[0], {ast.Gt: ast.Lt(), ast.GtE: ast.LtE(), ast.Lt: ast.Gt(), ast.LtE: ast.GtE()}.get(type(t.ops[0]), t.ops[0]), t.left)]
            for a, op, b in sides:
                nm = None
                if isinstance(a, ast.Call) and src(a.func) == "len" and a.args and isinstance(a.args[0], ast.Name):
                    nm = a.args[0].id
                elif isinstance(a, ast.Name) and a.id in lens:
                    nm = lens[a.id]
                if nm is None:
                    continue
                upper = (isinstance(op, (ast.Gt, ast.GtE)) and lab == "T") or (isinstance(op, (ast.Lt, ast.LtE)) and lab == "F")
                if not upper:
                    continue
                ty = ctx.types.expr_type(ast.Name(id=nm, ctx=ast.Load()), g)
                if ty == ("str",):
                    out.add(nm)
    return out


def length_gates(ctx: Ctx, rep: Report, rid: str = "R06.9") -> None:
    """A reader may bound the length of a text only when that text is kept and rendered as it is (a name).  A bound on
    a whole line is a bound the writer does not have: numbers are rendered as names, so the rendered line can be longer
    than the accepted one and is then refused."""
    from .common import single_env

    rep.rule(rid)
    gates: Dict[int, Tuple[Func, Set[str]]] = {}
    for g in ctx.prog.funcs:
        b = _len_bounded_names(ctx, g)
        if b:
            gates[id(g)] = (g, b)

    def origin_param(g: Func, name: str) -> Optional[str]:
        """The parameter a bounded name is (a normalised copy of)."""
        seen = set()
        while name not in g.params and name not in seen:
            seen.add(name)
            defs = [n.value for n in own_nodes(g.node) if isinstance(n, ast.Assign) and isinstance(n.targets[0], ast.Name) and n.targets[0].id == name]
            nxt = None
            for d in defs:
                if isinstance(d, ast.Call) and isinstance(d.func, ast.Attribute) and isinstance(d.func.value, ast.Name) and d.func.attr in ("strip", "lstrip", "rstrip", "lower"):
                    nxt = d.func.value.id
                elif isinstance(d, ast.Call) and len(d.args) == 1 and isinstance(d.args[0], ast.Name) and not d.keywords:
                    nxt = d.args[0].id
            if nxt is None:
                return None
            name = nxt
        return name if name in g.params else None

    gate_params: Dict[int, Tuple[Func, Set[str]]] = {}
    for g, names in gates.values():
        ps = {origin_param(g, nm) for nm in names} - {None}
        if ps:
            gate_params[id(g)] = (g, ps)  # type: ignore[assignment]
    sites: List[Tuple[Func, ast.AST, str]] = []  # (function, node, bounded local) where a bound meets an object's text
    for g, names in gates.values():
        for nm in names:
            if origin_param(g, nm) is None or g.cls is not None:
                sites.append((g, g.node, nm))
    changed = True
    visited: Set[Tuple[int, int]] = set()
    while changed:
        changed = False
        for f in ctx.prog.funcs:
            for e in ctx.cg.all_edges(f):
                if e.kind != "call" or e.weak or not isinstance(e.site, ast.Call) or id(e.target) not in gate_params or (id(f), id(e.site)) in visited:
                    continue
                visited.add((id(f), id(e.site)))
                g, ps = gate_params[id(e.target)]
                from .common import bind_call

                b = bind_call(g, e.site, bound=g.cls is not None and g.kind != "staticmethod")
                if not b:
                    continue
                for p_ in ps:
                    a = b.get(p_)
                    if not isinstance(a, ast.Name):
                        if a is not None:
                            sites.append((f, e.site, src(a)))
                        continue
                    op = origin_param(f, a.id)
                    if op is not None and f.cls is None:
                        cur = gate_params.setdefault(id(f), (f, set()))
                        if op not in cur[1]:
                            cur[1].add(op)
                            changed = True
                    else:
                        sites.append((f, e.site, a.id))
    rep.instance(len(sites))
    if not gates:
        rep.note(f"{rid} no reader bounds the length of a text")
        return
    for f, node, nm in sites:
        # the bounded text is what the object keeps as its name
        ok = False
        why = ""
        for n in own_nodes(f.node):
            if isinstance(n, ast.Assign) and any(isinstance(t, ast.Attribute) and src(t.value) == "self" and t.attr == "_name" for t in n.targets):
                v = n.value
                if (isinstance(v, ast.Name) and v.id == nm) or v is node or (isinstance(node, ast.Call) and isinstance(getattr(node, "_parent", None), ast.NamedExpr) and isinstance(v, ast.Name) and v.id == getattr(node, "_parent").target.id):
                    ok = True
                    why = f"the bounded text `{nm}` is stored as self._name and rendered as it is"
        if ok:
            rep.ok(f"{f.qualname}: length bound on `{nm}`", why, where=where(f, node))
        else:
            rep.violation(f.qualname, f"length bound on `{nm}` ({snippet(node, 50) if not isinstance(node, ast.FunctionDef) else 'own test'})", "the reader refuses a text by its length, the writer has no such bound: a line accepted with numbers can be rendered longer with names, and the rendered line is refused", where(f, node), inp="an ACE with long port lists, accepted with numbers, rendered with names")
    rep.note(f"{rid} {len(gates)} functions bound the length of a text; {len(sites)} places where the bound meets an object's text")


def header_round_trip(ctx: Ctx, rep: Report, rid: str = "R06.14") -> None:
    """The header an ACL writes is read back to the same type and name: the writer (`Acl._cfg_acl_name`) and the reader
    (`Acl._parse_type_name`) are evaluated by the constant folder for each platform, type and a list of witness names -
    names that contain the type words, punctuation, digits - and the reader must return what the writer was given."""
    from ..fold import RaisesValue

    rep.rule(rid)
    w = ctx.prog.find_func("Acl._cfg_acl_name")
    r = ctx.prog.find_func("Acl._parse_type_name")
    if w is None or r is None or len(r.params) < 2:
        rep.note(f"{rid} header writer / reader not found under their names (not judged; R06.1 covers the header by patterns)")
        return
    names = ["NAME", "mgmt-extended-v2", "extended-in", "standard1", "my.standard.acl", "EDGE_OUT-1", "v6:in/1", "extendedX"]
    combos = [("ios", "extended"), ("ios", "standard"), ("nxos", "extended")]
    judged = 0
    skipped = 0
    for plat, ty in combos:
        for nm in names:
            text = ctx.folder.eval_body(w, {"self._platform": plat, "self._type": ty, "self._name": nm, "self.platform": plat, "self.type": ty, "self.name": nm})
            if not isinstance(text, str):
                skipped += 1
                continue
            got = ctx.folder.eval_body(r, {r.params[1]: text, "self._platform": plat, "self.platform": plat})
            if not (isinstance(got, (tuple, RaisesValue))):
                skipped += 1
                continue
            judged += 1
            rep.instance()
            if got == (ty, nm):
                rep.ok(f"header {plat}/{ty}/{nm}", f"{text!r} is read back as {got}", nontrivial=False)
            else:
                rep.violation("Acl._parse_type_name", f"{text!r} -> {got!r}", f"the header written for a {ty} ACL named {nm!r} on {plat} is read back as {got!r}: type or name do not survive (the entries are then parsed and rendered as the other type)", where(r), inp=f"Acl({text!r} + entries, platform={plat!r})")
    if judged == 0:
        rep.note(f"{rid} the header writer / reader could not be evaluated (not judged)")
    elif skipped:
        rep.note(f"{rid} {skipped} header witnesses could not be evaluated (not judged), {judged} judged")


def member_numbers_symmetric(ctx: Ctx, rep: Report, rid: str = "R06.11") -> None:
    """The reader of a group keeps a member's number under the same conditions under which the member's writer writes it:
    `AddressAg.line` writes the number whenever it is non-zero, whatever the platform, so the group reader that stores
    it from the parsed text must not make that depend on the platform (text with numbers would be read back without)."""
    rep.rule(rid)
    w = ctx.func("AddressAg.line.getter")
    wcfg = ctx.cfg(w)
    writer_platform = False
    for nd in wcfg.live:
        if nd.kind == "stmt" and isinstance(nd.ast, ast.Return) and nd.ast.value is not None and "_sequence" in src(nd.ast.value):
            for c, _lab in wcfg.transitive_control_deps(nd):
                if c.kind == "cond" and "latform" in src(c.ast):
                    writer_platform = True
    r = ctx.func("AddrGroup.line.setter")
    from .normalise import normalised

    rn = normalised(ctx, r, "calls")
    rcfg = ctx.cfg(rn)
    stores = [nd for nd in rcfg.live if nd.kind == "stmt" and isinstance(nd.ast, (ast.Assign, ast.AnnAssign)) and any(isinstance(t, ast.Attribute) and t.attr in ("sequence", "_sequence") for t in (nd.ast.targets if isinstance(nd.ast, ast.Assign) else [nd.ast.target]))]
    rep.instance()
    if not stores:
        # the number may travel inside the member's own text (AddressAg(line="10 host ...")): nothing to compare
        rep.ok("AddrGroup.line setter", "the member's number is not stored separately (it is read by the member from its own text)", nontrivial=False, where=where(r))
        return
    for st in stores:
        cond_pl = [c for c, _lab in rcfg.transitive_control_deps(st) if c.kind == "cond" and "latform" in src(c.ast)]
        if cond_pl and not writer_platform:
            rep.violation("AddrGroup.line.setter", f"{snippet(st.ast, 50)} under {snippet(cond_pl[0].ast, 40)}", "the member's number is kept only on some platforms, but AddressAg.line writes it on every platform: a numbered group rendered on the other platform is read back without its numbers (text and data differ)", where(r, st.ast), inp="AddrGroup('object-group network G\\n 10 host 10.0.0.1', platform='ios')")
        else:
            rep.ok(f"AddrGroup.line setter: {snippet(st.ast, 50)}", "stored under the conditions the writer writes it", where=where(r, st.ast))


def run(ctx: Ctx, rep: Report, tier: str) -> None:
    from . import c01
    from .c08 import validated_is_returned

    container_render_order(ctx, rep)
    length_gates(ctx, rep)
    member_numbers_symmetric(ctx, rep)
    header_round_trip(ctx, rep)
    # R06.15 premises: every address spelling is read whole (C01 R01.16/R01.17); the section dictionary keeps every line
    # of a section whatever white space indents it (C07 R07.13: text rendered with indent="\t" must be read back)
    from .c07 import sections_keep_every_line

    sub7 = Report("C06")
    c01.address_spellings_whole(ctx, sub7)
    c01.group_reference_whole(ctx, sub7)
    sections_keep_every_line(ctx, sub7)
    rep.absorb(sub7, "R06.15")
    # R06.13 the switches a container renders under are the switches its rebuilt members carry (C16 R16.9): a nested
    # group that does not receive protocol_nr renders names where the container's re-parse produces numbers
    from .c16 import settings_propagation

    settings_propagation(ctx, rep, rid="R06.13")
    # R06.12 parsed lines are collected with list operations, never through the de-duplicating Group.add (C12 R12.12)
    from .c12 import no_dedup_collection

    sub12 = Report("C06")
    no_dedup_collection(ctx, sub12)
    rep.absorb(sub12, "R06.12")
    # R06.10 the kind an address is given ("any", "host", ...) decides what is rendered for it: the kind tests must
    # single out exactly the network the keyword stands for, or the rendered keyword re-parses to another network
    c01.classification_guards(ctx, rep, rid="R06.10")
    # R06.7 premises: what the renderer writes is in the reader's vocabulary (port names), a stored sequence number
    # is rendered (C10 R10.6)
    from .c09 import splitter_vocabulary
    from .c10 import rendered_numbers

    sub2 = Report("C06")
    splitter_vocabulary(ctx, sub2, "R09.5")
    rendered_numbers(ctx, sub2, "R10.6")
    rep.absorb(sub2, "R06.7")
    # R06.8 premise: the port object's four views (operator, operands, port list, range string) are computed from one
    # another consistently (C08): data() exports all of them and must be reproduced by re-parsing the rendered line
    from . import c08

    sub3 = Report("C06")
    c08.run(ctx, sub3, tier)
    rep.absorb(sub3, "R06.8")

    # R06.16 a refused assignment leaves an object whose rendered text its own parser accepts: the setters validate
    # before they store (C05 R05.3 wildcard, R05.17 addresses; C03 R03.18 option) - a half-updated wildcard renders a mask
    # the same constructor rejects
    from .c05 import r05_3, rejected_address_changes_nothing
    from .c08 import rejected_leaves_unchanged

    sub16 = Report("C06")
    r05_3(ctx, sub16)
    rejected_address_changes_nothing(ctx, sub16)
    rejected_leaves_unchanged(ctx, sub16, rid="R03.18", targets=(("Option.line.setter", ("_line",)),), what="the new option text over the old flag and log lists: the entry renders tokens its own reader refuses", inp="o = Option('log'); o.line = 'ack time-range WORK'  # ValueError; o.line renders the refused text")
    rep.absorb(sub16, "R06.16")
    # R06.17 the text an object renders is read back under the switches the object carries: the software version is
    # handed on wherever the platform is (generators: C09 R09.16; the blocks Acl.group builds: C16 R16.24) - an entry that
    # carries version 0 but renders the names of version 15 does not re-parse to itself
    from .c09 import version_travels_with_platform
    from .c16 import blocks_get_acl_settings

    sub17 = Report("C06")
    version_travels_with_platform(ctx, sub17)
    blocks_get_acl_settings(ctx, sub17)
    rep.absorb(sub17, "R06.17")
    sub = Report("C06")
    orders = c01.r01_1(ctx, sub)
    c01.r01_2(ctx, sub, orders)
    c01.setter_completeness(ctx, sub)
    rep.absorb(sub, "R06.0")
    normaliser_fixed_point(ctx, rep)
    validated_is_returned(ctx, rep, rid="R06.4")
    r06_1(ctx, rep)
    normalise_first(ctx, rep, rid="R06.2")
    r06_3(ctx, rep)


# what the later rounds (seeding rounds 2-5, refactor twins, defect hunt) added to what the check decides
LATER_ROUNDS = "headers round-trip (writer and reader partially evaluated on witness names), no reader bounds a length the writer can exceed, a refused assignment leaves parseable text (validate before store), the software version travels with the platform"
EXPLANATION = EXPLANATION.replace(" Does not decide", " Later rounds added: " + LATER_ROUNDS + ". Does not decide", 1) if " Does not decide" in EXPLANATION else EXPLANATION + " Later rounds added: " + LATER_ROUNDS + "."
