"""C19 Splitting multi-port entries keeps the meaning — which operators may be split, cross product, splice."""

from __future__ import annotations

import ast
from typing import Dict, List, Optional, Set, Tuple

from ..cfg import Node
from ..core import Ctx, Report, snippet, where
from ..model import Class, Func, own_nodes, src
from ..pathsem import function_paths
from ..typeinf import classes_of, elem
from .c08 import forward_shape, op_paths
from .common import chain, single_env as _single_env, derived_names, element_placements, loop_body_paths, mentions, names_in, order_of, possible_classes

PROPERTY = "C19"
LEVEL = "other"
EXPLANATION = (
    "Decides which operators may be split (only operators whose port set is the union over their operands: splitting one "
    "entry into several is a disjunction), that the split is a source x destination cross product of copies made inside "
    "their iteration, each given a one-element operand list, that an entry needing no split is returned as the same "
    "object, that split entries are spliced where the original stood (every other item placed exactly once, order kept, "
    "groups descended and re-grouped) and that conversion to NX-OS happens after the split. Does not decide that the "
    "union of the resulting packet sets equals the original for all operand tuples."
)
ASSUMPTIONS = ["Port._items_to_ports is the denotation of a port expression (C08)"]


def _rchain(expr: ast.AST, env: Dict[str, ast.AST]) -> Optional[List[str]]:
    """Attribute chain of `expr` with a leading single-assignment local replaced by what it was bound to."""
    c = chain(expr)
    for _ in range(4):
        if c and c[0] in env:
            head = chain(env[c[0]])
            if head is None:
                return c
            c = head + c[1:]
        else:
            break
    return c


def _stage_funcs(ctx: Ctx) -> List[Func]:
    """Ace.ungroup_ports and, when a stage was extracted into a helper that receives the port attribute's name as a
    constant ("srcport"/"dstport"), that helper specialised to each constant (getattr(x, "srcport") -> x.srcport)."""
    from .common import bind_call
    from .normalise import specialised

    up = ctx.func("Ace.ungroup_ports")
    out = [up]
    seen = set()
    for n in own_nodes(up.node):
        if isinstance(n, ast.Call) and (isinstance(n.func, ast.Attribute) and isinstance(n.func.value, ast.Name) or isinstance(n.func, ast.Name)):
            if isinstance(n.func, ast.Name):
                # a function defined inside ungroup_ports: ungroup(ace, "srcport")
                m = next((h_ for h_ in ctx.prog.funcs if h_.parent is up and h_.name == n.func.id), None)
                bound = False
            else:
                m = up.cls.lookup_method(n.func.attr) if up.cls else None
                bound = True
            if m is None or m is up or m.module is not up.module:
                continue
            binding = bind_call(m, n, bound=bound)
            if binding is None:
                continue
            consts = {k: v.value for k, v in binding.items() if isinstance(v, ast.Constant) and isinstance(v.value, str)}
            key = (m.qualname, tuple(sorted(consts.items())))
            if consts and key not in seen:
                seen.add(key)
                out.append(specialised(ctx, m, consts))
    return out


def _split_sites(f: Func) -> List[Tuple[ast.Compare, str, List[str], bool]]:
    """`X.<sd>port.operator [not] in [...]` tests of a stage function: (node, 'src'|'dst', operator literals, negated)."""
    out = []
    env = _single_env(f.node)
    for n in own_nodes(f.node):
        if isinstance(n, ast.Compare) and len(n.ops) == 1 and isinstance(n.ops[0], (ast.In, ast.Eq, ast.NotIn, ast.NotEq)):
            c = _rchain(n.left, env)
            if c and c[-1] in ("operator", "_operator") and len(c) >= 3:
                sd = "src" if "src" in c[-2] else "dst" if "dst" in c[-2] else "?"
                cmp_ = n.comparators[0]
                if isinstance(cmp_, ast.Name) and cmp_.id in env:
                    cmp_ = env[cmp_.id]
                lits = []
                if isinstance(cmp_, (ast.List, ast.Tuple, ast.Set)):
                    lits = [e.value for e in cmp_.elts if isinstance(e, ast.Constant)]
                elif isinstance(cmp_, ast.Constant):
                    lits = [cmp_.value]
                out.append((n, sd, lits, isinstance(n.ops[0], (ast.NotIn, ast.NotEq))))
    return out


def r19_1(ctx: Ctx, rep: Report) -> None:
    rep.rule("R19.1")
    up = ctx.func("Ace.ungroup_ports")
    from .normalise import normalised as _norm

    fwd = _norm(ctx, ctx.func("Port._items_to_ports"), "dispatch,unroll,beta")
    operators = list(ctx.folder.const("helpers", "OPERATORS"))
    fpaths = op_paths(ctx, fwd, operators)
    kind: Dict[str, str] = {}
    for op in operators:
        normal = [p for p in fpaths[op] if not p.raises]
        if normal:
            kind[op] = forward_shape(ctx, fwd, normal[0], fwd.params[1])["kind"]
    sites = [(sf, x) for sf in _stage_funcs(ctx) for x in _split_sites(sf)]
    rep.instance(len(sites))
    # a side whose operands are split (`<copy>.<side>port.items = [item]`) without a test of that side's operator splits
    # whatever has several operands - `range 1 3` too
    tested = {x[1] for _sf, x in sites}
    for sf in _stage_funcs(ctx):
        for n in own_nodes(sf.node):
            if isinstance(n, ast.Assign) and isinstance(n.targets[0], ast.Attribute) and n.targets[0].attr in ("items", "_items") and isinstance(n.value, ast.List) and len(n.value.elts) == 1:
                c = chain(n.targets[0])
                side = "src" if c and any("src" in p_ for p_ in c) else "dst" if c and any("dst" in p_ for p_ in c) else None
                if side and side not in tested and "?" not in tested:
                    rep.instance()
                    rep.violation("Ace.ungroup_ports", snippet(n, 50), f"the {'source' if side == 'src' else 'destination'} operands are split without a test of that side's operator: an entry with `range A B` has two operands too and is split (the copies are refused)", where(sf, n), inp="permit tcp any range 1 3 any")
                    tested.add(side)
    if len(sites) < 2 and rep.rule_counts.get("R19.1", {}).get("violations", 0):
        return
    rep.floor(2, "operator tests in Ace.ungroup_ports (source and destination)")
    for sf, (node, sd, lits, _neg) in sites:
        for op in lits:
            k = kind.get(op, "?")
            side = {"src": "source", "dst": "destination"}.get(sd, sd)
            if k == "IDENT":
                rep.ok(f"Ace.ungroup_ports: {op!r} splittable ({side} site)", "additive: the port set is the union over the operands", where=where(sf, node))
            elif k == "COMPLEMENT":
                rep.violation(
                    "Ace.ungroup_ports",
                    f'operator literal "{op}" in the splittable set ({side} site)',
                    f"{op!r} is subtractive (universe minus the operands): several operands mean a conjunction of exclusions, but several entries are a disjunction; "
                    f"'{op} 3 4' split into '{op} 3' and '{op} 4' matches every port",
                    where(sf, node),
                    inp=f"permit tcp any any {op} 3 4  ->  {op} 3 + {op} 4 (union = all ports)",
                )
            elif k in ("UNKNOWN", "?"):
                rep.note(f"R19.1 not judged for {op!r} ({side} site): the port set Port._items_to_ports builds for it is not in a form this rule reads (R08.2 reports that)")
            else:
                rep.violation(
                    "Ace.ungroup_ports",
                    f'operator literal "{op}" in the splittable set ({side} site)',
                    f"{op!r} denotes {k}: its operands are bounds, not alternatives; splitting them changes the meaning",
                    where(sf, node),
                    inp=f"permit tcp any any {op} 1 3",
                )


def sides_agree(ctx: Ctx, rep: Report, rid: str = "R19.9") -> None:
    """The source and the destination stage split the same operators: an operator split on one side only leaves entries
    that the conversion to a one-port-per-entry platform still has to refuse."""
    rep.rule(rid)
    sets: Dict[str, Set[str]] = {}
    where_: Dict[str, Tuple[Func, ast.AST]] = {}
    for sf in _stage_funcs(ctx):
        for node, sd, lits, neg in _split_sites(sf):
            if sd in ("src", "dst") and not neg:
                sets.setdefault(sd, set()).update(str(x) for x in lits)
                where_.setdefault(sd, (sf, node))
    rep.instance()
    if set(sets) == {"src", "dst"} and sets["src"] != sets["dst"]:
        sf, node = where_["src"]
        rep.violation("Ace.ungroup_ports", f"source splits {sorted(sets['src'])}, destination splits {sorted(sets['dst'])}", "the two sides do not split the same operators: a multi-port entry with the other operator stays unsplit on one side", where(sf, node), inp="permit tcp any neq 1 2 any")
    elif set(sets) == {"src", "dst"}:
        rep.ok("Ace.ungroup_ports: split sets", f"both sides split {sorted(sets['src'])}", where=where(*where_["src"]))
    else:
        rep.note(f"{rid} one stage serves both sides (nothing to compare)")


def entries_not_keys(ctx: Ctx, rep: Report, rid: str = "R19.8", fixture: bool = False) -> int:
    """Entries compare equal when their text is equal: a dict keyed by entries (or a set of them) merges two entries with
    the same text but different notes, identifiers or attached group members - the last one wins at every position."""
    rep.rule(rid)
    hits = 0
    n = 0
    for f in ctx.prog.funcs:
        if f.cls is None:
            continue
        for x in own_nodes(f.node):
            key = None
            if isinstance(x, ast.DictComp) and len(x.generators) >= 1:
                g = x.generators[0]
                if isinstance(g.target, ast.Name) and isinstance(x.key, ast.Name) and x.key.id == g.target.id and "items" in src(g.iter) and "self" in src(g.iter) and ".items()" not in src(g.iter):
                    key = x
            if isinstance(x, ast.SetComp) and len(x.generators) >= 1:
                g = x.generators[0]
                if isinstance(g.target, ast.Name) and isinstance(x.elt, ast.Name) and x.elt.id == g.target.id and "items" in src(g.iter) and "self" in src(g.iter) and ".items()" not in src(g.iter):
                    key = x
            if isinstance(x, ast.Call) and isinstance(x.func, ast.Name) and x.func.id in ("set", "frozenset") and len(x.args) == 1 and src(x.args[0]) in ("self._items", "self.items"):
                key = x
            if isinstance(x, ast.Call) and src(x.func) == "dict.fromkeys" and x.args and src(x.args[0]) in ("self._items", "self.items"):
                key = x
            if key is not None:
                n += 1
                hits += 1
                rep.violation(f.qualname, snippet(key, 70), "the object's items are used as dict keys / set members: two entries with the same text are one key, so one of them is lost or put in the other's place", where(f, key), inp="a group holding two entries with identical text and different notes")
    if not fixture:
        rep.instance()
        if hits == 0:
            rep.ok("package", "no method keys a dict or a set by the object's own items", nontrivial=False)
    return hits


def _stage_call(e: ast.AST, up: Func, env: Optional[Dict[str, ast.AST]] = None) -> Optional[Tuple[str, str]]:
    """`<recv>.<helper>("srcport")` or `<local helper>(<recv>, "srcport")` -> (recv, 'src'|'dst').
    A local bound once to such a call (`_aces = ungroup(self, "srcport")`) stands for the call."""
    if isinstance(e, ast.Name) and env and e.id in env:
        e = env[e.id]
    if not isinstance(e, ast.Call):
        return None
    lits = [a.value for a in list(e.args) + [k.value for k in e.keywords] if isinstance(a, ast.Constant) and isinstance(a.value, str)]
    if not (len(lits) == 1 and ("src" in lits[0] or "dst" in lits[0])):
        return None
    side = "src" if "src" in lits[0] else "dst"
    if isinstance(e.func, ast.Attribute) and isinstance(e.func.value, ast.Name) and up.cls is not None and up.cls.lookup_method(e.func.attr) is not None:
        m_ = up.cls.lookup_method(e.func.attr)
        if m_.kind == "staticmethod":
            # `self._split(ace_o, "dstport")`: the entry that is split is the argument, not the receiver
            names = [a.id for a in e.args if isinstance(a, ast.Name)]
            return (names[0], side) if len(names) == 1 else None
        return e.func.value.id, side
    if isinstance(e.func, ast.Name):
        names = [a.id for a in e.args if isinstance(a, ast.Name)]
        if len(names) == 1:
            return names[0], side
    return None


def r19_2(ctx: Ctx, rep: Report, rid: str = "R19.2") -> None:  # noqa: C901
    rep.rule(rid)
    up = ctx.func("Ace.ungroup_ports")
    stage_funcs = _stage_funcs(ctx)
    port_loops = []
    for sf in stage_funcs:
        cfg = ctx.cfg(sf)
        env = _single_env(sf.node)
        for lp in [n for n in cfg.live if n.kind == "for"]:
            c = _rchain(lp.ast.iter, env)
            if c and c[-1] in ("items", "_items") and len(c) >= 3 and "port" in c[-2]:
                port_loops.append((sf, cfg, lp, c))
    rep.instance(len(port_loops))
    rep.floor(2, "operand loops (source and destination)")
    accs: List[str] = []
    helper_form: Dict[str, bool] = {}
    for sf, cfg, lp, c in port_loops:
        sd = "src" if "src" in c[-2] else "dst"
        var = src(lp.ast.target)
        owner = c[0]
        body_nodes = cfg.reachable([s for lab, s in lp.succ if lab == "body"][0], labels_avoid=("exc",)) if [s for lab, s in lp.succ if lab == "body"] else set()
        body_nodes = {n for n in body_nodes if lp in cfg.reachable(n, labels_avoid=("exc",)) and n is not lp}
        # the store `<obj>.<sd>port.items = [var]`
        stores = []
        for n in body_nodes:
            if n.kind == "stmt" and isinstance(n.ast, ast.Assign) and isinstance(n.ast.targets[0], ast.Attribute):
                tc = chain(n.ast.targets[0])
                if tc and tc[-1] in ("items", "line", "ports") and len(tc) >= 3 and "port" in tc[-2]:
                    stores.append((n, tc))
        if not stores:
            rep.violation("Ace.ungroup_ports", f"for {var} in {'.'.join(c)}", "the loop over the operands does not give each new entry its single operand", where(sf, lp.ast))
            continue
        sn, tc = stores[0]
        obj = tc[0]
        ok_side = ("src" in tc[-2]) == (sd == "src")
        val = sn.ast.value
        one = isinstance(val, ast.List) and len(val.elts) == 1 and src(val.elts[0]) == var
        # freshness: obj is assigned from .copy() inside the same iteration
        fresh = False
        copied_from = None
        for n in body_nodes:
            if n.kind == "stmt" and isinstance(n.ast, (ast.Assign, ast.AnnAssign)) and n.ast.value is not None:
                tg = n.ast.targets[0] if isinstance(n.ast, ast.Assign) else n.ast.target
                if not (isinstance(tg, ast.Name) and tg.id == obj):
                    continue
                v = n.ast.value
                if isinstance(v, ast.Call) and isinstance(v.func, ast.Attribute) and v.func.attr == "copy" and cfg.dominates(n, sn):
                    fresh = True
                    copied_from = src(v.func.value)
        if not ok_side:
            rep.violation("Ace.ungroup_ports", snippet(sn.ast), f"the {sd} operand loop writes the other side's port", where(sf, sn.ast))
        elif not one:
            rep.violation("Ace.ungroup_ports", snippet(sn.ast), f"each split entry must receive the one-element list [{var}]; this keeps several ports on the entry", where(sf, sn.ast), inp="permit tcp any eq 1 2 any -> entries still listing two ports")
        elif not fresh:
            rep.violation("Ace.ungroup_ports", f"{obj} mutated in the loop over {'.'.join(c)}", "the entry that receives the operand is not a copy made inside the same iteration: all results alias one object", where(sf, sn.ast), inp="permit tcp any eq 1 2 any -> two identical entries 'eq 2'")
        elif copied_from != owner:
            rep.violation("Ace.ungroup_ports", f"{obj} = {copied_from}.copy() while iterating {'.'.join(c)}", "the copy is not taken from the entry whose operands are iterated: other fields are lost or mixed", where(sf, sn.ast))
        else:
            rep.ok(f"Ace.ungroup_ports: for {var} in {'.'.join(c)}", f"{obj} = {copied_from}.copy() per iteration; {snippet(sn.ast, 40)}", where=where(sf, lp.ast))
        # exactly one append of the copy per iteration
        rep.instance()
        worst_lo, worst_hi = 99, 0
        acc = None
        for path in loop_body_paths(cfg, lp):
            if path[-1][0] is not lp:
                continue
            k = 0
            for node, lab in path:
                if node.kind == "stmt" and node.ast is not None:
                    for kind_, call in element_placements(node.ast, obj):
                        if kind_ == "append":
                            k += 1
                            acc = src(call.func.value)
            worst_lo, worst_hi = min(worst_lo, k), max(worst_hi, k)
        if worst_lo == worst_hi == 1:
            rep.ok(f"Ace.ungroup_ports: {acc}.append({obj})", "exactly once per operand", where=where(sf, lp.ast))
            accs.append(acc or "")
        else:
            rep.violation("Ace.ungroup_ports", f"append of {obj}", f"a split entry is appended {worst_lo}..{worst_hi} times per operand (must be exactly once)", where(sf, lp.ast))
        if sf is not up:
            # an extracted stage hands its accumulator back: after the loop, every normal path returns it
            rep.instance()
            after = [s for lab, s in lp.succ if lab != "body"]
            rets = [n for n in (cfg.reachable(after[0], labels_avoid=("exc",)) if after else set()) if n.kind == "stmt" and isinstance(n.ast, ast.Return)]
            if acc and rets and all(r.ast.value is not None and src(r.ast.value) == acc for r in rets):
                rep.ok(f"{sf.qualname} ({sd} stage): return {acc}", "the extracted stage returns the list it filled", where=where(sf, rets[0].ast))
                helper_form[sd] = True
            else:
                rep.violation("Ace.ungroup_ports", f"{sf.qualname} ({sd} stage)", "the extracted stage does not return the list of split entries", where(sf, lp.ast))
    # cross product: the destination stage iterates the accumulator of the source stage
    rep.instance()
    dst_stage = [(sf, lp, c) for sf, _cfg, lp, c in port_loops if "dst" in c[-2]]
    src_stage = [(sf, lp, c) for sf, _cfg, lp, c in port_loops if "src" in c[-2]]
    if dst_stage and src_stage and dst_stage[0][0] is up and src_stage[0][0] is up:
        d_owner = dst_stage[0][2][0]
        outer = None
        p = getattr(dst_stage[0][1].ast, "_parent", None)
        while p is not None and p is not up.node:
            if isinstance(p, ast.For):
                outer = p
                break
            p = getattr(p, "_parent", None)
        src_acc = accs[0] if accs else None
        if outer is not None and src(outer.target) == d_owner and src(outer.iter) == src_acc:
            rep.ok("Ace.ungroup_ports: stages", f"destination split runs for every entry of the source stage ({src_acc}): full cross product", where=where(up, outer))
        elif outer is not None and src(outer.target) == d_owner:
            rep.violation("Ace.ungroup_ports", f"for {d_owner} in {src(outer.iter)}", "the destination stage does not iterate the result of the source stage: combinations are lost", where(up, outer))
        else:
            rep.violation("Ace.ungroup_ports", "destination stage", "source and destination splits are not nested: no cross product", where(up))
    elif dst_stage and src_stage:
        # extracted stages: [d for s in self.H("srcport") for d in s.H("dstport")]  (or the same as nested loops)
        ok = False
        uenv = _single_env(up.node)
        for n in own_nodes(up.node):
            if isinstance(n, (ast.ListComp, ast.GeneratorExp)) and len(n.generators) == 2 and not n.generators[0].ifs and not n.generators[1].ifs:
                g0, g1 = n.generators
                c0, c1 = _stage_call(g0.iter, up, uenv), _stage_call(g1.iter, up, uenv)
                if c0 and c1 and c0[0] == "self" and isinstance(g0.target, ast.Name) and c1[0] == g0.target.id and {c0[1], c1[1]} == {"src", "dst"} and isinstance(g1.target, ast.Name) and src(n.elt) == g1.target.id:
                    ok = True
                    rep.ok("Ace.ungroup_ports: stages", f"{snippet(n, 90)}: the second stage runs for every entry of the first: full cross product", where=where(up, n))
            # chain.from_iterable(H(o, "dstport") for o in <first stage>)  /  sum((H(o, ...) for o in ...), [])
            flat = None
            if isinstance(n, ast.Call) and src(n.func).endswith("from_iterable") and len(n.args) == 1:
                flat = n.args[0]
            elif isinstance(n, ast.Call) and src(n.func) == "sum" and len(n.args) == 2 and isinstance(n.args[1], ast.List) and not n.args[1].elts:
                flat = n.args[0]
            if isinstance(flat, (ast.GeneratorExp, ast.ListComp)) and len(flat.generators) == 1 and not flat.generators[0].ifs and isinstance(flat.generators[0].target, ast.Name):
                c0, c1 = _stage_call(flat.generators[0].iter, up, uenv), _stage_call(flat.elt, up, uenv)
                if c0 and c1 and c0[0] == "self" and c1[0] == flat.generators[0].target.id and {c0[1], c1[1]} == {"src", "dst"}:
                    ok = True
                    rep.ok("Ace.ungroup_ports: stages", f"{snippet(n, 90)}: the second stage runs for every entry of the first and the results are concatenated: full cross product", where=where(up, n))
            if isinstance(n, ast.For) and isinstance(n.target, ast.Name):
                c0 = _stage_call(n.iter, up, uenv)
                if c0 and c0[0] == "self":
                    for m in ast.walk(n):
                        if m is n:
                            continue
                        if isinstance(m, ast.For) and isinstance(m.target, ast.Name):
                            c1 = _stage_call(m.iter, up, uenv)
                            if c1 and c1[0] == n.target.id and {c0[1], c1[1]} == {"src", "dst"} and any(kind_ == "append" for b in m.body for kind_, _c in element_placements(b, m.target.id)):
                                ok = True
                                rep.ok("Ace.ungroup_ports: stages", "nested loops over the extracted stages: full cross product", where=where(up, n))
                        if isinstance(m, ast.Call) and isinstance(m.func, ast.Attribute) and m.func.attr == "extend" and len(m.args) == 1:
                            c1 = _stage_call(m.args[0], up, uenv)
                            if c1 and c1[0] == n.target.id and {c0[1], c1[1]} == {"src", "dst"}:
                                ok = True
                                rep.ok("Ace.ungroup_ports: stages", "loop over the first stage extending by the second stage of each entry: full cross product", where=where(up, n))
        if not ok:
            rep.violation("Ace.ungroup_ports", "stages", "the extracted source and destination stages are not composed as a cross product (second stage applied to every entry of the first)", where(up))
    # pass-through branches place exactly one copy
    rep.instance()
    ok_pass = 0
    for sf in stage_funcs:
        for node, sd, lits, neg in _split_sites(sf):
            par = getattr(node, "_parent", None)
            if isinstance(par, ast.UnaryOp) and isinstance(par.op, ast.Not):
                neg = not neg
                par = getattr(par, "_parent", None)
            if not isinstance(par, ast.If):
                continue
            branch = par.body if neg else par.orelse
            if not branch:
                # early-return form: `if op not in [...]: return [x.copy()]` has a body; an empty branch drops entries
                rep.violation("Ace.ungroup_ports", f"no branch for entries failing {snippet(node)}", "entries with other operators are dropped", where(sf, node))
                continue
            calls = [x for s_ in branch for x in ast.walk(s_) if isinstance(x, ast.Call) and isinstance(x.func, ast.Attribute) and x.func.attr == "append"]
            rets = [x for s_ in branch for x in ast.walk(s_) if isinstance(x, ast.Return)]
            one_copy_ret = len(rets) == 1 and isinstance(rets[0].value, ast.List) and len(rets[0].value.elts) == 1 and isinstance(rets[0].value.elts[0], ast.Call) and src(rets[0].value.elts[0].func).endswith(".copy")
            if len(calls) == 1 and not rets and isinstance(calls[0].args[0], ast.Call) and src(calls[0].args[0].func).endswith(".copy"):
                ok_pass += 1
            elif not calls and one_copy_ret and sf is not up:
                ok_pass += 1
            elif len(calls) == 1 and not rets:
                rep.violation("Ace.ungroup_ports", snippet(calls[0]), "an entry whose operator is not split must be passed on as one copy", where(sf, calls[0]))
            else:
                rep.violation("Ace.ungroup_ports", f"pass-through branch of {snippet(node)}", "an entry whose operator is not split is dropped or duplicated", where(sf, node))
    if ok_pass:
        rep.ok("Ace.ungroup_ports: pass-through", f"{ok_pass} branch(es) for unsplit operators pass on exactly one copy", where=where(up))


def r19_3(ctx: Ctx, rep: Report, rid: str = "R19.3") -> None:
    rep.rule(rid)
    up = ctx.func("Ace.ungroup_ports")
    rep.instance()
    ok = False
    from .normalise import normalised

    for p in function_paths(ctx.cfg(normalised(ctx, up, "ifexp"))):  # `return [self] if len(aces) == 1 else aces`
        if p.raises or p.ret is None:
            continue
        if isinstance(p.ret, ast.List) and len(p.ret.elts) == 1 and src(p.ret.elts[0]) == "self":
            for t, truth in p.atoms:
                if truth and isinstance(t, ast.Compare) and "len(" in src(t) and isinstance(t.ops[0], ast.Eq) and isinstance(t.comparators[0], ast.Constant) and t.comparators[0].value == 1:
                    ok = True
    if ok:
        rep.ok("Ace.ungroup_ports: single result", "returns [self]: identifier and note of an entry that needs no split are kept", where=where(up))
    else:
        rep.violation("Ace.ungroup_ports", "single result", "an entry that needs no splitting is not returned as the same object ([self]): its identifier and note change", where(up))


def _flat_map_splice(ctx: Ctx, rep: Report, f: Func, q: str) -> bool:
    """The splice written as a flat-map: `list(chain.from_iterable(G))` / `[x for g in G for x in g]` with
    G = (o.ungroup_ports() if isinstance(o, Ace) else [o] for o in self._items): every item contributes its split result
    or itself, in order.  True when this form was recognised (verdicts emitted)."""
    from .common import single_env

    senv = single_env(f.node)
    stores = [n for n in own_nodes(f.node) if isinstance(n, ast.Assign) and any(isinstance(t, ast.Attribute) and src(t.value) == "self" and t.attr in ("items", "_items") for t in n.targets)]
    if not stores:
        return False
    v = stores[-1].value
    gen = None
    if isinstance(v, ast.Call) and src(v.func) == "list" and len(v.args) == 1:
        v = v.args[0]
    if isinstance(v, ast.Call) and src(v.func).endswith("from_iterable") and len(v.args) == 1:
        gen = v.args[0]
    elif isinstance(v, ast.Call) and src(v.func).split(".")[-1] == "chain" and len(v.args) == 1 and isinstance(v.args[0], ast.Starred):
        gen = v.args[0].value
    elif isinstance(v, ast.ListComp) and len(v.generators) == 2 and isinstance(v.generators[1].iter, ast.Name) and src(v.generators[1].iter) == src(v.generators[0].target) and src(v.elt) == src(v.generators[1].target) and not v.generators[0].ifs and not v.generators[1].ifs:
        gen = v.generators[0].iter
    if isinstance(gen, ast.Name) and gen.id in senv:
        gen = senv[gen.id]
    if not isinstance(gen, (ast.GeneratorExp, ast.ListComp)) or len(gen.generators) != 1:
        return False
    g = gen.generators[0]
    var = src(g.target)
    if src(g.iter) not in ("self._items", "self.items") or g.ifs:
        rep.violation(q, snippet(gen, 80), "the flat-map does not run over every stored item in order", where(f, gen))
        return True
    e = gen.elt
    ok = False
    if isinstance(e, ast.IfExp):
        a, b = e.body, e.orelse
        split_first = isinstance(a, ast.Call) and isinstance(a.func, ast.Attribute) and a.func.attr == "ungroup_ports" and src(a.func.value) == var
        keep_other = isinstance(b, (ast.List, ast.Tuple)) and len(b.elts) == 1 and src(b.elts[0]) == var
        is_ace_test = isinstance(e.test, ast.Call) and src(e.test.func) == "isinstance" and src(e.test.args[0]) == var and "Ace" in src(e.test.args[1])
        ok = split_first and keep_other and is_ace_test
    rep.instance()
    if ok:
        rep.ok(f"{q}: {snippet(gen, 70)}", "every item contributes its split result or itself, concatenated in item order", where=where(f, gen))
        rep.instance()
        rep.ok(f"{q}: {snippet(stores[-1], 60)}", "the spliced list, in the original order", where=where(f, stores[-1]))
    else:
        rep.violation(q, snippet(gen, 80), "an item must contribute `<item>.ungroup_ports()` when it is an Ace and `[<item>]` otherwise: an item is lost, duplicated or replaced", where(f, gen))
    return True


def splice_rule(ctx: Ctx, rep: Report, q: str, rid: str = "R19.4") -> None:  # noqa: C901
    rep.rule(rid)
    from .normalise import normalised as _norm

    # `x = A if C else B` is two paths; a loop shared by both containers (a helper with a `nested` switch) is read in place
    f = _norm(ctx, ctx.func(q), "valuecalls,ifexp")
    cfg = ctx.cfg(f)
    own_list = ("self._items", "self.items", "list(self._items)", "list(self.items)", "tuple(self._items)", "self._items[:]")
    # `members = self._items` (one binding) and the loop over `members`
    alias = {t.id for a in own_nodes(f.node) if isinstance(a, ast.Assign) and len(a.targets) == 1 and isinstance(a.targets[0], ast.Name) and src(a.value) in own_list for t in [a.targets[0]] if sum(1 for z in own_nodes(f.node) if isinstance(z, ast.Name) and z.id == t.id and isinstance(z.ctx, ast.Store)) == 1}
    loops = [n for n in cfg.live if n.kind == "for" and (src(n.ast.iter) in own_list or (isinstance(n.ast.iter, ast.Name) and n.ast.iter.id in alias))]
    rep.instance()
    if not loops and _flat_map_splice(ctx, rep, f, q):
        return
    if not loops:
        rep.violation(q, "loop over self._items", "the split does not walk the object's own member list (no loop over self._items): the members - the blocks of a grouped ACL among them - are not carried over as the objects they are", where(f))
        return
    lp = loops[0]
    var = src(lp.ast.target)
    et = elem(ctx.types.attr_type(f.cls, "_items"))
    static = classes_of(et)
    acc_names: Set[str] = set()
    for path in loop_body_paths(cfg, lp):
        if path[-1][0] is cfg.raise_exit:
            continue
        atoms = [(n.ast, lab == "T") for n, lab in path if n.kind == "cond" and lab in ("T", "F")]
        poss = possible_classes(ctx, static, atoms, var)
        if poss is not None and not poss:
            continue  # infeasible by the declared element type
        places = []
        der = derived_names(path, var)
        for node, lab in path:
            if node.kind == "stmt" and node.ast is not None:
                places += element_placements(node.ast, var, der)
        for k, call in places:
            if isinstance(call, ast.Call):
                acc_names.add(src(call.func.value))
        label = " & ".join(f"{snippet(t, 30)}={'T' if tr else 'F'}" for t, tr in atoms) or "unconditional"
        rep.instance()
        # the split result is put back as the entries it consists of: `extend(o.data() for o in aces)` hands the setter
        # dictionaries, which it rebuilds under the CONTAINER's switches (port_nr, protocol_nr) - the pieces of an entry
        # written with numbers come back with names
        conv = None
        for k, call in places:
            if k == "replace" and isinstance(call, ast.Call) and call.args:
                a0 = call.args[0]
                while isinstance(a0, ast.Call) and isinstance(a0.func, ast.Name) and a0.func.id in ("list", "tuple", "iter") and len(a0.args) == 1:
                    a0 = a0.args[0]
                if isinstance(a0, (ast.GeneratorExp, ast.ListComp)) and len(a0.generators) == 1 and isinstance(a0.generators[0].target, ast.Name) and src(a0.elt) != a0.generators[0].target.id and names_in(a0.generators[0].iter) & (der | {var}):
                    conv = call
        if conv is not None:
            rep.violation(q, snippet(conv, 60), "the pieces of a split entry are put back converted (exported, re-built) instead of as the entries the split returned: what the container re-creates from them carries the container's switches, not the entry's own (`eq 80` written with port_nr comes back as `eq www`)", where(f, conv), inp="ace.port_nr = True inside a default group; group.ungroup_ports()")
            continue
        if len(places) == 1:
            kind = places[0][0]
            if kind == "replace":
                d = None
                rep.ok(f"{q}: path [{label}]", "the item is replaced by its split result at its position", where=where(f, lp.ast))
            else:
                rep.ok(f"{q}: path [{label}]", "the item is placed once", where=where(f, lp.ast))
        else:
            rep.violation(q, f"path [{label}] places the item {len(places)} times", "every item must be carried over exactly once (an ACE replaced by its split result); an item is lost or duplicated", where(f, lp.ast), path=[repr(n) for n, _ in path])
    # stored back, same order
    stores = [n for n in own_nodes(f.node) if isinstance(n, ast.Assign) and any(isinstance(t, ast.Attribute) and src(t.value) == "self" and t.attr in ("items", "_items") for t in n.targets)]
    rep.instance()
    if not stores:
        rep.violation(q, "self.items = ...", "the spliced list is never stored", where(f))
    else:
        st = stores[-1]
        state, why = order_of(ctx, f, st.value)
        if state in ("ordered:self._items", "ordered:self.items") and src(st.value) in acc_names:
            rep.ok(f"{q}: {snippet(st)}", "the spliced list, in the original order", where=where(f, st))
        else:
            rep.violation(q, snippet(st), f"the stored list is not the order-preserving splice ({state}; {why})", where(f, st))
        # ... on every normal path (a path that re-groups and returns without storing leaves the entries that stand
        # outside the blocks unsplit: they were split only in the list that is thrown away)
        rep.instance()
        sn = [cfg.node_of(x) for x in stores]
        sn = [x for x in sn if x is not None]
        if sn and cfg.all_paths_pass(cfg.entry, cfg.exit, lambda m: m in sn, labels_avoid=("exc",)):
            rep.ok(f"{q}: store", "every normal path stores the spliced list", where=where(f, st))
        else:
            rep.violation(q, f"path without {snippet(st, 40)}", "some normal path returns without storing the spliced list: entries that were split only in the local list stay multi-port", where(f, st), inp="grouped ACL; acl.append(Ace('permit tcp any any eq 1 2')); acl.ungroup_ports()")


def r19_4b(ctx: Ctx, rep: Report) -> None:
    """Acl.ungroup_ports descends into groups and re-groups."""
    rep.rule("R19.4")
    from .normalise import normalised as _norm

    f = _norm(ctx, ctx.func("Acl.ungroup_ports"), "valuecalls,ifexp")  # a shared loop with a `nested=True` switch is read in place
    cfg = ctx.cfg(f)
    rep.instance()
    descends = False
    for n in cfg.live:
        if n.kind == "stmt" and n.ast is not None:
            for x in ast.walk(n.ast):
                if isinstance(x, ast.Call) and isinstance(x.func, ast.Attribute) and x.func.attr == "ungroup_ports" and src(x.func.value) != "self":
                    deps = cfg.control_deps(n)
                    # no condition that is constantly false after the switch was put in (`False and isinstance(...)`)
                    dead = any(c.kind == "cond" and isinstance(c.ast, ast.Constant) and bool(c.ast.value) != (lab == "T") for c, lab in cfg.transitive_control_deps(n))
                    if any(c.kind == "cond" and "AceGroup" in src(c.ast) and lab == "T" for c, lab in deps) and not dead:
                        descends = True
    if descends:
        rep.ok("Acl.ungroup_ports: nested groups", "descends into each AceGroup before carrying it over", where=where(f))
    else:
        rep.violation("Acl.ungroup_ports", "nested groups", "multi-port entries inside groups are not split", where(f), inp="grouped ACL with 'eq 1 2' inside a block, platform -> nxos")
    rep.instance()
    gconds = [c for c in cfg.live if c.kind == "cond" and src(c.ast) in ("self._group_by", "self.group_by")]
    regroup = False
    for c in gconds:
        t = [s for lab, s in c.succ if lab == "T"]
        if t and any(isinstance(x, ast.Call) and isinstance(x.func, ast.Attribute) and x.func.attr == "group" for n in cfg.reachable(t[0], labels_avoid=("exc",)) if n.ast is not None and n.kind == "stmt" for x in ast.walk(n.ast)):
            regroup = True
    items_setter_regroups = False
    st = ctx.func("Acl.items.setter")
    for n in own_nodes(st.node):
        if isinstance(n, ast.Call) and isinstance(n.func, ast.Attribute) and n.func.attr == "group":
            items_setter_regroups = True
    if regroup or items_setter_regroups:
        rep.ok("Acl.ungroup_ports: grouping", "re-applied when group_by is set" + (" (also by the items setter)" if items_setter_regroups else ""), where=where(f))
    else:
        rep.violation("Acl.ungroup_ports", "grouping", "the block structure is not restored after the split", where(f))


def split_before_convert(ctx: Ctx, rep: Report, rid: str = "R19.5") -> None:
    rep.rule(rid)
    f = ctx.func("Acl.platform.setter")
    cfg = ctx.cfg(f)
    rep.instance()
    param = f.params[1]

    def is_split(n: Node) -> bool:
        if n.ast is None or n.kind != "stmt":
            return False
        return any(isinstance(x, ast.Call) and isinstance(x.func, ast.Attribute) and x.func.attr == "ungroup_ports" and src(x.func.value) == "self" for x in ast.walk(n.ast))

    def is_convert(n: Node) -> bool:
        if n.kind == "stmt" and isinstance(n.ast, ast.Assign):
            for t in n.ast.targets:
                if isinstance(t, ast.Attribute) and t.attr == "platform" and src(t.value) != "self":
                    return True
        return False

    converts = [n for n in cfg.live if is_convert(n)]
    splits = [n for n in cfg.live if is_split(n)]
    if not converts:
        rep.violation("Acl.platform.setter", "item conversion", "the items are never converted to the new platform", where(f))
        return
    if not splits:
        rep.violation("Acl.platform.setter", "self.ungroup_ports()", "multi-port entries are not split before conversion to NX-OS (which accepts one port per entry)", where(f), inp="Acl('... permit tcp any eq 1 2 any').platform = 'nxos' -> ValueError")
        return
    sp = splits[0]
    # the split is taken exactly under `<new platform> == "nxos"`
    deps = cfg.control_deps(sp)
    nx = [(c, lab) for c, lab in deps if c.kind == "cond" and isinstance(c.ast, ast.Compare) and any(isinstance(x, ast.Constant) and x.value == "nxos" for x in ast.walk(c.ast))]
    ok_cond = any((isinstance(c.ast.ops[0], ast.Eq) and lab == "T") or (isinstance(c.ast.ops[0], ast.NotEq) and lab == "F") for c, lab in nx)
    if not ok_cond:
        rep.violation("Acl.platform.setter", snippet(sp.ast), "the split is not performed exactly when the new platform is nxos", where(f, sp.ast))
    # on the nxos path the split precedes every conversion: cut the split node; conversions unreachable through the nxos edge
    bad = False
    for c, lab in nx:
        tgt = [s for l2, s in c.succ if l2 == lab]
        if tgt:
            reach = cfg.reachable(tgt[0], avoid=is_split, labels_avoid=("exc",))
            if any(cv in reach for cv in converts) and not is_split(tgt[0]):
                bad = True
    # and no conversion happens before the test at all
    for cv in converts:
        for c, lab in nx:
            if c in cfg.reachable(cv, labels_avoid=("exc",)) and cv not in cfg.reachable(c, labels_avoid=("exc",)):
                bad = True
    if bad:
        rep.violation("Acl.platform.setter", f"{snippet(converts[0].ast)} reachable before {snippet(sp.ast)}", "an item can be converted to NX-OS before multi-port entries were split: the port object rejects several ports", where(f, converts[0].ast), inp="Acl('ip access-list extended A\\n permit tcp any eq 1 2 any').platform = 'nxos'")
    else:
        rep.ok(f"Acl.platform.setter: {snippet(sp.ast)}", "dominates every item conversion on the nxos path; the loop reads the item list after the split", where=where(f, sp.ast))


def run(ctx: Ctx, rep: Report, tier: str) -> None:
    r19_1(ctx, rep)
    sides_agree(ctx, rep)
    entries_not_keys(ctx, rep)
    from ..fixtures import run_fixture

    run_fixture("carried", lambda c, r: entries_not_keys(c, r, fixture=True), expect_violation="dict keys")
    # R19.10 the split is computed from the ports as they are now: no "already split" flag is kept (C17 R17.5)
    from .c17 import carried_flags

    sub17 = Report("C19")
    carried_flags(ctx, sub17)
    rep.absorb(sub17, "R19.10")
    # R19.11 re-grouping after the split keeps the identity of every block (C16 R16.18)
    from .c16 import blocks_keep_identity

    sub16 = Report("C19")
    blocks_keep_identity(ctx, sub16)
    rep.absorb(sub16, "R19.11")
    # R19.12 the split entries are copies: what copy() carries is what data() exports - the note as it is (C16 R16.2)
    from .c16 import r16_2

    sub162 = Report("C19")
    r16_2(ctx, sub162)
    rep.absorb(sub162, "R19.12")
    # R19.13 "keep every other field": the blocks the ACL rebuilds after the split receive the ACL's settings (C16
    # R16.24), and the members of a referenced address group are rebuilt from the data they exported (C16 R16.29) - the
    # split copies every entry, also the ones it does not split
    from .c16 import blocks_get_acl_settings, member_dicts_stamped_like_members

    sub163 = Report("C19")
    blocks_get_acl_settings(ctx, sub163)
    member_dicts_stamped_like_members(ctx, sub163)
    rep.absorb(sub163, "R19.13")
    r19_2(ctx, rep)
    r19_3(ctx, rep)
    splice_rule(ctx, rep, "AceGroup.ungroup_ports")
    splice_rule(ctx, rep, "Acl.ungroup_ports")
    r19_4b(ctx, rep)
    split_before_convert(ctx, rep)
    # R19.6 premise: the copies the split is made of are faithful (each field rebuilt from its own exported data) and
    # the names the renderer writes for the split entries are in the splitter's vocabulary
    from .c16 import nested_data_plumbing

    nested_data_plumbing(ctx, rep, rid="R19.6")
    from .c16 import r16_7

    sub7 = Report("C19")
    r16_7(ctx, sub7)
    rep.absorb(sub7, "R19.6")
    from .c09 import splitter_vocabulary

    sub = Report("C19")
    splitter_vocabulary(ctx, sub, "R09.5")
    rep.absorb(sub, "R19.6")
    # R19.7 premise: an ACL built with group_by re-groups after the split; flattening and re-grouping carry every entry
    # over exactly once and in order (C15 R15.1), otherwise the split entries do not stay where the original stood
    from .c15 import r15_1

    sub15 = Report("C19")
    r15_1(ctx, sub15)
    rep.absorb(sub15, "R19.7")


# what the later rounds (seeding rounds 2-5, refactor twins, defect hunt) added to what the check decides
LATER_ROUNDS = "every produced entry is stored on every path, entries not keys, both sides agree, blocks keep identity through the split, the pieces of a split entry are put back as the entries they are, rebuilt blocks get the ACL's settings, member data is not overwritten by the container"
EXPLANATION = EXPLANATION.replace(" Does not decide", " Later rounds added: " + LATER_ROUNDS + ". Does not decide", 1) if " Does not decide" in EXPLANATION else EXPLANATION + " Later rounds added: " + LATER_ROUNDS + "."
