"""C19 — not implemented yet (fail closed)."""
from ..model import AnalysisError
PROPERTY = "C19"
LEVEL = "other"
EXPLANATION = "not implemented"
def run(ctx, rep, tier):
    raise AnalysisError("rules for C19 are not implemented yet")
