"""C01 — not implemented yet (fail closed)."""
from ..model import AnalysisError
PROPERTY = "C01"
LEVEL = "other"
EXPLANATION = "not implemented"
def run(ctx, rep, tier):
    raise AnalysisError("rules for C01 are not implemented yet")
