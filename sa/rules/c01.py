"""C01 Parsing an ACE keeps its meaning — plumbing between grammar, field splitter, Ace attributes and renderer."""

from __future__ import annotations

import ast
import re as _re
from typing import Dict, List, Optional, Set, Tuple

from ..cfg import Node
from ..core import Ctx, Report, snippet, where
from ..fold import UNKNOWN, known
from ..model import AnalysisError, Class, Func, own_nodes, src
from ..pathsem import function_paths, resolve_local
from ..typeinf import classes_of
from .common import call_keywords, loop_body_paths, chain, chains_in, deep_resolve, first_difference, inline_helper_call, mentions, names_in, norm_field, normalised_body

PROPERTY = "C01"
LEVEL = "other"
EXPLANATION = (
    "Decides that the plumbing between the ACE grammar, the field splitter, the Ace attributes and the renderer is "
    "consistent on both platforms: every regex group is read exactly once and lands under the key of the grammar piece "
    "it was built from; each key feeds the constructor of the attribute of the same name (source and destination alike, "
    "both ports under the protocol name of the same Protocol object); the renderer lists the attributes in grammar "
    "order; text is whitespace-normalised before any parser sees it; validation precedes construction; the splitter "
    "vocabulary covers every selectable port name. Does not decide that the parsed sets equal Cisco's meaning of the "
    "text (address classification, masking, operator semantics, token classification are value-level)."
)
ASSUMPTIONS = ["re.findall returns the groups of the first match in group order"]

KEY_ALIASES = {"proto": "protocol", "log": "option", "text": "text", "address": "address"}
NORMALISERS = {"init_line", "int_to_str", "lines_wo_spaces", "replace_spaces"}
PARSERS = ["parsers.parse_ace_extended", "parsers.parse_ace_standard", "parsers.parse_action", "parsers.parse_address"]


def compiled_grammar(ctx: Ctx, f: Func):
    """(pattern text, name of the local holding the match object, match call) when `f` applies a regular expression that
    is not the local `regex`: a module-level `re.compile(...)` constant or a direct re.match/search/fullmatch call."""
    from ..fold import CompiledPattern

    env = ctx.folder.local_env(f)
    for n in own_nodes(f.node):
        if isinstance(n, ast.Call) and isinstance(n.func, ast.Attribute) and n.func.attr in ("match", "search", "fullmatch") and n.args:
            recv = ctx.folder.fold(n.func.value, f.module, env)
            pat = None
            if isinstance(recv, CompiledPattern):
                pat = recv.pattern
            elif src(n.func.value) == "re" and len(n.args) >= 2:
                v = ctx.folder.fold(n.args[0], f.module, env)
                pat = v if isinstance(v, str) else None
            if pat is None:
                continue
            par = getattr(n, "_parent", None)
            mname = None
            while par is not None and not isinstance(par, ast.stmt):
                if isinstance(par, ast.NamedExpr) and isinstance(par.target, ast.Name):
                    mname = par.target.id
                par = getattr(par, "_parent", None)
            if mname is None and isinstance(par, (ast.Assign, ast.AnnAssign)):
                tg = par.targets[0] if isinstance(par, ast.Assign) else par.target
                if isinstance(tg, ast.Name):
                    mname = tg.id
            return pat, mname, n
    return None


def regex_pieces(ctx: Ctx, f: Func) -> Tuple[str, List[Tuple[str, int]]]:
    """(folded regex, [(piece name, number of capturing groups)]): from the `regex = f"..."` assignment (pieces are the
    interpolated locals) or from a compiled pattern with named groups (pieces are the group names)."""
    env = ctx.folder.local_env(f)
    rx = env.get("regex", UNKNOWN)
    if not known(rx) or not isinstance(rx, str):
        cg = compiled_grammar(ctx, f)
        if cg is None:
            raise AnalysisError(f"{f.qualname}: neither a foldable local `regex` nor a compiled pattern applied to the line was found")
        pat = cg[0]
        from .. import rx as _rxm

        try:
            comp = _re.compile(pat)
        except _re.error as ex:
            raise AnalysisError(f"{f.qualname}: the compiled pattern does not compile: {ex}")
        names = {i: nm for nm, i in comp.groupindex.items()}
        return pat, [(names.get(i, f"group{i}"), 1) for i in range(1, comp.groups + 1)]
    node = None
    for n in f.node.body:
        if isinstance(n, ast.Assign) and isinstance(n.targets[0], ast.Name) and n.targets[0].id == "regex":
            node = n.value
    pieces: List[Tuple[str, int]] = []
    if isinstance(node, ast.JoinedStr):
        for v in node.values:
            if isinstance(v, ast.FormattedValue) and isinstance(v.value, ast.Name):
                pv = env.get(v.value.id, UNKNOWN)
                if not known(pv) or not isinstance(pv, str):
                    raise AnalysisError(f"{f.qualname}: regex piece {v.value.id} not foldable")
                try:
                    g = _re.compile(pv).groups
                except _re.error:
                    g = pv.count("(") - pv.count("(?")
                pieces.append((v.value.id, g))
    return rx, pieces


def address_alternation(ctx: Ctx, f: Func) -> Optional[str]:
    """Text of the alternation that the ACE grammar accepts as an address: the local `addr`, or the body of the named
    group `srcaddr` of a compiled pattern."""
    addr = ctx.folder.local_env(f).get("addr", UNKNOWN)
    if known(addr) and isinstance(addr, str):
        return addr
    cg = compiled_grammar(ctx, f)
    if cg is not None:
        from .. import rx as _rxm

        for nm in ("srcaddr", "addr", "dstaddr"):
            t = _rxm.group_text(cg[0], nm)
            if t:
                return t
    return None


def r01_1(ctx: Ctx, rep: Report) -> Dict[str, List[str]]:
    rep.rule("R01.1")
    orders: Dict[str, List[str]] = {}
    from .normalise import normalised

    for q in PARSERS:
        f = normalised(ctx, ctx.func(q), "tailcalls")  # a shared "find, strip, name the groups" builder is read in place
        rep.instance()
        rx, pieces = regex_pieces(ctx, f)
        try:
            ngroups = _re.compile(rx).groups
        except _re.error as ex:
            rep.violation(q, "regex", f"the assembled pattern does not compile: {ex}", where(f))
            continue
        group_piece: List[str] = []
        for name, g in pieces:
            group_piece.extend([name] * g)
        if len(group_piece) != ngroups:
            raise AnalysisError(f"{q}: cannot attribute {ngroups} groups to the {len(pieces)} pieces")
        # data dict: key -> items[i] | result["k"]
        data_keys: Dict[str, ast.AST] = {}
        for n in own_nodes(f.node):
            if isinstance(n, ast.Assign) and isinstance(n.targets[0], ast.Name) and isinstance(n.value, ast.Call) and src(n.value.func) == "dict":
                for k in n.value.keywords:
                    if k.arg:
                        data_keys[k.arg] = k.value
            elif isinstance(n, ast.Assign) and isinstance(n.targets[0], ast.Name) and isinstance(n.value, ast.Dict):
                for k, v in zip(n.value.keys, n.value.values):
                    if isinstance(k, ast.Constant):
                        data_keys[str(k.value)] = v
        items_name = None
        for n in own_nodes(f.node):
            if isinstance(n, ast.Assign) and isinstance(n.targets[0], ast.Name) and isinstance(n.value, ast.ListComp) and "strip" in src(n.value):
                items_name = n.targets[0].id
        # {key: value.strip() for key, value in zip((<keys>), <group tuple>)}: key i is group i
        for n in own_nodes(f.node):
            if isinstance(n, ast.DictComp) and len(n.generators) == 1 and not n.generators[0].ifs and isinstance(n.generators[0].target, ast.Tuple) and len(n.generators[0].target.elts) == 2 and src(n.key) == src(n.generators[0].target.elts[0]):
                it = n.generators[0].iter
                if isinstance(it, ast.Call) and src(it.func) == "zip" and len(it.args) == 2 and isinstance(it.args[1], ast.Name):
                    kv = ctx.folder.fold(it.args[0], f.module)
                    if isinstance(kv, (tuple, list)) and all(isinstance(x, str) for x in kv):
                        items_name = it.args[1].id
                        for i, k in enumerate(kv):
                            data_keys[k] = ast.Subscript(value=ast.Name(id=items_name, ctx=ast.Load()), slice=ast.Constant(value=i), ctx=ast.Load())
            # {key: <items>[idx] for idx, key in enumerate((<keys>))}: key i is group i
            if isinstance(n, ast.DictComp) and len(n.generators) == 1 and not n.generators[0].ifs and isinstance(n.generators[0].target, ast.Tuple) and len(n.generators[0].target.elts) == 2 and src(n.key) == src(n.generators[0].target.elts[1]):
                it = n.generators[0].iter
                v_ = n.value
                if isinstance(it, ast.Call) and src(it.func) == "enumerate" and len(it.args) == 1 and not it.keywords and isinstance(v_, ast.Subscript) and isinstance(v_.value, ast.Name) and src(v_.slice) == src(n.generators[0].target.elts[0]):
                    kv = ctx.folder.fold(it.args[0], f.module)
                    if isinstance(kv, (tuple, list)) and all(isinstance(x, str) for x in kv):
                        for i, k in enumerate(kv):
                            data_keys[k] = ast.Subscript(value=ast.Name(id=v_.value.id, ctx=ast.Load()), slice=ast.Constant(value=i), ctx=ast.Load())
        # `*fields, tail = (s.strip() for s in found)`: the stripped groups unpacked by position; `dict(zip(KEYS, fields))`
        # names the leading ones, `data.update(helper(tail))` adds the keys the helper returns for the last one
        star_locals: Dict[str, ast.AST] = {}
        for n in own_nodes(f.node):
            if isinstance(n, ast.Assign) and len(n.targets) == 1 and isinstance(n.targets[0], ast.Tuple) and isinstance(n.value, (ast.GeneratorExp, ast.ListComp)) and "strip" in src(n.value) and len(n.value.generators) == 1 and isinstance(n.value.generators[0].iter, ast.Name):
                elts = n.targets[0].elts
                stars = [i for i, e in enumerate(elts) if isinstance(e, ast.Starred)]
                if len(stars) <= 1 and all(isinstance(e.value if isinstance(e, ast.Starred) else e, ast.Name) for e in elts):
                    items_name = items_name or "groups__"
                    slices: Dict[str, Tuple[int, int]] = {}
                    for i, e in enumerate(elts):
                        if isinstance(e, ast.Starred):
                            slices[e.value.id] = (i, ngroups - (len(elts) - 1 - i))
                        else:
                            gi = i if (not stars or i < stars[0]) else ngroups - (len(elts) - i)
                            star_locals[e.id] = ast.Subscript(value=ast.Name(id=items_name, ctx=ast.Load()), slice=ast.Constant(value=gi), ctx=ast.Load())
                    for m in own_nodes(f.node):
                        if isinstance(m, (ast.Assign, ast.AnnAssign)) and isinstance(m.value, ast.Call) and src(m.value.func) == "dict" and len(m.value.args) == 1 and isinstance(m.value.args[0], ast.Call) and src(m.value.args[0].func) == "zip" and len(m.value.args[0].args) == 2 and isinstance(m.value.args[0].args[1], ast.Name) and m.value.args[0].args[1].id in slices:
                            kv = ctx.folder.fold(m.value.args[0].args[0], f.module, ctx.folder.local_env(f))
                            lo, hi = slices[m.value.args[0].args[1].id]
                            if isinstance(kv, (tuple, list)) and all(isinstance(x, str) for x in kv) and len(kv) == hi - lo:
                                for j, k in enumerate(kv):
                                    data_keys[k] = ast.Subscript(value=ast.Name(id=items_name, ctx=ast.Load()), slice=ast.Constant(value=lo + j), ctx=ast.Load())
                        if isinstance(m, ast.Expr) and isinstance(m.value, ast.Call) and isinstance(m.value.func, ast.Attribute) and m.value.func.attr == "update" and len(m.value.args) == 1 and isinstance(m.value.args[0], ast.Call):
                            inner = m.value.args[0]
                            g_ = ctx.prog.resolve_name(f.module, src(inner.func)) if isinstance(inner.func, ast.Name) else None
                            if isinstance(g_, Func):
                                rkeys: Set[str] = set()
                                for r_ in [x for x in own_nodes(g_.node) if isinstance(x, ast.Return) and x.value is not None]:
                                    rv = r_.value
                                    if isinstance(rv, ast.Name):
                                        rv = next((d_.value for d_ in own_nodes(g_.node) if isinstance(d_, (ast.Assign, ast.AnnAssign)) and d_.value is not None and src(d_.targets[0] if isinstance(d_, ast.Assign) else d_.target) == rv.id), rv)
                                    if isinstance(rv, ast.Call) and src(rv.func) == "dict":
                                        rkeys |= {k.arg for k in rv.keywords if k.arg}
                                    elif isinstance(rv, ast.Dict):
                                        rkeys |= {k.value for k in rv.keys if isinstance(k, ast.Constant)}
                                star_locals["result__"] = inner
                                for k in sorted(rkeys):
                                    data_keys[k] = ast.Subscript(value=ast.Name(id="result__", ctx=ast.Load()), slice=ast.Constant(value=k), ctx=ast.Load())
        named_index: Dict[str, int] = {}
        match_name = None
        if items_name is None:
            # named groups: items = {k: s.strip() for k, s in m.groupdict(...).items()}  /  m.group("x")  /  m["x"]
            cg = compiled_grammar(ctx, f)
            if cg is not None:
                named_index = {nm: i - 1 for nm, i in _re.compile(rx).groupindex.items()}
                match_name = cg[1]
                for n in own_nodes(f.node):
                    if isinstance(n, (ast.Assign, ast.AnnAssign)) and isinstance(n.value, (ast.DictComp, ast.Call)) and "groupdict" in src(n.value):
                        tg = n.targets[0] if isinstance(n, ast.Assign) else n.target
                        if isinstance(tg, ast.Name):
                            items_name = tg.id
                if items_name is None:
                    items_name = match_name
        if items_name is None:
            raise AnalysisError(f"{q}: the stripped group list vanished")
        locals_: Dict[str, ast.AST] = {}
        for n in own_nodes(f.node):
            if isinstance(n, (ast.Assign, ast.AnnAssign)) and n.value is not None:
                t = n.targets[0] if isinstance(n, ast.Assign) else n.target
                if isinstance(t, ast.Name):
                    locals_[t.id] = n.value
        locals_.update(star_locals)
        used: Dict[int, List[str]] = {}
        order: List[Tuple[int, str]] = []
        okq = True
        for key, v in data_keys.items():
            idx = _group_index(v, items_name, locals_, ngroups, named_index, match_name)
            if idx is None:
                if isinstance(v, ast.Constant):
                    continue  # fixed value ("ip", "any", "")
                # result["dstport"] from the dstport/option splitter fed by one group
                sub = _split_source(v, items_name, locals_, ngroups, named_index, match_name)
                if sub is None:
                    rep.violation(q, f"{key}={snippet(v)}", "the value of this key does not come from a regex group", where(f, v))
                    okq = False
                    continue
                idx = sub
            if idx >= ngroups or idx < 0:
                rep.violation(q, f"{key}={snippet(v)}", f"group index {idx} outside the {ngroups} groups of the pattern: IndexError or wrong field", where(f, v))
                okq = False
                continue
            used.setdefault(idx, []).append(key)
            order.append((idx, key))
            piece = group_piece[idx]
            suffix = piece[3:] if piece.startswith("re_") else piece
            want = KEY_ALIASES.get(suffix, suffix)
            match = key == want or key.startswith(suffix) or suffix.startswith(key) or (suffix == "dstport" and key in ("dstport", "option")) or (want == "option" and key == "option") or (key in suffix.split("_") and {"dstport", "option"} >= set(suffix.split("_")))
            if not match:
                rep.violation(q, f"{key}={snippet(v)}", f"key {key!r} is filled from group {idx}, which the grammar piece `{piece}` produces: fields are swapped", where(f, v), inp="permit ip host 1.1.1.1 any")
                okq = False
        for g in range(ngroups):
            if g not in used:
                rep.violation(q, f"group {g} ({group_piece[g]})", "this capturing group is never read: a field of the line is dropped", where(f))
                okq = False
            elif len(used[g]) > 1 and not (set(used[g]) <= {"dstport", "option"}):
                rep.violation(q, f"group {g} ({group_piece[g]}) -> {used[g]}", "one group feeds several keys", where(f))
                okq = False
        if okq:
            rep.ok(f"{q}: {ngroups} groups", ", ".join(f"{group_piece[i]}→{'/'.join(used[i])}" for i in sorted(used)), where=where(f))
        orders[q] = [k for _, k in sorted(order)]
    rep.floor(4, "regex front ends")
    return orders


def _group_index(v: ast.AST, items: str, locals_: Dict[str, ast.AST], n: int, named: Optional[Dict[str, int]] = None, match_name: Optional[str] = None) -> Optional[int]:
    v = resolve_local(v, {k: x for k, x in locals_.items() if k != items})
    # .strip() of a group value is still that group
    while isinstance(v, ast.Call) and isinstance(v.func, ast.Attribute) and v.func.attr == "strip" and not v.args:
        v = v.func.value
    if named:
        # items["name"] / m["name"] / m.group("name") / m.group(k)
        if isinstance(v, ast.Subscript) and src(v.value) in (items, match_name) and isinstance(v.slice, ast.Constant) and isinstance(v.slice.value, str):
            return named.get(v.slice.value)
        if isinstance(v, ast.Call) and isinstance(v.func, ast.Attribute) and v.func.attr == "group" and src(v.func.value) == match_name and len(v.args) == 1 and isinstance(v.args[0], ast.Constant):
            a = v.args[0].value
            if isinstance(a, str):
                return named.get(a)
            if isinstance(a, int) and a >= 1:
                return a - 1
    if isinstance(v, ast.Subscript) and src(v.value) == items and not isinstance(v.slice, ast.Slice):
        s = v.slice
        if isinstance(s, ast.Constant) and isinstance(s.value, int):
            return s.value if s.value >= 0 else n + s.value
        if isinstance(s, ast.UnaryOp) and isinstance(s.op, ast.USub) and isinstance(s.operand, ast.Constant):
            return n - s.operand.value
    return None


def _split_source(v: ast.AST, items: str, locals_: Dict[str, ast.AST], n: int, named: Optional[Dict[str, int]] = None, match_name: Optional[str] = None) -> Optional[int]:
    """result["k"] where result = _parse_dstport_option(items[i])  ->  i"""
    if isinstance(v, ast.Subscript) and isinstance(v.value, ast.Name) and v.value.id in locals_:
        call = locals_[v.value.id]
        if isinstance(call, ast.Call) and call.args:
            return _group_index(call.args[0], items, locals_, n, named, match_name)
    return None


FIELD_CTOR = {"srcaddr": "Address", "dstaddr": "Address", "protocol": "Protocol", "srcport": "Port", "dstport": "Port", "option": "Option"}


def r01_2(ctx: Ctx, rep: Report, orders: Dict[str, List[str]]) -> None:  # noqa: C901
    rep.rule("R01.2")
    ls = ctx.func("Ace.line.setter")
    locals_: Dict[str, ast.AST] = {}
    for n in own_nodes(ls.node):
        if isinstance(n, (ast.Assign, ast.AnnAssign)) and n.value is not None:
            t = n.targets[0] if isinstance(n, ast.Assign) else n.target
            if isinstance(t, ast.Name) and t.id not in locals_:
                locals_[t.id] = n.value
    dict_names = {k for k, v in locals_.items() if isinstance(v, (ast.NamedExpr, ast.Call)) and "parse_ace" in src(v)}
    for n in own_nodes(ls.node):
        if isinstance(n, ast.NamedExpr) and isinstance(n.target, ast.Name) and "parse_ace" in src(n.value):
            dict_names.add(n.target.id)
    rep.require(bool(dict_names), "Ace.line setter no longer parses through parsers.parse_ace_*")
    stores: Dict[str, Tuple[ast.AST, ast.AST]] = {}
    for n in own_nodes(ls.node):
        if isinstance(n, ast.Assign) and isinstance(n.targets[0], ast.Attribute) and src(n.targets[0].value) == "self":
            stores[n.targets[0].attr] = (inline_helper_call(ctx, ls, resolve_local(n.value, locals_)), n)
    calls: Dict[str, ast.Call] = {}
    for field, ctor in FIELD_CTOR.items():
        rep.instance()
        attr = "_" + field
        if attr not in stores:
            rep.violation("Ace.line.setter", attr, f"the setter never stores {attr}: the field keeps its previous value", where(ls))
            continue
        v, node = stores[attr]
        if not (isinstance(v, ast.Call) and src(v.func) == ctor):
            rep.violation("Ace.line.setter", f"{attr} = {snippet(v)}", f"{attr} must hold a {ctor} built from the parsed field", where(ls, node))
            continue
        calls[field] = v
        keys = []
        for a in list(v.args) + [k.value for k in v.keywords]:
            for x in ast.walk(a):
                if isinstance(x, ast.Subscript) and isinstance(x.value, ast.Name) and x.value.id in dict_names and isinstance(x.slice, ast.Constant):
                    keys.append(x.slice.value)
        if keys == [field]:
            rep.ok(f"Ace.line setter: {attr} = {ctor}(<{field}>...)", "key, constructor and attribute agree", where=where(ls, node))
        else:
            rep.violation("Ace.line.setter", f"{attr} = {ctor}({', '.join(map(str, keys))} ...)", f"attribute {attr} is built from parsed key(s) {keys}, expected {field!r}: fields are crossed", where(ls, node), inp="permit tcp host 1.1.1.1 eq 1 host 2.2.2.2 eq 2")
        # the object's own previous state may be read only from the same attribute
        foreign = sorted({c[1] for a in list(v.args) + [k.value for k in v.keywords] for c in chains_in(a) if c[0] == "self" and len(c) >= 3 and c[1] in {"_" + f2 for f2 in FIELD_CTOR} and c[1] != attr})
        rep.instance()
        if foreign:
            rep.violation("Ace.line.setter", f"{attr} = {snippet(v, 90)}", f"the new {field} object is fed from {foreign} (another field's object): state leaks from one side of the entry to the other", where(ls, node), inp="an ACE with address groups in source and destination, rebuilt from data()")
        else:
            rep.ok(f"Ace.line setter: {attr} carries over only its own previous state", "no cross-field read", nontrivial=False, where=where(ls, node))
    # sibling agreement of the two address constructors and of the two port constructors
    for a, b in (("srcaddr", "dstaddr"), ("srcport", "dstport")):
        if a in calls and b in calls:
            rep.instance()
            sa = src(calls[a]).replace("src", "dst")
            sb = src(calls[b])
            if sa == sb:
                rep.ok(f"Ace.line setter: {a} ≡ {b}", "identical constructor calls modulo src↔dst", where=where(ls))
            else:
                rep.violation("Ace.line.setter", f"{snippet(calls[a], 70)} <> {snippet(calls[b], 70)}", f"{a} and {b} are built differently", where(ls))
    # both ports get the protocol name of the Protocol object that is stored
    rep.instance()
    proto_store = stores.get("_protocol")
    pn_ok = False
    if proto_store is not None and "srcport" in calls and "dstport" in calls:
        pobj = proto_store[1].value  # un-resolved: the local name
        pname = src(pobj)
        vals = []
        for field in ("srcport", "dstport"):
            kw = call_keywords(calls[field], locals_)
            vals.append(src(kw["protocol"]) if "protocol" in kw else None)
        pn_ok = vals[0] == vals[1] and vals[0] in (f"{pname}.name", f"{pname}.line")
        if pn_ok:
            rep.ok("Ace.line setter: port protocol", f"both ports are built under {vals[0]} of the Protocol object stored in _protocol", where=where(ls))
        else:
            rep.violation("Ace.line.setter", f"port protocol {vals}", f"both ports must be built under the name of the same Protocol object that is stored ({pname}): otherwise port names are looked up in the wrong table", where(ls))
    # render order
    g = ctx.func("Ace.line.getter")
    from .common import rendered_fields

    for seq in rendered_fields(ctx, g):
        rep.instance()
        lst = g.node
        fields = [norm_field(g.cls, a.rstrip("()")).lstrip("_").replace("sequence_s", "sequence") for a in seq]
        want_ext = [k for k in orders.get("parsers.parse_ace_extended", [])]
        want_std = [k for k in orders.get("parsers.parse_ace_standard", [])]
        if len(fields) >= 6:
            want = want_ext
            kind = "extended"
        else:
            want = want_std
            kind = "standard"
        if fields == want:
            rep.ok(f"Ace.line getter ({kind})", "renders " + ", ".join(fields) + " = order of the grammar pieces", where=where(g, lst))
        else:
            rep.violation("Ace.line.getter", f"{kind}: {fields}", f"the renderer's field order differs from the grammar's {want}: the text denotes another rule or does not parse back", where(g, lst), inp="permit ip host 1.1.1.1 any")
    rep.floor(10, "field plumbing obligations")


def field_isolation(ctx: Ctx, rep: Report, rid: str) -> None:
    """Each field object built by Ace.line setter reads previous state only from its own attribute, and the
    source/destination constructor calls agree (used by C03: group members feed the address cover)."""
    rep.rule(rid)
    ls = ctx.func("Ace.line.setter")
    locals_: Dict[str, ast.AST] = {}
    for n in own_nodes(ls.node):
        if isinstance(n, (ast.Assign, ast.AnnAssign)) and n.value is not None:
            t = n.targets[0] if isinstance(n, ast.Assign) else n.target
            if isinstance(t, ast.Name) and t.id not in locals_:
                locals_[t.id] = n.value
    calls: Dict[str, ast.Call] = {}
    for n in own_nodes(ls.node):
        if isinstance(n, ast.Assign) and isinstance(n.targets[0], ast.Attribute) and src(n.targets[0].value) == "self":
            attr = n.targets[0].attr
            v = inline_helper_call(ctx, ls, resolve_local(n.value, locals_))
            if attr.lstrip("_") in FIELD_CTOR and isinstance(v, ast.Call):
                calls[attr.lstrip("_")] = v
                rep.instance()
                foreign = sorted({c[1] for a in list(v.args) + [k.value for k in v.keywords] for c in chains_in(a) if c[0] == "self" and len(c) >= 3 and c[1] in {"_" + f2 for f2 in FIELD_CTOR} and c[1] != attr})
                if foreign:
                    rep.violation("Ace.line.setter", f"{attr} = {snippet(v, 90)}", f"the new {attr.lstrip('_')} object is fed from {foreign}: group members (or other state) of one side end up on the other, and the address cover test reads them", where(ls, n), inp="an ACE with address groups in source and destination, rebuilt from data() (copy, platform change, shading)")
                else:
                    rep.ok(f"Ace.line setter: {attr}", "reads previous state only from its own attribute", where=where(ls, n))
    for a, b in (("srcaddr", "dstaddr"), ("srcport", "dstport")):
        if a in calls and b in calls:
            rep.instance()
            if src(calls[a]).replace("src", "dst") == src(calls[b]):
                rep.ok(f"Ace.line setter: {a} ≡ {b}", "identical constructor calls modulo src↔dst", where=where(ls))
            else:
                rep.violation("Ace.line.setter", f"{snippet(calls[a], 70)} <> {snippet(calls[b], 70)}", f"{a} and {b} are built differently", where(ls))
    rep.floor(6, "field constructions in Ace.line setter")


def normalise_first(ctx: Ctx, rep: Report, rid: str = "R01.3") -> None:
    rep.rule(rid)
    n = 0
    for cls in ctx.prog.classes.values():
        st = cls.setters.get("line")
        if st is None:
            continue
        n += 1
        rep.instance()
        param = st.params[1]
        cfg = ctx.cfg(st)

        def is_norm(nd: Node) -> bool:
            if nd.ast is None or nd.kind != "stmt":
                return False
            for x in ast.walk(nd.ast):
                if isinstance(x, ast.Call):
                    fn = x.func
                    name = fn.attr if isinstance(fn, ast.Attribute) else (fn.id if isinstance(fn, ast.Name) else "")
                    if name in NORMALISERS and any(mentions(a, param) for a in x.args):
                        return True
            return False

        def split_then_norm(nd: Node) -> bool:
            """`lines = line.split("\\n")` followed by per-line init_line."""
            if nd.kind == "stmt" and isinstance(nd.ast, ast.Assign) and isinstance(nd.ast.value, ast.Call):
                c = nd.ast.value
                if isinstance(c.func, ast.Attribute) and c.func.attr in ("split", "splitlines") and src(c.func.value) == param:
                    if c.func.attr == "splitlines" or (c.args and isinstance(c.args[0], ast.Constant) and c.args[0].value == "\n"):
                        tgt = src(nd.ast.targets[0])
                        for m in cfg.live:
                            if m.kind == "stmt" and m.ast is not None and cfg.dominates(nd, m) and m is not nd:
                                for x in ast.walk(m.ast):
                                    if isinstance(x, (ast.ListComp, ast.GeneratorExp)) and src(x.generators[0].iter) == tgt and any(isinstance(y, ast.Call) and (src(y.func).split(".")[-1] in NORMALISERS) for y in ast.walk(x.elt)):
                                        return True
            return False

        def inline_split_norm(nd: Node) -> bool:
            """`lines = [h.init_line(s) for s in line.split("\n")]`: split and per-line normalisation in one statement."""
            if nd.kind == "stmt" and nd.ast is not None:
                for x in ast.walk(nd.ast):
                    if isinstance(x, (ast.ListComp, ast.GeneratorExp)) and len(x.generators) == 1:
                        it = x.generators[0].iter
                        if isinstance(it, ast.Call) and isinstance(it.func, ast.Attribute) and it.func.attr in ("split", "splitlines") and src(it.func.value) == param:
                            if it.func.attr == "splitlines" or (it.args and isinstance(it.args[0], ast.Constant) and it.args[0].value == "\n"):
                                if any(isinstance(y, ast.Call) and (src(y.func).split(".")[-1] in NORMALISERS) for y in ast.walk(x.elt)):
                                    return True
            return False

        users = [nd for nd in cfg.live if nd.ast is not None and nd.kind in ("stmt", "cond", "for") and mentions(nd.ast, param) and not (nd.kind == "stmt" and isinstance(nd.ast, ast.Expr) and isinstance(nd.ast.value, ast.Constant))]
        if not users:
            rep.ok(f"{st.qualname}", "stub (does not read the text)", nontrivial=False, where=where(st))
            continue
        first = users[0]
        trivial = isinstance(first.ast, ast.Assign) and src(first.ast.targets[0]) == "_"
        if trivial and len(users) == 1:
            rep.ok(f"{st.qualname}", "stub (ignores the text)", nontrivial=False, where=where(st))
            continue
        norms = [nd for nd in users if is_norm(nd) or split_then_norm(nd) or inline_split_norm(nd)]
        bad = [u for u in users if u not in norms and not any(cfg.dominates(nm, u) for nm in norms)]
        # an isinstance type guard on the raw parameter is not a parse
        bad = [u for u in bad if not (u.kind == "cond" and "isinstance" in src(u.ast))]
        if not norms:
            rep.violation(st.qualname, f"parameter {param}", "the incoming text is parsed without whitespace normalisation (init_line / int_to_str / lines_wo_spaces): double spaces survive into the rendered line", where(st), inp="'permit   ip  any any'")
        elif bad:
            rep.violation(st.qualname, snippet(bad[0].ast), f"the raw parameter {param} is used before it was normalised", where(st, bad[0].ast), inp="text with tabs or double spaces")
        else:
            rep.ok(st.qualname, f"every use of {param} is dominated by {snippet(norms[0].ast, 50)}", where=where(st, norms[0].ast))
    rep.floor(11, "line setters")


def r01_4(ctx: Ctx, rep: Report) -> None:
    rep.rule("R01.4")
    ls = ctx.func("Ace.line.setter")
    cfg = ctx.cfg(ls)
    rep.instance()

    def is_check(n: Node) -> bool:
        return n.ast is not None and n.kind == "stmt" and any(isinstance(x, ast.Call) and src(x.func).endswith("_check_parsed_elements") for x in ast.walk(n.ast))

    def is_ctor(n: Node) -> bool:
        return n.ast is not None and n.kind == "stmt" and any(isinstance(x, ast.Call) and src(x.func) in set(FIELD_CTOR.values()) for x in ast.walk(n.ast))

    checks = [n for n in cfg.live if is_check(n)]
    ctors = [n for n in cfg.live if is_ctor(n)]
    if not checks:
        rep.violation("Ace.line.setter", "_check_parsed_elements", "the parsed elements are not validated (protocol/port exclusions)", where(ls), inp="permit ip any eq 1 any")
    elif all(cfg.dominates(checks[0], c) for c in ctors):
        rep.ok("Ace.line setter", f"_check_parsed_elements dominates all {len(ctors)} field constructions", where=where(ls, checks[0].ast))
    else:
        rep.violation("Ace.line.setter", "validation order", "a field object is constructed before the parsed elements were validated", where(ls))
    rep.instance()
    prod = []
    ace = ctx.cls("Ace")
    for f in ace.all_funcs():
        for n in own_nodes(f.node):
            if isinstance(n, ast.Assign) and any(isinstance(t, ast.Attribute) and src(t.value) == "self" and t.attr == "_action" for t in n.targets):
                prod.append((f, n))
    bad = [(f, n) for f, n in prod if not (f.name == "__init__" and isinstance(n.value, ast.Constant)) and not (isinstance(n.value, ast.Call) and src(n.value.func).endswith("init_ace_action"))]
    if bad:
        rep.violation(bad[0][0].qualname, snippet(bad[0][1]), "the action is stored without going through init_ace_action (permit/deny validation)", where(bad[0][0], bad[0][1]))
    else:
        rep.ok("Ace._action", f"{len(prod)} store(s): placeholder in __init__ and init_ace_action(...) in the line setter", where=where(ls))
    # init_ace_action accepts exactly permit/deny
    ia = ctx.func("helpers.init_ace_action")
    rep.instance()
    okset = False
    for n in own_nodes(ia.node):
        if isinstance(n, ast.Assign) and isinstance(n.value, (ast.List, ast.Tuple, ast.Set)):
            v = ctx.folder.fold(n.value, ia.module)
            if known(v) and set(v) == {"permit", "deny"}:
                okset = True
    acts = set(ctx.folder.const("helpers", "ACTIONS"))
    if okset and acts == {"remark", "permit", "deny"}:
        rep.ok("helpers.init_ace_action", "accepts exactly permit and deny (= ACTIONS minus remark)", where=where(ia))
    else:
        rep.violation("helpers.init_ace_action", "accepted actions", "an ACE action is one of permit, deny", where(ia))


TYPE_GUARDS = {
    "any": ("/0", "the whole address space: str(ipnet) == '0.0.0.0/0' or prefixlen == 0"),
    "host": ("/32", "a single address: prefixlen == 32"),
}


def _guard_kind(test: ast.AST, truth: bool) -> Optional[str]:
    """'/0' | '/32' when the atomic condition (with its polarity) pins the network to that size."""
    if not isinstance(test, ast.Compare) or len(test.ops) != 1:
        return None
    op = test.ops[0]
    l, r = test.left, test.comparators[0]
    if isinstance(l, ast.Constant):
        l, r = r, l
    if not isinstance(r, ast.Constant):
        return None
    eq = (isinstance(op, ast.Eq) and truth) or (isinstance(op, ast.NotEq) and not truth)
    if not eq:
        return None
    ls = src(l)
    if r.value == "0.0.0.0/0" and ls.startswith("str(") and "ipnet" in ls:
        return "/0"
    if ls.endswith(".prefixlen") and "ipnet" in ls:
        if r.value == 0:
            return "/0"
        if r.value == 32:
            return "/32"
    return None


def classification_guards(ctx: Ctx, rep: Report, rid: str = "R01.6") -> None:
    """An address is typed 'any' only when its network is pinned to /0 and 'host' only when pinned to /32."""
    rep.rule(rid)
    n = 0
    for cn in ("AddressBase", "Address", "AddressAg"):
        cls = ctx.cls(cn)
        for f in cls.all_funcs():
            cfg = ctx.cfg(f)
            for node in cfg.live:
                if not (node.kind == "stmt" and isinstance(node.ast, ast.Assign) and isinstance(node.ast.value, ast.Constant) and any(isinstance(t, ast.Attribute) and src(t) == "self._type" for t in node.ast.targets)):
                    continue
                lit = node.ast.value.value
                if lit not in TYPE_GUARDS:
                    continue
                n += 1
                rep.instance()
                want, words = TYPE_GUARDS[lit]
                deps = cfg.transitive_control_deps(node)
                ok = any(c.kind == "cond" and _guard_kind(c.ast, lab == "T") == want for c, lab in deps)
                why = "guarded by a test of the network size"
                if not ok:
                    # classifier functions that build the wildcard from a literal mask
                    for x in own_nodes(f.node):
                        if isinstance(x, (ast.Constant, ast.JoinedStr)):
                            txt = x.value if isinstance(x, ast.Constant) else "".join(str(v.value) for v in x.values if isinstance(v, ast.Constant))
                            if isinstance(txt, str):
                                if want == "/0" and txt.strip() == "0.0.0.0 255.255.255.255":
                                    ok, why = True, "the wildcard is the literal 0.0.0.0 255.255.255.255"
                                if want == "/32" and txt.endswith(" 0.0.0.0") and isinstance(x, ast.JoinedStr):
                                    ok, why = True, "the wildcard is built with the literal mask 0.0.0.0"
                if ok:
                    rep.ok(f"{f.qualname}: _type = {lit!r}", why, where=where(f, node.ast))
                else:
                    conds = [snippet(c.ast, 40) + ("" if lab == "T" else " (false)") for c, lab in deps if c.kind == "cond"]
                    rep.violation(f.qualname, f"_type = {lit!r} under [{'; '.join(conds) or 'no condition'}]", f"the address is typed {lit!r} without a test that pins it to {words}: other networks render as {lit!r}", where(f, node.ast), inp="0.0.0.0 0.255.255.255 (a /8 based at zero) parsed and rendered")
    rep.floor(8, "stores of the address type 'any'/'host'")
    # log keywords
    rep.instance()
    import json as _json
    import os as _os

    refp = _os.path.join(_os.path.dirname(_os.path.dirname(_os.path.abspath(__file__))), "reference_names.json")
    with open(refp, "r", encoding="utf-8") as fh:
        want_logs = set(_json.load(fh)["log_keywords"])
    logs = set(ctx.folder.const("option", "LOGS"))
    if logs == want_logs:
        rep.ok("option.LOGS", f"{sorted(logs)} = Cisco's logging keywords (everything else in the option text is a packet-matching flag)", where="cisco_acl/option.py")
    else:
        rep.violation("option.LOGS", str(sorted(logs)), f"the log keywords are {sorted(want_logs)}: a missing keyword is classified as a packet-matching flag, an extra one hides a flag from the cover tests", "cisco_acl/option.py", inp="permit tcp any any log-input")


def path_assigned(ctx: Ctx, f: Func, cls: Class, path, memo, symenv=None) -> Set[str]:
    """Attributes of self assigned along one path of f (direct stores, setters, and the must-assign sets of
    methods invoked on self)."""
    from .c17 import NEVER_RETURNS, _must_assign

    out: Set[str] = set()
    self_name = f.params[0] if f.params else "self"
    from .common import single_env as _single_env

    senv_ = _single_env(f.node)
    for node, lab in path:
        if node.ast is None or node.kind != "stmt":
            continue
        st = node.ast
        if isinstance(st, (ast.Assign, ast.AnnAssign, ast.AugAssign)):
            for t in st.targets if isinstance(st, ast.Assign) else [st.target]:
                if isinstance(t, ast.Attribute) and src(t.value) == self_name and (not isinstance(st, ast.AnnAssign) or st.value is not None):
                    stt = cls.lookup_setter(t.attr)
                    if stt is not None and stt is not f:
                        r_ = _must_assign(ctx, stt, cls, memo, 0, symenv)
                        if r_ is NEVER_RETURNS:
                            return NEVER_RETURNS
                        out |= r_
                    else:
                        out.add(t.attr)
        for x in ast.walk(st):
            # a bound method chosen by a conditional expression (possibly kept in a local first)
            if isinstance(x, ast.Call):
                fx = x.func
                if isinstance(fx, ast.Name) and fx.id in senv_:
                    fx = senv_[fx.id]
                if isinstance(fx, ast.IfExp):
                    cands = [cls.lookup_method(alt.attr) for alt in (fx.body, fx.orelse) if isinstance(alt, ast.Attribute) and src(alt.value) == self_name]
                    cands = [m_ for m_ in cands if m_ is not None and m_ is not f]
                    if len(cands) == 2:
                        sets = [_must_assign(ctx, m_, cls, memo, 0, symenv) for m_ in cands]
                        live = [s_ for s_ in sets if s_ is not NEVER_RETURNS]
                        if not live:
                            return NEVER_RETURNS
                        acc = set(live[0])
                        for s_ in live[1:]:
                            acc &= s_
                        out |= acc
            if isinstance(x, ast.Call) and isinstance(x.func, ast.Attribute):
                callee = None
                if src(x.func.value) == self_name:
                    callee = cls.lookup_method(x.func.attr)
                elif src(x.func.value) == "super()" and f.cls in cls.mro:
                    for c in cls.mro[cls.mro.index(f.cls) + 1 :]:
                        if x.func.attr in c.methods:
                            callee = c.methods[x.func.attr]
                            break
                if callee is not None and callee is not f:
                    r_ = _must_assign(ctx, callee, cls, memo, 0, symenv)
                    if r_ is NEVER_RETURNS:
                        return NEVER_RETURNS
                    out |= r_
    return out


def setter_completeness(ctx: Ctx, rep: Report, rid: str = "R01.7", platforms=("ios", "nxos")) -> None:
    """Every normal path of a `line` setter assigns the same set of attributes (no field keeps the previous line's value)."""
    from ..pathsem import feasible

    rep.rule(rid)
    memo: Dict = {}
    n = 0
    for cls, plat in [(c, p_) for c in ctx.prog.classes.values() for p_ in platforms]:
        st = cls.lookup_setter("line")
        if st is None or cls.name in ("Base", "AddressBase", "AceBase"):
            continue
        n += 1
        symenv = {"self._platform": plat, "self.platform": plat}
        from .normalise import normalised as _nrm

        # a table of (detector, setter) pairs walked by a loop is the if-chain it stands for: each row is a path of its
        # own (through the indirect call all rows would look alike, and a row that forgets an attribute would hide)
        st = _nrm(ctx, st, "unroll,beta")
        cfg = ctx.cfg(st)
        per_path = []
        for p in function_paths(cfg):
            if p.raises or feasible(p, ctx.folder, st, symenv) is False:
                continue
            pa = path_assigned(ctx, st, cls, p.nodes, memo, symenv)
            from .c17 import NEVER_RETURNS as _NR

            if pa is _NR:
                continue  # a callee on this path always raises on this platform
            per_path.append((p, pa))
        allattrs: Set[str] = set()
        for p, a in per_path:
            allattrs |= a
        rep.instance()
        bad = [(p, a) for p, a in per_path if a and a != allattrs]
        if not per_path:
            continue
        if bad:
            p, a = bad[0]
            atoms = "; ".join(f"{snippet(t, 30)}={'T' if tr else 'F'}" for t, tr in p.atoms) or "unconditional"
            rep.violation(st.qualname, f"{cls.name} on {plat}: path [{atoms}] leaves {sorted(allattrs - a)} unassigned", "a normally returning path of the line setter does not assign every attribute the other paths assign: after a re-parse the object mixes the new line with the previous one", where(st), inp="assign a line of another kind to an existing object (e.g. extended over standard)")
        else:
            rep.ok(f"{cls.name}.line setter ({plat})", f"every normal path assigns {sorted(allattrs)}", where=where(st))
    rep.floor(18, "concrete line setters x platforms")


def normaliser_total(ctx: Ctx, rep: Report, rid: str = "R01.10") -> None:
    """The text normaliser every line setter applies first accepts every string: it may reject a non-string (TypeError)
    but must not reject by value - a ValueError raised here is swallowed by the builders' per-line error handling and
    the line silently disappears (or a valid ACE is refused)."""
    rep.rule(rid)
    n = 0
    for q in sorted(NORMALISERS - {"int_to_str"}):
        f = ctx.prog.find_func(f"helpers.{q}")
        if f is None:
            continue
        n += 1
        rep.instance()
        esc = ctx.excs.escapes(f)
        bad = sorted(k for k in esc if k != "TypeError")
        if bad:
            site = esc[bad[0]]
            rep.violation(f.qualname, f"raises {bad}", f"the normaliser rejects some strings ({bad}): lines that the grammar accepts are refused or dropped before they are parsed (raised at {getattr(site, 'where', site)})", where(f), inp="an ACE line longer than 100 characters inside an ACL")
        else:
            rep.ok(f"{f.qualname}", f"escaping exceptions {sorted(esc) or 'none'}: only the type check", where=where(f))
    rep.require(n >= 1, "no text normaliser (helpers.init_line) found")


def option_tokens(ctx: Ctx, rep: Report, rid: str = "R01.8") -> None:
    """Flag and log tokens are the blank-separated words of the option text: the tokeniser of Option.line setter must
    not cut inside a word (`log-input`, `match-any`, `time-range NAME` are single Cisco keywords)."""
    from .. import rx

    rep.rule(rid)
    f = ctx.func("Option.line.setter")
    param = f.params[1]
    env = ctx.folder.local_env(f)
    tainted = {param}
    changed = True
    while changed:
        changed = False
        for n in own_nodes(f.node):
            tg, val = None, None
            if isinstance(n, ast.Assign) and len(n.targets) == 1 and isinstance(n.targets[0], ast.Name):
                tg, val = n.targets[0].id, n.value
            elif isinstance(n, ast.AnnAssign) and isinstance(n.target, ast.Name) and n.value is not None:
                tg, val = n.target.id, n.value
            if tg and tg not in tainted and names_in(val) & tainted:
                tainted.add(tg)
                changed = True
    found = 0
    for n in own_nodes(f.node):
        if not isinstance(n, ast.Call):
            continue
        fn = src(n.func)
        verdict = None
        if isinstance(n.func, ast.Attribute) and n.func.attr in ("split", "rsplit") and names_in(n.func.value) & tainted and not fn.startswith("re."):
            sep = n.args[0] if n.args else None
            sv = ctx.folder.fold(sep, f.module, env) if sep is not None else None
            if sep is None or (isinstance(sv, str) and sv and sv.isspace()):
                verdict = (True, "str.split on blanks")
            else:
                verdict = (False, f"separator {snippet(sep)} is not blank space")
        elif fn in ("re.findall", "re.finditer") and len(n.args) >= 2 and names_in(n.args[1]) & tainted:
            pv = ctx.folder.fold(n.args[0], f.module, env)
            if isinstance(pv, str):
                verdict = (rx.is_nonspace_run(pv), f"token pattern {pv!r}" + ("" if rx.is_nonspace_run(pv) else " is not a maximal run of non-blank characters: it cuts keywords such as 'log-input' at the hyphen"))
            else:
                verdict = (False, f"token pattern {snippet(n.args[0])} is not a constant")
        elif fn == "re.split" and len(n.args) >= 2 and names_in(n.args[1]) & tainted:
            pv = ctx.folder.fold(n.args[0], f.module, env)
            if isinstance(pv, str):
                verdict = (rx.is_space_run(pv), f"separator pattern {pv!r}" + ("" if rx.is_space_run(pv) else " matches more than blank space"))
            else:
                verdict = (False, f"separator pattern {snippet(n.args[0])} is not a constant")
        if verdict is None:
            continue
        found += 1
        rep.instance()
        if verdict[0]:
            rep.ok(f"Option.line.setter: {snippet(n, 50)}", f"tokens are whole blank-separated words ({verdict[1]})", where=where(f, n))
        else:
            rep.violation("Option.line.setter", snippet(n), f"{verdict[1]}: flag and log tokens no longer match the words of the entry's own text", where(f, n), inp="permit tcp any any log-input  ->  logs ['log'], flags ['input']")
    rep.require(found >= 1, "Option.line setter: no tokeniser (split / re.findall / re.split on the line) found")


def has_port_twin(ctx: Ctx, rep: Report, rid: str = "R01.12") -> None:
    """The protocol is rendered as a name or as a number depending on whether the entry carries a port: the flag that
    says so is computed from the source port AND the destination port, once."""
    rep.rule(rid)
    ls = ctx.func("Ace.line.setter")
    stores = [n for n in own_nodes(ls.node) if isinstance(n, ast.Assign) and any(isinstance(t, ast.Attribute) and t.attr in ("has_port", "_has_port") for t in n.targets)]
    rep.instance()
    if not stores:
        rep.ok("Ace.line setter: has_port", "not set here (nothing to agree on)", nontrivial=False, where=where(ls))
        return
    bad = None
    for st in stores:
        fields = {norm_field(ls.cls, c[1]) for c in chains_in(st.value) if c[0] == "self" and len(c) >= 2}
        if not {"_srcport", "_dstport"} <= fields:
            bad = (st, sorted(fields))
    if bad is not None:
        rep.violation("Ace.line.setter", snippet(bad[0]), f"the port-presence flag of the protocol is computed from {bad[1]} only: with a port on the other side alone the protocol is rendered in the wrong spelling", where(ls, bad[0]), inp="permit tcp any eq 21 any with protocol_nr=True")
    elif len(stores) > 1:
        rep.violation("Ace.line.setter", "; ".join(snippet(s_, 40) for s_ in stores), "the port-presence flag is stored more than once: the later store overrides the earlier", where(ls, stores[-1]))
    else:
        rep.ok(f"Ace.line setter: {snippet(stores[0], 70)}", "reads the source and the destination port", where=where(ls, stores[0]))


def option_partition(ctx: Ctx, rep: Report, rid: str = "R01.11") -> None:
    """The option text is kept as written: the stored text is the normalised input, and its words are split into flags
    and log keywords by membership in LOGS only - every word lands in exactly one of the two lists, in the order it was
    written (value-carrying options such as `dscp af11` keep their order; a flag written after `log` is still a flag)."""
    rep.rule(rid)
    from .normalise import normalised

    f = normalised(ctx, ctx.func("Option.line.setter"), "aliasif,multiret,ifexp")
    param = f.params[1]
    senv = single_env_(f)
    cfg = ctx.cfg(f)
    stores: Dict[str, ast.AST] = {}
    for n in own_nodes(f.node):
        if isinstance(n, ast.Assign) and len(n.targets) == 1 and isinstance(n.targets[0], ast.Attribute) and src(n.targets[0].value) == "self" and n.targets[0].attr in ("_flags", "_logs", "_line"):
            stores[n.targets[0].attr] = n
    rep.instance()
    rep.require({"_flags", "_logs", "_line"} <= set(stores), "Option.line setter no longer stores _flags, _logs and _line")
    # the text
    lv = stores["_line"].value
    if isinstance(lv, ast.Name) and lv.id == param:
        rep.ok("Option.line setter: _line", "the normalised input itself", where=where(f, stores["_line"]))
    else:
        rep.violation("Option.line.setter", snippet(stores["_line"]), "the stored option text is rebuilt instead of being the normalised input: the order (or multiplicity) of its words can change", where(f, stores["_line"]), inp="permit ip any any dscp af11  ->  'af11 dscp'")

    def base_tokens(e: ast.AST) -> Optional[str]:
        """Name of the token list an expression filters by LOGS membership only; None when it does something else."""
        for _ in range(4):
            if isinstance(e, ast.Name) and e.id in senv and not isinstance(senv[e.id], (ast.ListComp,)):
                e = senv[e.id]
            else:
                break
        return src(e) if isinstance(e, ast.Name) else None

    verdict: Dict[str, Tuple[bool, str, Optional[str]]] = {}
    for attr, want_in in (("_flags", False), ("_logs", True)):
        v = stores[attr].value
        ok, why, base = False, "", None
        if isinstance(v, ast.ListComp) and len(v.generators) == 1 and src(v.elt) == src(v.generators[0].target) and len(v.generators[0].ifs) == 1:
            c = v.generators[0].ifs[0]
            neg = False
            while isinstance(c, ast.UnaryOp) and isinstance(c.op, ast.Not):
                neg, c = not neg, c.operand
            if isinstance(c, ast.Compare) and len(c.ops) == 1 and isinstance(c.ops[0], (ast.In, ast.NotIn)) and src(c.left) == src(v.generators[0].target) and src(c.comparators[0]).endswith("LOGS"):
                is_in = isinstance(c.ops[0], ast.In) != neg
                base = base_tokens(v.generators[0].iter)
                ok = is_in == want_in and base is not None
                why = f"[w for w in {base} if w {'in' if is_in else 'not in'} LOGS]"
        elif isinstance(v, ast.Name):
            # loop form: the list is filled by appends inside one loop over the tokens, chosen by `in LOGS`
            loops = [l for l in cfg.live if l.kind == "for"]
            for lp in loops:
                var = src(lp.ast.target)
                good = True
                seen = False
                for path in loop_body_paths(cfg, lp):
                    if path[-1][0] is not lp:
                        continue
                    atoms = [(nd.ast, lab == "T") for nd, lab in path if nd.kind == "cond" and lab in ("T", "F")]
                    is_log = [tr for t, tr in atoms if isinstance(t, ast.Compare) and len(t.ops) == 1 and isinstance(t.ops[0], ast.In) and src(t.left) == var and src(t.comparators[0]).endswith("LOGS")]
                    appended = [src(x.func.value) for nd, _ in path if nd.kind == "stmt" and nd.ast is not None for x in ast.walk(nd.ast) if isinstance(x, ast.Call) and isinstance(x.func, ast.Attribute) and x.func.attr == "append" and x.args and src(x.args[0]) == var]
                    if not is_log:
                        good = False
                        continue
                    seen = True
                    mine = appended.count(v.id)
                    if (is_log[0] == want_in and (mine != 1 or len(appended) != 1)) or (is_log[0] != want_in and mine != 0):
                        good = False
                if seen and good:
                    ok, why, base = True, f"filled in the loop over {src(lp.ast.iter)}: each word appended once, by `in LOGS`", base_tokens(lp.ast.iter) or src(lp.ast.iter)
        verdict[attr] = (ok, why, base)
        rep.instance()
        if ok:
            rep.ok(f"Option.line setter: {attr}", why, where=where(f, stores[attr]))
        else:
            rep.violation("Option.line.setter", snippet(stores[attr]), f"{attr} is not the order-preserving selection of the words by membership in LOGS: words are dropped, re-ordered or moved between flags and log keywords", where(f, stores[attr]), inp="permit tcp any any log ack  ->  'ack' is no longer a flag")
    rep.instance()
    b1, b2 = verdict["_flags"][2], verdict["_logs"][2]
    if verdict["_flags"][0] and verdict["_logs"][0] and b1 != b2:
        rep.violation("Option.line.setter", f"_flags from {b1}, _logs from {b2}", "flags and log keywords are selected from different word lists: a word can be lost or counted twice", where(f))
    elif verdict["_flags"][0] and verdict["_logs"][0]:
        rep.ok("Option.line setter: partition", f"both lists select from {b1}", where=where(f))


def address_spellings_whole(ctx: Ctx, rep: Report, rid: str = "R01.16") -> None:
    """Each spelling of an address is read whole by the ACE grammars: the assembled pattern of `parse_ace_standard` /
    `parse_ace_extended` is matched against witness lines, one per spelling (any, host A, object-group NAME, A/LEN, A W,
    bare A), with and without a trailing option, and the address group must be the spelling as written (an alternation
    that tries the bare address before `A/LEN` reads a /24 as a host and drops the rest)."""
    import re as _re2

    rep.rule(rid)
    spellings = ["any", "host 10.1.1.1", "10.20.30.0/24", "10.0.0.0 0.0.0.255", "10.1.1.199"]
    n = 0
    for q, mk in (("parsers.parse_ace_standard", lambda a, tail: f"permit {a}{tail}"), ("parsers.parse_ace_extended", lambda a, tail: f"permit ip {a} any{tail}")):
        f = ctx.prog.find_func(q)
        if f is None:
            continue
        try:
            full, _pieces = regex_pieces(ctx, f)
            pat = _re2.compile(full)
        except (AnalysisError, _re2.error):
            rep.note(f"{rid} the pattern of {q} could not be assembled (not judged; R01.1 reports it)")
            continue
        accepted_any = False
        for a in spellings:
            for tail in ("", " log"):
                line = mk(a, tail)
                m = pat.match(line)
                if not m:
                    continue  # a spelling this grammar does not have (prefix on a platform without it): nothing is mis-read
                accepted_any = True
                n += 1
                rep.instance()
                groups = [str(g or "").strip() for g in m.groups()]
                if a in groups:
                    rep.ok(f"{q}: {line!r}", f"address read as {a!r}", nontrivial=False, where=where(f))
                else:
                    near = next((g for g in groups if g and a.startswith(g)), None)
                    rep.violation(q, f"{line!r} -> groups {groups}", f"the address {a!r} is not read whole" + (f" (read as {near!r}: an earlier alternative matches a prefix of it)" if near else "") + ": the entry means another network, and what follows the address is lost or mis-assigned", where(f), inp=f"Ace({line!r})")
        if q.endswith("extended"):
            # the same spellings on the DESTINATION side, and references to groups whose NAME looks like an address (any word is
            # a legal group name; the source side reads `object-group 10.0.0.0/8` as a group): a greedy filler between the two
            # addresses lets the destination start at the LAST address-like place of the line
            for a in spellings + ["object-group NAME", "object-group 10.0.0.0/8", "object-group NET-10.1.1.199"]:
                for line in (f"permit ip any {a}", f"permit tcp host 1.1.1.1 eq 80 {a} eq 443 log"):
                    m = pat.match(line)
                    if not m:
                        continue
                    n += 1
                    rep.instance()
                    groups = [str(g or "").strip() for g in m.groups()]
                    if a in groups:
                        rep.ok(f"{q}: {line!r}", f"destination read as {a!r}", nontrivial=False, where=where(f))
                    else:
                        rep.violation(q, f"{line!r} -> groups {groups}", f"the destination {a!r} is not read whole: a part of it is taken for the source port or the address starts inside the group name - the entry is refused or means another network", where(f), inp=f"Ace({line!r})")
        if not accepted_any:
            rep.note(f"{rid} {q}: no witness line matched the assembled pattern (not judged)")
        # the largest sequence number the setters accept is read as the sequence number
        smax = ctx.folder.try_const("helpers", "SEQUENCE_MAX")
        if isinstance(smax, int):
            line = f"{smax} " + mk("any", "")
            m = pat.match(line)
            n += 1
            rep.instance()
            if m and str(smax) in [str(g or "").strip() for g in m.groups()]:
                rep.ok(f"{q}: {line!r}", "sequence number read whole", nontrivial=False, where=where(f))
            else:
                rep.violation(q, f"{line!r} -> {[str(g or '').strip() for g in m.groups()] if m else None}", f"the grammar does not read the sequence number {smax} (the largest the setters accept and resequence() can produce): the rendered entry is refused or its number is cut", where(f), inp=f"ace.sequence = {smax}; Ace(ace.line)")
    rep.floor(6, "address spellings read by the ACE grammars") if n else None


def group_reference_whole(ctx: Ctx, rep: Report, rid: str = "R01.17") -> None:
    """The name of a referenced address group is everything after the keyword: the pattern of `_line_addrgroup` (folded
    with the platform's keyword put in) reads witness names with dots, dashes, underscores and colons whole - a name cut at
    the first dot makes two groups one (`NET-10.0.0.16` and `NET-10.7.7.0` both become `NET-10`)."""
    import re as _re2

    rep.rule(rid)
    n = 0
    for f in [g for g in ctx.prog.funcs if g.name == "_line_addrgroup" and g.cls is not None]:
        env = dict(ctx.folder.local_env(f))
        pats = []
        for kw in ("object-group", "addrgroup", "group-object"):
            symenv = dict(env)
            symenv["self._cmd_addrgroup()"] = kw
            for x in own_nodes(f.node):
                if isinstance(x, (ast.Assign, ast.AnnAssign)) and x.value is not None:
                    v = ctx.folder.fold(x.value, f.module, symenv)
                    if isinstance(v, str) and kw in v and "(" in v:
                        pats.append((kw, v))
        for kw, pat in pats:
            for nm in ("NAME", "NET-10.0.0.16", "a_b.c:d", "G1"):
                n += 1
                rep.instance()
                m = _re2.findall(pat, f"{kw} {nm}")
                got = m[0] if m and isinstance(m[0], str) else (m[0][0] if m and m[0] else None)
                if got == nm:
                    rep.ok(f"{f.qualname}: {kw} {nm}", "name read whole", nontrivial=False, where=where(f))
                else:
                    rep.violation(f.qualname, f"{pat!r} on '{kw} {nm}' -> {got!r}", "the referenced group name is not read whole: two groups whose names differ after the cut are the same group for the library (shadow removal works by rendered line and deletes the wrong entry)", where(f), inp=f"permit ip {kw} {nm} any")
    # ... and however the name is cut out (pattern, slice, prefix removal): the body evaluated on `<keyword> <name>` stores
    # that very name - for names that begin with letters of the keywords too (`str.lstrip("addrgroup ")` strips a SET of
    # characters: `dmz-hosts` becomes `mz-hosts`, and only when the line is re-read on the other platform)
    from ..fold import RaisesValue as _RV

    m = 0
    for f in [g for g in ctx.prog.funcs if g.name == "_line_addrgroup" and g.cls is not None and len(g.params) > 1]:
        for kw in ("object-group", "addrgroup"):
            for nm in ("NAME", "dmz-hosts", "admins", "branch-lan", "group-1", "object", "p", "NET-10.0.0.16"):
                st = ctx.folder.eval_state(f, {f.params[1]: f"{kw} {nm}", "self._cmd_addrgroup()": kw})
                if isinstance(st, _RV):
                    m += 1
                    rep.instance()
                    rep.violation(f.qualname, f"'{kw} {nm}' -> raises {st.exc_name}", "a reference to an address group with this name is refused", where(f), inp=f"permit ip {kw} {nm} any")
                    continue
                if not isinstance(st, dict):
                    continue  # does not fold: not judged
                stored = [v for k, v in st.items() if k.startswith("self._") and k != "self._cmd_addrgroup()" and isinstance(v, str) and v not in ("addrgroup",)]
                if not stored:
                    continue
                m += 1
                rep.instance()
                if nm in stored:
                    rep.ok(f"{f.qualname}: {kw} {nm}", "the body stores the name whole", nontrivial=False, where=where(f))
                else:
                    rep.violation(f.qualname, f"'{kw} {nm}' -> {stored}", "the name stored for the referenced group is not the name that stands after the keyword: the entry refers to another group (and to a different one after the line is re-read on the other platform, whose keyword has other letters)", where(f), inp=f"Ace('permit ip {kw} {nm} any').platform = <the other platform>")
    if n == 0 and m == 0:
        rep.note(f"{rid} neither the pattern nor the body of _line_addrgroup could be evaluated (not judged)")


def log_keywords_pass(ctx: Ctx, rep: Report, rid: str = "R01.18") -> None:
    """Every log keyword is a valid option word: the test that refuses a word in `Option.line` is evaluated by the constant
    folder on each member of LOGS (and on sample flags) and must not take the raising branch (a pattern of letters and
    digits refuses `log-input`: the entry is refused, or dropped with a warning when it stands in an ACL)."""
    from ..fold import known as _known

    rep.rule(rid)
    f = ctx.func("Option.line.setter")
    cfg = ctx.cfg(f)
    logs = ctx.folder.try_const("option", "LOGS")
    words = sorted(logs) if isinstance(logs, (list, tuple, set, frozenset)) else []
    words += ["ack", "syn", "established", "dscp", "af11", "echo-reply", "time-range"]
    n = 0
    for lp in [x for x in cfg.live if x.kind == "for" and isinstance(x.ast.target, ast.Name)]:
        var = lp.ast.target.id
        inside = {id(y) for b_ in lp.ast.body for y in ast.walk(b_)}
        for c in [x for x in cfg.live if x.kind == "cond" and x.ast is not None and id(x.ast) in inside and any(isinstance(y, ast.Name) and y.id == var for y in ast.walk(x.ast))]:
            raising = {lab for lab in ("T", "F") for s_ in c.succs(lab) if s_.kind == "stmt" and isinstance(s_.ast, ast.Raise)}
            if not raising:
                continue
            n += 1
            rep.instance()
            refused, unknown = [], False
            for w in words:
                v = ctx.folder.fold(c.ast, f.module, {var: w})
                if not _known(v):
                    unknown = True
                    break
                if ("T" if v else "F") in raising:
                    refused.append(w)
            if unknown:
                rep.note(f"{rid} the word test `{snippet(c.ast, 40)}` could not be evaluated (not judged)")
            elif refused:
                rep.violation("Option.line.setter", snippet(c.ast, 60), f"the word test refuses {refused}: an entry that carries such a word is refused (and dropped with a warning inside an ACL)", where(f, c.ast), inp=f"permit ip any any {refused[0]}")
            else:
                rep.ok(f"Option.line setter: {snippet(c.ast, 40)}", f"accepts all {len(words)} witness words (every log keyword among them)", where=where(f, c.ast))
    if n == 0:
        rep.note(f"{rid} no refusing word test found in Option.line setter")


def validated_before_stored(ctx: Ctx, rep: Report, rid: str = "R01.14") -> None:
    """A field object that refuses a value is left as it was: in the line setters that hold one derived value (Protocol:
    the number) no path stores that value and raises afterwards - otherwise the refused text has already changed the
    object, and the entry renders a protocol the grammar does not have (`permit 256 any any`)."""
    from .normalise import normalised

    rep.rule(rid)
    n = 0
    for q, attrs in (("Protocol.line.setter", ("_number",)),):
        f0 = ctx.prog.find_func(q)
        if f0 is None:
            continue
        f = normalised(ctx, f0, "calls,tailcalls")
        cfg = ctx.cfg(f)
        stores = [nd for nd in cfg.live if nd.kind == "stmt" and isinstance(nd.ast, (ast.Assign, ast.AnnAssign, ast.AugAssign)) and any(isinstance(t, ast.Attribute) and src(t.value) == "self" and t.attr in attrs for t in (nd.ast.targets if isinstance(nd.ast, ast.Assign) else [nd.ast.target]))]
        n += 1
        rep.instance()
        rep.require(bool(stores), f"{q} no longer stores {attrs}")
        bad = None
        for st in stores:
            for m in cfg.reachable(st, labels_avoid=("exc",)):
                if m is not st and m.kind == "stmt" and isinstance(m.ast, ast.Raise):
                    bad = (st, m)
                    break
            if bad:
                break
        if bad:
            rep.violation(q, f"{snippet(bad[0].ast, 40)} ... {snippet(bad[1].ast, 40)}", "the value is stored before it is validated: a refused assignment leaves the refused value in the object, which then renders text its own grammar does not have", where(f0, bad[0].ast), inp="ace.protocol.line = '300' (ValueError caught); ace.line == 'permit 300 any any'")
        else:
            rep.ok(q, f"no raise is reachable after the store of {', '.join(attrs)}", where=where(f0, stores[0].ast))
    rep.floor(1, "single-value field setters") if n else None


def single_env_(f: Func):
    from .common import single_env

    return single_env(f.node)


def run(ctx: Ctx, rep: Report, tier: str) -> None:
    option_tokens(ctx, rep)
    option_partition(ctx, rep)
    has_port_twin(ctx, rep)
    validated_before_stored(ctx, rep)
    address_spellings_whole(ctx, rep)
    group_reference_whole(ctx, rep)
    log_keywords_pass(ctx, rep)
    # R01.19 every protocol name of the tables is read as the protocol field (C09 R09.13)
    from .c09 import grammar_reads_protocols

    grammar_reads_protocols(ctx, rep, rid="R01.19")
    # R01.21 "for every software-version table": a platform's port names are read from its own tables at every version
    # (C09 R09.17) - NX-OS at major 15 reading the IOS 15 table refuses `eq drip`
    from .c09 import version_tables_per_platform

    sub917 = type(rep)("C01")
    version_tables_per_platform(ctx, sub917)
    rep.absorb(sub917, "R01.21")
    # R01.20 a wildcard mask is read bit by bit over all 32 positions (C05 R05.8): a loop that stops one short reads
    # `10.0.0.0 128.0.0.255` as half of the addresses it names
    from .c05 import r05_8

    sub58 = type(rep)("C01")
    r05_8(ctx, sub58)
    rep.absorb(sub58, "R01.20")
    # R01.15 an address in the text is read whole (C13 R13.7)
    from .c13 import address_patterns_whole

    address_patterns_whole(ctx, rep, rid="R01.15")
    normaliser_total(ctx, rep)
    # R01.9 operands of a valid ACE are accepted: the operand range is exactly the port universe (C08 R08.8)
    from .c08 import operand_range

    sub8 = type(rep)("C01")
    operand_range(ctx, sub8)
    rep.absorb(sub8, "R01.9")
    classification_guards(ctx, rep)
    # R01.13 the operand list that is stored is the list that was validated (C08 R08.1b)
    from .c08 import validated_is_returned

    validated_is_returned(ctx, rep, rid="R01.13")
    setter_completeness(ctx, rep)
    orders = r01_1(ctx, rep)
    r01_2(ctx, rep, orders)
    normalise_first(ctx, rep)
    r01_4(ctx, rep)
    # R01.5 = splitter vocabulary (R09.5)
    rep.rule("R01.5")
    from .c09 import selection_table

    sub = type(rep)("C01")
    sub.rule("R09.4")
    sel = selection_table(ctx, sub)
    vocab = ctx.folder.fold_straight_function(ctx.func("port_name.all_known_names"))
    rep.require(known(vocab), "all_known_names no longer foldable")
    need: Dict[str, str] = {}
    for (_p, _pl, _m), (tname, table) in sel.items():
        for name in table:
            need.setdefault(name, tname)
    rep.instance()
    missing = sorted(set(need) - set(vocab))
    if missing:
        for m in missing:
            rep.violation("port_name.all_known_names", f"name {m!r} of {need[m]}", f"'eq {m} log' is split as dstport 'eq' + option '{m} log': the rest of the destination ports moves into the options", where(ctx.func("port_name.all_known_names")), inp=f"permit tcp any any eq {m}")
    else:
        rep.ok("splitter vocabulary", f"{len(set(vocab))} names cover all {len(need)} selectable port names")


# what the later rounds (seeding rounds 2-5, refactor twins, defect hunt) added to what the check decides
LATER_ROUNDS = "the address and group-name spellings are read whole on both sides of an entry (witness lines through the assembled grammar, the group-name reader partially evaluated), the option text is partitioned completely, a refused protocol leaves the object unchanged, a platform reads its port names from its own tables at every version"
EXPLANATION = EXPLANATION.replace(" Does not decide", " Later rounds added: " + LATER_ROUNDS + ". Does not decide", 1) if " Does not decide" in EXPLANATION else EXPLANATION + " Later rounds added: " + LATER_ROUNDS + "."
