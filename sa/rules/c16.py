"""C16 copy()/data() rebuild an equal, independent object; ids and notes stable — identity plumbing and aliasing."""

from __future__ import annotations

import ast
from typing import Dict, List, Optional, Set, Tuple

from ..cfg import Node
from ..core import Ctx, Report, snippet, where
from ..model import Class, Func, own_nodes, src
from ..pathsem import function_paths, resolve_local
from ..typeinf import classes_of, members
from .common import chain, deep_resolve, mentions
from .keys import DATA_CLASSES, consumed, exported, reinit_sites, uuid_conditional

PROPERTY = "C16"
LEVEL = "other"
EXPLANATION = (
    "Decides identity plumbing (every self re-initialisation is fed by data(uuid=True); every exporter carries note and, "
    "under the flag, uuid, and forwards the flag to nested exporters; the constructors honour supplied uuid/note), "
    "exporter/constructor key agreement, freedom from aliasing (every exported value that a constructor consumes is fresh "
    "or immutable on one of the two sides; note is the one allowed alias), that copy() is Class(**data()), and that field "
    "objects replaced by a setter inherit the identity of the object they replace. Does not decide equality of text/data "
    "of the rebuilt object over the input space."
)
ASSUMPTIONS = ["str, int, bool, IPv4Network, SwVersion values are immutable"]

# consumed keys that legitimately have no exporter (one line of reason each)
KEY_EXCEPTIONS = {
    ("Remark", "type"): "a remark renders the same for every ACL type",
    ("Remark", "max_ncwb"): "a remark has no address",
    ("Remark", "protocol_nr"): "a remark has no protocol",
    ("Remark", "port_nr"): "a remark has no ports",
    ("Acl", "sequence"): "an ACL's own sequence is neither rendered nor exported; copy/data equality cannot observe it",
    ("AceGroup", "max_ncwb"): "not part of the exported data, so copy/data equality cannot observe it; its loss on re-initialisation is history dependence and is reported under C17 (R17.1)",
    ("AddrGroup", "max_ncwb"): "as for AceGroup: reported under C17 (R17.1)",
}
IMMUTABLE_CALLS = {"str", "int", "bool", "float", "tuple", "frozenset", "len", "repr"}
FRESH_CALLS = {"list", "dict", "set", "sorted"}
NESTED_FIELDS = ["_protocol", "_srcaddr", "_srcport", "_dstaddr", "_dstport", "_option"]


def r16_1(ctx: Ctx, rep: Report) -> None:
    rep.rule("R16.1")
    sites = reinit_sites(ctx)
    rep.instance(len(sites))
    rep.floor(8, "self re-initialisation sites")
    for f, call, kind, dexpr in sites:
        env: Dict[str, ast.AST] = {}
        mutated = False
        for n in own_nodes(f.node):
            if isinstance(n, ast.Assign) and isinstance(n.targets[0], ast.Name):
                env[n.targets[0].id] = n.value
            if isinstance(dexpr, ast.Name):
                if isinstance(n, ast.Delete) and any(isinstance(t, ast.Subscript) and src(t.value) == dexpr.id for t in n.targets):
                    mutated = True
                if isinstance(n, ast.Call) and isinstance(n.func, ast.Attribute) and n.func.attr in ("pop", "clear") and src(n.func.value) == dexpr.id:
                    mutated = True
        d = resolve_local(dexpr, env)
        good = False
        if isinstance(d, ast.Call) and isinstance(d.func, ast.Attribute) and d.func.attr == "data" and src(d.func.value) == "self":
            flag = None
            for k in d.keywords:
                if k.arg == "uuid":
                    flag = k.value
            if flag is None and d.args:
                flag = d.args[0]
            flag = resolve_local(flag, env) if flag is not None else None
            good = isinstance(flag, ast.Constant) and flag.value is True
        if good and not mutated:
            rep.ok(f"{f.qualname}: {kind}", "fed by self.data(uuid=True)", where=where(f, call))
        elif good:
            rep.violation(f.qualname, f"{kind} after removing keys from the data", "keys are removed between export and re-initialisation: identity or state is lost", where(f, call))
        else:
            rep.violation(f.qualname, f"{kind} with {snippet(d) if d is not None else '?'}", "the object re-initialises itself without its own uuid: an in-place transformation changes the identifier", where(f, call), inp="ace.port_nr = True; ace.uuid changed")
    # Base.platform: uuid saved and restored around self.line = self.line
    bp = ctx.func("Base.platform.setter")
    rep.instance()
    cfg = ctx.cfg(bp)
    saves = [n for n in cfg.live if n.kind == "stmt" and isinstance(n.ast, ast.Assign) and src(n.ast.value) in ("self.uuid", "self._uuid") and isinstance(n.ast.targets[0], ast.Name)]
    saved_name = src(saves[0].ast.targets[0]) if saves else None
    if not saves:
        # saved as part of a tuple assignment: uuid, line = self.uuid, self.line
        for n in cfg.live:
            if n.kind == "stmt" and isinstance(n.ast, ast.Assign) and isinstance(n.ast.targets[0], ast.Tuple) and isinstance(n.ast.value, ast.Tuple) and len(n.ast.targets[0].elts) == len(n.ast.value.elts):
                for a_, b_ in zip(n.ast.targets[0].elts, n.ast.value.elts):
                    if isinstance(a_, ast.Name) and src(b_) in ("self.uuid", "self._uuid"):
                        saves = [n]
                        saved_name = a_.id
    relines = [n for n in cfg.live if n.kind == "stmt" and isinstance(n.ast, ast.Assign) and any(isinstance(t, ast.Attribute) and src(t) == "self.line" for t in n.ast.targets)]
    restores = [n for n in cfg.live if n.kind == "stmt" and isinstance(n.ast, ast.Assign) and any(isinstance(t, ast.Attribute) and src(t) in ("self.uuid", "self._uuid") for t in n.ast.targets)]
    if not relines:
        rep.ok("Base.platform setter", "does not re-parse the line", nontrivial=False, where=where(bp))
    elif saves and restores and cfg.dominates(saves[0], relines[0]) and src(restores[0].ast.value) == saved_name and cfg.all_paths_pass(relines[0], cfg.exit, lambda n: n in restores, labels_avoid=("exc",)):
        rep.ok("Base.platform setter", "uuid saved before and restored after self.line = self.line", where=where(bp))
    else:
        rep.violation("Base.platform.setter", "uuid around re-parse", "the identifier is not saved and restored around the re-parse", where(bp))


def r16_2(ctx: Ctx, rep: Report) -> None:
    rep.rule("R16.2")
    for cn in DATA_CLASSES:
        cls = ctx.cls(cn)
        f = cls.lookup_method("data")
        ex = exported(ctx, cls)
        rep.instance()
        if "note" not in ex or src(ex["note"]) not in ("self.note", "self._note"):
            rep.violation(f.qualname, "note", "the exporter does not carry the note: a rebuilt object loses it", where(f))
        else:
            rep.ok(f"{cn}.data: note", "exported", where=where(f))
        rep.instance()
        uc = uuid_conditional(ctx, cls)
        if uc is True and src(ex.get("uuid", ast.Constant(None))) in ("self.uuid", "self._uuid"):
            rep.ok(f"{cn}.data: uuid", "exported exactly under the uuid flag", where=where(f))
        elif uc is False:
            rep.violation(f.qualname, "uuid stored unconditionally", "copy() must get a new identifier: uuid may only be exported under the flag", where(f), inp="o.copy().uuid == o.uuid")
        else:
            rep.violation(f.qualname, "uuid", "the exporter never adds the uuid: re-initialisation changes the identifier", where(f))
        # nested exporters forward the flag
        df = cls.methods.get("data") or f
        for n in own_nodes(df.node):
            if isinstance(n, ast.Call) and isinstance(n.func, ast.Attribute) and n.func.attr == "data" and src(n.func.value) not in ("self",):
                rep.instance()
                flag = None
                for k in n.keywords:
                    if k.arg == "uuid":
                        flag = k.value
                if flag is None and n.args:
                    flag = n.args[0]
                if flag is not None and src(flag) == "uuid":
                    rep.ok(f"{df.qualname}: {snippet(n, 40)}", "forwards uuid=uuid", where=where(df, n))
                else:
                    rep.violation(df.qualname, snippet(n), "a nested exporter is called without the uuid flag: nested objects get new identifiers on every re-initialisation", where(df, n), inp="acl.platform = 'nxos'; ace uuids changed")
    # constructors honour supplied identity
    for q, key in (("Base._init_uuid", "uuid"), ("Base._init_note", "note")):
        f = ctx.func(q)
        rep.instance()
        okh = False
        for p in function_paths(ctx.cfg(f)):
            if p.raises or p.ret is None:
                continue
            r = deep_resolve(p.ret, p.env)
            if r is not None and any(isinstance(x, ast.Constant) and x.value == key for x in ast.walk(r)):
                okh = True
        if okh:
            rep.ok(q, f"returns the supplied {key} when given", where=where(f))
        else:
            rep.violation(q, f"supplied {key}", f"the constructor ignores a supplied {key}", where(f))


def r16_3(ctx: Ctx, rep: Report) -> None:
    rep.rule("R16.3")
    for cn in DATA_CLASSES:
        cls = ctx.cls(cn)
        ex, co = exported(ctx, cls), consumed(ctx, cls)
        f = cls.lookup_method("data")
        for k in sorted(co):
            rep.instance()
            if k in ex:
                rep.ok(f"{cn}: key {k!r}", f"read by {co[k]}, exported by data()", nontrivial=False)
            elif (cn, k) in KEY_EXCEPTIONS:
                rep.ok(f"{cn}: key {k!r}", "not exported — " + KEY_EXCEPTIONS[(cn, k)], nontrivial=False)
            else:
                rep.violation(f.qualname, f"constructor key {k!r} is not exported", f"{co[k]} reads {k!r} but {cn}.data() does not write it: copy() and rebuilding from data lose this setting", where(f), inp=f"{cn}(..., {k}=...).copy()")
    rep.floor(60, "constructor keys")


def _value_kind(ctx: Ctx, f: Func, v: ast.AST) -> str:
    """fresh | immutable | alias:<chain>"""
    if isinstance(v, (ast.Constant, ast.JoinedStr, ast.Compare, ast.BoolOp)) and not isinstance(v, ast.BoolOp):
        return "immutable"
    if isinstance(v, (ast.ListComp, ast.List, ast.Dict, ast.DictComp, ast.SetComp, ast.Set)):
        return "fresh"
    if isinstance(v, ast.Call):
        if isinstance(v.func, ast.Name) and v.func.id in IMMUTABLE_CALLS:
            return "immutable"
        if isinstance(v.func, ast.Name) and v.func.id in FRESH_CALLS:
            return "fresh"
        if isinstance(v.func, ast.Attribute) and v.func.attr in ("copy", "data"):
            return "fresh"
        return "fresh"
    t = ctx.types.expr_type(v, f)
    ms = members(t)
    if all(m[0] in ("str", "int", "bool", "none", "float") or (m[0] == "ext" and m[1] in ("IPv4Network", "IPv4Address", "SwVersion")) for m in ms) and t != ("any",):
        return "immutable"
    c = chain(v)
    return "alias:" + (".".join(c) if c else snippet(v))


def r16_4(ctx: Ctx, rep: Report) -> None:
    rep.rule("R16.4")
    for cn in DATA_CLASSES:
        cls = ctx.cls(cn)
        ex, co = exported(ctx, cls), consumed(ctx, cls)
        df = cls.lookup_method("data")
        for k, v in sorted(ex.items()):
            kind = _value_kind(ctx, df, v)
            if not kind.startswith("alias:"):
                continue
            rep.instance()
            if k == "note":
                rep.ok(f"{cn}.data: note", "the one allowed alias (user-supplied object)", nontrivial=False, where=where(df, v))
                continue
            if k not in co:
                rep.ok(f"{cn}.data: {k}={snippet(v, 30)}", f"leaks the internal object, harmless only because no constructor of {cn} reads key {k!r}", where=where(df, v))
                continue
            # consumed: the constructor must store a fresh derivative
            ok, why = _ctor_stores_fresh(ctx, cls, k)
            if ok:
                rep.ok(f"{cn}.data: {k}={snippet(v, 30)}", f"alias on export, but the constructor stores {why}", where=where(df, v))
            else:
                rep.violation(df.qualname, f"{k}={snippet(v)}", f"the exported value is the internal mutable object and the constructor keeps it ({why}): a copy shares state with its source", where(df, v), inp=f"c = o.copy(); mutate c.{k}; o.{k} changes")
    rep.floor(4, "aliasing exported values")


def _ctor_stores_fresh(ctx: Ctx, cls: Class, key: str) -> Tuple[bool, str]:
    for c in cls.mro:
        init = c.methods.get("__init__")
        if init is None:
            continue
        for n in own_nodes(init.node):
            if isinstance(n, (ast.Assign, ast.AnnAssign)) and n.value is not None:
                v = n.value
                reads = any(isinstance(x, ast.Constant) and x.value == key for x in ast.walk(v))
                if not reads:
                    continue
                tg = n.targets[0] if isinstance(n, ast.Assign) else n.target
                if isinstance(tg, ast.Attribute) and src(tg.value) == "self":
                    st = cls.lookup_setter(tg.attr)
                    if st is not None:
                        # setter: what it finally stores
                        for m in own_nodes(st.node):
                            if isinstance(m, ast.Assign) and isinstance(m.targets[0], ast.Attribute) and src(m.targets[0].value) == "self":
                                sv = m.value
                                if isinstance(sv, ast.Call) and isinstance(sv.func, ast.Name) and sv.func.id in FRESH_CALLS | IMMUTABLE_CALLS:
                                    return True, f"{snippet(sv)} (setter {st.qualname})"
                                if isinstance(sv, (ast.ListComp, ast.List)):
                                    return True, f"{snippet(sv)} (setter {st.qualname})"
                                if isinstance(sv, ast.Name):
                                    # a list built inside the setter
                                    builds = [x for x in own_nodes(st.node) if isinstance(x, (ast.Assign, ast.AnnAssign)) and isinstance(getattr(x, "targets", [getattr(x, "target", None)])[0], ast.Name) and getattr(x, "targets", [getattr(x, "target", None)])[0].id == sv.id]
                                    if builds and all(isinstance(b.value, (ast.List, ast.ListComp, ast.Call)) for b in builds if b.value is not None):
                                        return True, f"a list built in {st.qualname}"
                                return False, f"{snippet(m)} in {st.qualname}"
                    if isinstance(v, ast.Call) and isinstance(v.func, ast.Name) and v.func.id in FRESH_CALLS | IMMUTABLE_CALLS:
                        return True, snippet(v)
                    return False, snippet(n)
                if isinstance(tg, ast.Name):
                    # local; follow one step: self.x = local / Cls(**local)
                    return True, f"a value derived through local {tg.id}"
    return True, "nothing (the key is parsed, not stored)"


def r16_5(ctx: Ctx, rep: Report) -> None:
    rep.rule("R16.5")
    copies = [f for f in ctx.prog.funcs if f.name == "copy" and f.cls is not None and f.cls.name != "Group"]
    rep.instance(len(copies))
    rep.floor(2, "copy() definitions")
    for f in copies:
        paths = [p for p in function_paths(ctx.cfg(f)) if not p.raises]
        ok = len(paths) == 1
        if ok:
            r = deep_resolve(paths[0].ret, paths[0].env)
            ok = isinstance(r, ast.Call) and src(r.func) in ("self.__class__", "type(self)") and len(r.keywords) == 1 and r.keywords[0].arg is None
            if ok:
                d = r.keywords[0].value
                ok = isinstance(d, ast.Call) and src(d.func) == "self.data" and not d.args and not any(k.arg == "uuid" and not (isinstance(k.value, ast.Constant) and k.value.value is False) for k in d.keywords)
        if ok:
            rep.ok(f.qualname, "self.__class__(**self.data()) with the uuid flag off", where=where(f))
        else:
            rep.violation(f.qualname, "body", "copy() must be Class(**data()) with the flag off (new identifier, everything else from the exported data)", where(f))


def _restored_after_parse(ctx: Ctx) -> Set[str]:
    """Field attributes whose uuid AND note are restored from the exported dict of the same key after
    `self.line = line` in Ace.__init__ (directly, or in a method invoked after it on every normal path)."""
    init = ctx.func("Ace.__init__")
    cfg = ctx.cfg(init)
    kw = init.node.args.kwarg.arg if init.node.args.kwarg else "kwargs"
    line_nodes = [n for n in cfg.live if n.kind == "stmt" and isinstance(n.ast, ast.Assign) and any(isinstance(t, ast.Attribute) and src(t) == "self.line" for t in n.ast.targets)]
    if not line_nodes:
        return set()
    ln = line_nodes[-1]
    funcs: List[Func] = []
    for n in cfg.live:
        if n.kind == "stmt" and n.ast is not None and n is not ln and ln in cfg.dominators().get(n, set()) and cfg.all_paths_pass(ln, cfg.exit, lambda x, n=n: x is n, labels_avoid=("exc",)):
            for x in ast.walk(n.ast):
                if isinstance(x, ast.Call) and isinstance(x.func, ast.Attribute) and src(x.func.value) == "self":
                    m = init.cls.lookup_method(x.func.attr)
                    if m is not None and any(k.arg is None and src(k.value) == kw for k in x.keywords):
                        funcs.append(m)
    out: Set[str] = set()
    for m in funcs:
        mkw = m.node.args.kwarg.arg if m.node.args.kwarg else "kwargs"
        pairs: Dict[str, List[Tuple[str, str]]] = {}
        for n in own_nodes(m.node):
            if isinstance(n, ast.Assign) and isinstance(n.targets[0], ast.Name) and isinstance(n.value, (ast.Tuple, ast.List)):
                lst = []
                for e in n.value.elts:
                    if isinstance(e, ast.Tuple) and len(e.elts) == 2 and isinstance(e.elts[0], ast.Attribute) and src(e.elts[0].value) == "self":
                        c = e.elts[1]
                        if isinstance(c, ast.Call) and src(c.func) == f"{mkw}.get" and c.args and isinstance(c.args[0], ast.Constant):
                            lst.append((e.elts[0].attr, c.args[0].value))
                if lst:
                    pairs[n.targets[0].id] = lst
        for n in own_nodes(m.node):
            if isinstance(n, ast.For) and isinstance(n.iter, ast.Name) and n.iter.id in pairs and isinstance(n.target, ast.Tuple) and len(n.target.elts) == 2:
                ov, dv = src(n.target.elts[0]), src(n.target.elts[1])
                stored = set()
                for x in ast.walk(n):
                    if isinstance(x, ast.Assign):
                        for t in x.targets:
                            if isinstance(t, ast.Attribute) and src(t.value) == ov and t.attr in ("uuid", "note", "_uuid") and mentions(x.value, dv) or (isinstance(t, ast.Attribute) and src(t.value) == ov and t.attr in ("uuid", "note", "_uuid") and any(isinstance(y, ast.Name) for y in ast.walk(x.value))):
                                # the two are restored independently: the note is not tied to the presence of a uuid
                                # (copy() exports without uuid) and vice versa
                                what = t.attr.lstrip("_")
                                other_key = "uuid" if what == "note" else "note"
                                tied = False
                                par = getattr(x, "_parent", None)
                                while par is not None and par is not n:
                                    if isinstance(par, ast.If) and any(x is z for b in par.body for z in ast.walk(b)):
                                        consts = {y.value for y in ast.walk(par.test) if isinstance(y, ast.Constant) and isinstance(y.value, str)}
                                        # the only grounds for restoring: the exported data is a dict, and it has this key
                                        if other_key in consts or (consts - {what}) or mentions(par.test, ov):
                                            tied = True
                                    par = getattr(par, "_parent", None)
                                if not tied:
                                    stored.add(what)
                if {"uuid", "note"} <= stored:
                    for attr, key in pairs[n.iter.id]:
                        if attr.lstrip("_") == key:
                            out.add(attr)
        if not pairs:
            out |= _restored_straight_line(ctx, m, mkw)
    return out


def _restored_straight_line(ctx: Ctx, m: Func, mkw: str) -> Set[str]:
    """The same reading for a restorer written over a table of field NAMES (`for name in FIELDS: data = kwargs.get(name);
    field_o = getattr(self, "_" + name); ...`): the loop is unrolled, getattr folded, and the statements are walked in
    order with the locals' last bindings: `X.uuid = v` / `X.note = v` counts for field f when X is `self._f` and v comes
    from `kwargs.get("f")`."""
    from .normalise import normalised

    try:
        g = normalised(ctx, m, "unroll,getattr")
    except Exception:  # noqa: BLE001
        return set()
    got: Dict[str, Set[str]] = {}

    def resolve(e: ast.AST, env: Dict[str, ast.AST], depth: int = 0) -> ast.AST:
        while isinstance(e, ast.Name) and e.id in env and depth < 6:
            e = env[e.id]
            depth += 1
        return e

    def key_of(e: ast.AST, env: Dict[str, ast.AST]) -> Optional[str]:
        # ... .get("uuid") / [...]["note"] of something that resolves to kwargs.get("<field>")
        seen = 0
        todo = [e]
        while todo and seen < 60:
            seen += 1
            cur = todo.pop()
            for z in ast.walk(cur):
                if isinstance(z, ast.Call) and src(z.func) == f"{mkw}.get" and z.args and isinstance(z.args[0], ast.Constant):
                    return str(z.args[0].value)
                if isinstance(z, ast.Name) and z.id in env and env[z.id] is not cur:
                    todo.append(env[z.id])
        return None

    def walk(stmts, env: Dict[str, ast.AST], guards: List[ast.AST]) -> None:
        for st in stmts:
            if isinstance(st, (ast.Assign, ast.AnnAssign)) and getattr(st, "value", None) is not None:
                tg = st.targets[0] if isinstance(st, ast.Assign) else st.target
                if isinstance(tg, ast.Name):
                    env[tg.id] = st.value if not isinstance(st.value, ast.Name) else resolve(st.value, env)
                elif isinstance(tg, ast.Attribute) and tg.attr.lstrip("_") in ("uuid", "note"):
                    obj = resolve(tg.value, env)
                    if isinstance(obj, ast.Attribute) and src(obj.value) == "self":
                        k = key_of(st.value, env)
                        if k is not None and obj.attr.lstrip("_") == k:
                            what = tg.attr.lstrip("_")
                            other_key = "uuid" if what == "note" else "note"
                            consts = {y.value for gd in guards for y in ast.walk(resolve(gd, env)) if isinstance(y, ast.Constant) and isinstance(y.value, str)}
                            for gd in guards:
                                for z in ast.walk(gd):
                                    if isinstance(z, ast.Name) and z.id in env:
                                        consts |= {y.value for y in ast.walk(env[z.id]) if isinstance(y, ast.Constant) and isinstance(y.value, str)}
                            if other_key not in consts:
                                got.setdefault(obj.attr, set()).add(what)
            elif isinstance(st, ast.If):
                walk(st.body, env, guards + [st.test])
                walk(st.orelse, env, guards)
            elif isinstance(st, (ast.For, ast.While, ast.With, ast.Try)):
                for fld in ("body", "orelse", "finalbody"):
                    walk(getattr(st, fld, []) or [], env, guards)

    walk(g.node.body, {}, [])
    return {a for a, w in got.items() if {"uuid", "note"} <= w}


def r16_7(ctx: Ctx, rep: Report) -> None:
    rep.rule("R16.7")
    ls = ctx.func("Ace.line.setter")
    base = ctx.cls("Base")
    restored = _restored_after_parse(ctx)
    n_fields = 0
    for n in own_nodes(ls.node):
        if not (isinstance(n, ast.Assign) and isinstance(n.targets[0], ast.Attribute) and src(n.targets[0].value) == "self"):
            continue
        attr = n.targets[0].attr
        t = ctx.types.attr_type(ls.cls, attr)
        if not any(c.is_subclass_of(base) for c in classes_of(t)):
            continue
        n_fields += 1
        rep.instance()
        v = n.value
        env: Dict[str, ast.AST] = {}
        for m in own_nodes(ls.node):
            if isinstance(m, ast.Assign) and isinstance(m.targets[0], ast.Name):
                env[m.targets[0].id] = m.value
        v = resolve_local(v, env)
        keeps = set()
        if isinstance(v, ast.Call):
            for k in v.keywords:
                if k.arg in ("uuid", "note") and k.value is not None and attr in src(k.value):
                    keeps.add(k.arg)
                if k.arg is None:
                    d = resolve_local(k.value, env)
                    if d is not None and isinstance(d, ast.Call):
                        for kk in d.keywords:
                            if kk.arg in ("uuid", "note") and attr in src(kk.value):
                                keeps.add(kk.arg)
        if keeps == {"uuid", "note"}:
            rep.ok(f"Ace.line setter: {attr}", "the new field object receives uuid and note of the one it replaces", where=where(ls, n))
        elif attr in restored:
            rep.ok(f"Ace.line setter: {attr}", f"rebuilt from text, then Ace.__init__ restores its uuid and note from the exported {attr.lstrip('_')!r} data on every normal path", where=where(ls, n))
        else:
            rep.violation(
                "Ace.line.setter",
                f"{attr} rebuilt without the replaced object's uuid/note",
                "every re-initialising setter (platform, type, port_nr, protocol_nr) re-parses the line and replaces this field object by a new one: its note and identifier are lost, and copy().data() differs from data()",
                where(ls, n),
                inp=f"ace.{attr.lstrip('_')}.note = 'x'; ace.port_nr = True; ace.{attr.lstrip('_')}.note == ''",
            )
    rep.floor(6, "field objects rebuilt by Ace.line setter")
    # elsewhere in the class a field object is rewritten in place (`self._dstaddr.line = "any"`), never replaced: the
    # re-initialisation that follows exports the identifier of whatever object is there
    for g in ls.cls.all_funcs():
        if g is ls or g.name == "__init__":
            continue
        for n in own_nodes(g.node):
            if not (isinstance(n, ast.Assign) and isinstance(n.targets[0], ast.Attribute) and src(n.targets[0].value) == "self" and isinstance(n.value, ast.Call)):
                continue
            attr = n.targets[0].attr
            t = ctx.types.attr_type(ls.cls, attr)
            if not any(c.is_subclass_of(base) for c in classes_of(t)):
                continue
            callee = ctx.prog.resolve_name(g.module, n.value.func.id) if isinstance(n.value.func, ast.Name) else None
            if not (isinstance(callee, Class) and callee.is_subclass_of(base)):
                continue
            rep.instance()
            kws = {k.arg for k in n.value.keywords}
            if {"uuid", "note"} <= kws and all(attr in src(k.value) for k in n.value.keywords if k.arg in ("uuid", "note")):
                rep.ok(f"{g.qualname}: {attr}", "the new field object receives uuid and note of the one it replaces", where=where(g, n))
            else:
                rep.violation(g.qualname, snippet(n), f"the field object {attr} is replaced by a fresh one outside the constructor and the line setter: its identifier and note are lost (the re-initialisation that follows exports the new object's)", where(g, n), inp=f"ace.{attr.lstrip('_')}.note = 'x'; ace.type = 'standard'; ace.{attr.lstrip('_')}.note == ''")


def _stamps(f: Func) -> Dict[str, ast.AST]:
    """key -> value for statements `<dict>["key"] = <value mentioning self>` in f."""
    out: Dict[str, ast.AST] = {}
    for n in own_nodes(f.node):
        if isinstance(n, ast.Assign) and isinstance(n.targets[0], ast.Subscript) and isinstance(n.targets[0].slice, ast.Constant) and isinstance(n.targets[0].value, ast.Name):
            if mentions(n.value, "self"):
                out[str(n.targets[0].slice.value)] = n.value
    return out


def settings_propagation(ctx: Ctx, rep: Report, rid: str = "R16.9") -> None:
    """Containers override, in the exported dict of a child they rebuild, only settings they export themselves,
    and the sibling builders (dict -> ACE, dict -> group, line -> ACE) pass the same settings."""
    rep.rule(rid)
    sites = [
        ("AceGroup.items.setter", ["AceGroup", "Acl"]),
        ("Acl.items.setter", ["Acl"]),
        ("AceGroup._dict_to_ace", ["AceGroup", "Acl"]),
        ("AceGroup._dict_to_aceg", ["AceGroup", "Acl"]),
        ("AddrGroup.items.setter", ["AddrGroup"]),
        ("AddressBase._init_items", ["Address", "AddressAg"]),
    ]
    stamp_sets: Dict[str, Dict[str, ast.AST]] = {}
    for q, classes in sites:
        f = ctx.prog.find_func(q)
        if f is None:
            continue
        st = _stamps(f)
        stamp_sets[q] = st
        for cn in classes:
            ex = exported(ctx, ctx.cls(cn))
            for k, v in sorted(st.items()):
                rep.instance()
                if k in ex:
                    rep.ok(f"{q}: child['{k}'] = {snippet(v, 30)} ({cn})", f"{cn}.data() exports {k!r}: after a re-initialisation the container still holds the user's value", nontrivial=False, where=where(f, v))
                else:
                    rep.violation(q, f"child dict key {k!r} overridden with {snippet(v)}", f"{cn} forces {k!r} onto every child it rebuilds from a dict, but {cn}.data() does not export {k!r}: after copy()/re-initialisation the container holds the default and stamps it on the children (their own exported value is lost)", where(f, v), inp=f"{cn} whose members were created with a non-default {k}; g.copy()")
    a, b = stamp_sets.get("AceGroup._dict_to_ace"), stamp_sets.get("AceGroup._dict_to_aceg")
    if a is not None and b is not None:
        rep.instance()
        if set(a) == set(b):
            rep.ok("AceGroup._dict_to_ace ≡ _dict_to_aceg", f"both stamp {sorted(a)}", where=where(ctx.func("AceGroup._dict_to_aceg")))
        else:
            miss = sorted(set(a) ^ set(b))
            rep.violation("AceGroup._dict_to_aceg", f"stamps {sorted(b)} vs _dict_to_ace {sorted(a)}", f"a nested group rebuilt from its dict does not receive the container's {miss}: the names/numbers switch (or platform/type) set on a grouped ACL is lost or appears one operation late", where(ctx.func("AceGroup._dict_to_aceg")), inp="grouped ACL; acl.port_nr = True; text unchanged until the next copy()")
        lt = ctx.func("AceGroup._line_to_ace")
        passed: Set[str] = set()
        for n in own_nodes(lt.node):
            if isinstance(n, ast.Call) and src(n.func) == "Ace":
                passed |= {k.arg for k in n.keywords if k.arg}
        rep.instance()
        if set(a) <= passed:
            rep.ok("AceGroup._line_to_ace", f"an ACE built from a line receives {sorted(set(a))} as well", where=where(lt))
        else:
            rep.violation("AceGroup._line_to_ace", f"Ace(...) receives {sorted(passed)}", f"an ACE built from a line does not receive the container's {sorted(set(a) - passed)}", where(lt))
    rep.floor(12, "settings stamped on rebuilt children")


IN_PLACE = [
    "AceGroup.resequence", "AddrGroup.resequence", "Group.sort", "Group.reverse", "Group.insert", "Group.pop",
    "Acl.group", "Acl.ungroup", "AceGroup.ungroup_ports", "Acl.ungroup_ports",
]


def r16_8(ctx: Ctx, rep: Report) -> None:
    """In-place transformations do not touch identifiers or notes."""
    rep.rule("R16.8")
    for q in IN_PLACE:
        f = ctx.prog.find_func(q)
        if f is None:
            continue
        rep.instance()
        s = ctx.effects.summary(f)
        bad = sorted({(a, k) for (r, a, k) in s.writes if a in ("note", "_note", "_uuid", "uuid") and k == "store"})
        if bad:
            sites = [st for w, lst in s.sites.items() if w[1] in ("note", "_note", "_uuid", "uuid") for st in lst][:2]
            rep.violation(q, f"writes {bad}", f"an in-place transformation changes the note or identifier of an object it does not replace ({sites})", where(f))
        else:
            rep.ok(f"{q}: transitive write-set", "touches neither note nor uuid", where=where(f))
    rep.floor(8, "in-place transformations")


def nested_data_plumbing(ctx: Ctx, rep: Report, rid: str = "R16.13") -> None:
    """A constructor that rebuilds a nested field object from the exported dict of that field (`Address(**srcaddr)`)
    stores it in the attribute of the same name: data()['dstaddr'] must not end up in (or be replaced by) another field."""
    rep.rule(rid)
    n = 0
    for cn in DATA_CLASSES:
        cls = ctx.cls(cn)
        init = cls.methods.get("__init__")
        if init is None or init.node.args.kwarg is None:
            continue
        kw = init.node.args.kwarg.arg
        env: Dict[str, ast.AST] = {}
        for x in own_nodes(init.node):
            if isinstance(x, ast.NamedExpr) and isinstance(x.target, ast.Name):
                env[x.target.id] = x.value
            elif isinstance(x, ast.Assign) and len(x.targets) == 1 and isinstance(x.targets[0], ast.Name):
                env[x.targets[0].id] = x.value
        for x in own_nodes(init.node):
            if not (isinstance(x, ast.Assign) and len(x.targets) == 1 and isinstance(x.targets[0], ast.Attribute) and src(x.targets[0].value) == "self" and isinstance(x.value, ast.Call)):
                continue
            star = [k.value for k in x.value.keywords if k.arg is None]
            if len(star) != 1 or not isinstance(star[0], ast.Name) or star[0].id not in env:
                continue
            keys = [c.args[0].value for c in ast.walk(env[star[0].id]) if isinstance(c, ast.Call) and isinstance(c.func, ast.Attribute) and c.func.attr == "get" and src(c.func.value) == kw and c.args and isinstance(c.args[0], ast.Constant)]
            if len(keys) != 1:
                continue
            n += 1
            rep.instance()
            attr = x.targets[0].attr.lstrip("_")
            if keys[0] == attr:
                rep.ok(f"{init.qualname}: {snippet(x, 50)}", f"built from data key {keys[0]!r}", where=where(init, x))
            else:
                rep.violation(init.qualname, snippet(x), f"attribute {x.targets[0].attr} is rebuilt from the exported data of {keys[0]!r}: after copy() / re-initialisation one field carries the other field's members", where(init, x), inp="an ACE with different address groups in source and destination; ace.copy()")
    rep.floor(2, "nested field objects rebuilt from their exported data")


def objects_adopted_once(ctx: Ctx, rep: Report, rid: str = "R16.16") -> None:
    """A builder that is handed ready-made objects keeps each of them, once: on every way through its loop on which the
    item was recognised as an object of the package (isinstance) and no error was raised, that very object is appended
    exactly once (two members that are equal are still two members; equality is the rendered text)."""
    from .common import element_placements, loop_body_paths

    rep.rule(rid)
    base = ctx.cls("Base")
    n = 0
    for q in ("AceGroup.items.setter", "Acl.items.setter", "AddrGroup.items.setter", "AddressBase._init_items"):
        f = ctx.prog.find_func(q)
        if f is None:
            continue
        cfg = ctx.cfg(f)
        for lp in [x for x in cfg.live if x.kind == "for" and isinstance(x.ast.target, ast.Name)]:
            var = lp.ast.target.id
            worst = None
            seen = False
            for path in loop_body_paths(cfg, lp):
                if path[-1][0] is not lp:
                    continue
                atoms = [(nd.ast, lab == "T") for nd, lab in path if nd.kind == "cond" and lab in ("T", "F")]
                is_obj = False
                for t, tr in atoms:
                    if tr and isinstance(t, ast.Call) and src(t.func) == "isinstance" and len(t.args) == 2 and src(t.args[0]) == var:
                        names = [src(e) for e in (t.args[1].elts if isinstance(t.args[1], ast.Tuple) else [t.args[1]])]
                        if any(nm in ctx.prog.classes or nm == "self.__class__" for nm in names):
                            is_obj = True
                if not is_obj:
                    continue
                seen = True
                pl = []
                for nd, _lab in path:
                    if nd.kind == "stmt" and nd.ast is not None:
                        pl += element_placements(nd.ast, var)
                k = sum(1 for kind_, _c in pl if kind_ in ("append", "extend", "insert"))
                if k != 1:
                    held = "; ".join(f"{snippet(t, 30)}{'' if tr else ' (false)'}" for t, tr in atoms)
                    worst = (k, held)
                    break
            if not seen:
                continue
            n += 1
            rep.instance()
            if worst is None:
                rep.ok(f"{q}: for {var} in {snippet(lp.ast.iter, 30)}", "an object of the package is appended exactly once on every path that does not raise", where=where(f, lp.ast))
            else:
                rep.violation(q, f"path [{worst[1]}] places `{var}` {worst[0]} times", "a ready-made object handed to the builder is not kept exactly once: members that are equal to an earlier one (the same network written twice, 'host A' and 'A 0.0.0.0') are dropped on every copy and re-initialisation", where(f, lp.ast), inp="Address('object-group G', items=[AddressAg('host 10.0.0.1'), AddressAg('10.0.0.1 0.0.0.0')]).copy()")
    rep.floor(2, "adopting loops") if n else None


def blocks_keep_identity(ctx: Ctx, rep: Report, rid: str = "R16.18") -> None:
    """Re-grouping rebuilds the blocks of an ACL (the items setter, every re-initialising switch and the port split end in
    `Acl.group`): a block that is rebuilt under the same heading is the same block for the user, so the AceGroup built
    for it receives the identifier and the note of the block it replaces."""
    rep.rule(rid)
    from .c15 import _group_func as _gf

    f = _gf(ctx)  # helpers that return (flat list, identity table) are read as part of group()
    ag = ctx.cls("AceGroup")
    ctors = [x for x in own_nodes(f.node) if isinstance(x, ast.Call) and isinstance(x.func, ast.Name) and ctx.prog.resolve_name(f.module, x.func.id) is ag]
    rep.instance()
    rep.require(bool(ctors), "Acl.group no longer builds AceGroup blocks")
    # where the identity of the existing blocks is read
    reads_uuid = any(isinstance(x, ast.Attribute) and x.attr == "uuid" and isinstance(x.ctx, ast.Load) and src(x.value) != "self" for x in own_nodes(f.node))
    reads_note = any(isinstance(x, ast.Attribute) and x.attr == "note" and isinstance(x.ctx, ast.Load) and src(x.value) != "self" for x in own_nodes(f.node))
    # the identity of EVERY existing block is collected: the statement that reads `<block>.uuid` depends on nothing but
    # the block being a block (an unnamed leading block has an identity too)
    cfg = ctx.cfg(f)
    for nd in cfg.live:
        if nd.kind == "stmt" and nd.ast is not None and any(isinstance(x, ast.Attribute) and x.attr == "uuid" and isinstance(x.ctx, ast.Load) and src(x.value) != "self" for x in ast.walk(nd.ast)):
            extra = [c_ for c_, _lab in cfg.transitive_control_deps(nd) if c_.kind == "cond" and not (isinstance(c_.ast, ast.Call) and src(c_.ast.func) == "isinstance") and not (isinstance(c_.ast, ast.Name) and c_.ast.id in f.params) and not (isinstance(c_.ast, ast.UnaryOp) and isinstance(c_.ast.operand, ast.Name) and c_.ast.operand.id in f.params)]
            rep.instance()
            if extra:
                rep.violation("Acl.group", f"{snippet(nd.ast, 50)} under {snippet(extra[0].ast, 30)}", "the identity of an existing block is collected only under a further condition: a block for which it does not hold (the unnamed block in front of the first heading) gets a fresh identifier and an empty note on every regroup", where(f, nd.ast), inp="grouped ACL with entries before the first heading; acl.items[0].note = 'N'; acl.port_nr = True")
            else:
                rep.ok(f"Acl.group: {snippet(nd.ast, 50)}", "for every existing block", where=where(f, nd.ast))
    for c in ctors:
        kws = {k.arg for k in c.keywords}
        explicit = {"uuid", "note"} <= kws
        spread = any(k.arg is None for k in c.keywords) and reads_uuid and reads_note
        if explicit or spread:
            rep.ok(f"Acl.group: {snippet(c, 40)}", "the rebuilt block receives uuid and note of the block it replaces", where=where(f, c))
        else:
            rep.violation("Acl.group", snippet(c, 60), "a block that is rebuilt gets a fresh identifier and an empty note: every operation that re-groups (items setter, port_nr / protocol_nr / type / platform switches, ungroup_ports, delete_shadow) loses the identifier and the note of every AceGroup of a grouped ACL", where(f, c), inp="acl = Acl(text, group_by='=== '); acl.items[0].note = 'N'; acl.port_nr = True; acl.items[0].note == ''")


def adopted_objects_get_settings(ctx: Ctx, rep: Report, rid: str = "R16.22") -> None:
    """The two builders of rule lists (AceGroup.items and its override Acl.items) adopt a ready-made entry the same way:
    the settings written onto the adopted object (platform, version, type) are the same set in both - an entry adopted
    without one of them keeps its own (an `ip access-list standard` spelling inside an extended ACL), and the next
    re-render, regroup or platform change reads it with the wrong one."""
    rep.rule(rid)
    stores: Dict[str, Set[str]] = {}
    at: Dict[str, ast.AST] = {}
    for q in ("AceGroup.items.setter", "Acl.items.setter"):
        f = ctx.prog.find_func(q)
        if f is None:
            continue
        for lp in [x for x in own_nodes(f.node) if isinstance(x, ast.For) and isinstance(x.target, ast.Name)]:
            var = lp.target.id
            for br in [x for x in ast.walk(lp) if isinstance(x, ast.If) and isinstance(x.test, ast.Call) and src(x.test.func) == "isinstance" and len(x.test.args) == 2 and src(x.test.args[0]) == var]:
                names = [src(e) for e in (br.test.args[1].elts if isinstance(br.test.args[1], ast.Tuple) else [br.test.args[1]])]
                if not any(nm in ctx.prog.classes for nm in names):
                    continue
                got = set()
                for b in br.body:
                    for y in ast.walk(b):
                        if isinstance(y, ast.Assign):
                            for t in y.targets:
                                if isinstance(t, ast.Attribute) and src(t.value) == var:
                                    got.add(t.attr.lstrip("_"))
                        if isinstance(y, ast.Call) and src(y.func) == "setattr" and len(y.args) == 3 and src(y.args[0]) == var and isinstance(y.args[1], ast.Constant):
                            got.add(str(y.args[1].value).lstrip("_"))
                        if isinstance(y, ast.Call) and any(isinstance(a_, ast.Name) and a_.id == var for a_ in y.args):
                            # the settings are written by a helper that is handed the entry
                            from .common import callee_of_self_call

                            g = callee_of_self_call(ctx, f, y)
                            if g is not None:
                                idx = [i for i, a_ in enumerate(y.args) if isinstance(a_, ast.Name) and a_.id == var][0]
                                ps = [p_ for p_ in g.params if p_ not in ("self", "cls")]
                                if idx < len(ps):
                                    for z in own_nodes(g.node):
                                        if isinstance(z, ast.Assign):
                                            for t in z.targets:
                                                if isinstance(t, ast.Attribute) and src(t.value) == ps[idx]:
                                                    got.add(t.attr.lstrip("_"))
                stores[q] = stores.get(q, set()) | got
                at.setdefault(q, br)
        if q not in stores:
            # the per-item conversion lives in a helper (a local function, `[self._init_item(x) for x in items]`, map(), a
            # drained generator): read the object branch from the helper's paths
            from .common import per_item_unit

            unit = per_item_unit(ctx, f)
            if unit is not None:
                uf, uvar, upaths, uanchor, _uh = unit
                got2: Set[str] = set()
                seen_obj = False
                for path in upaths:
                    is_obj = False
                    for nd, lab in path:
                        if nd.kind == "cond" and lab == "T" and isinstance(nd.ast, ast.Call) and src(nd.ast.func) == "isinstance" and len(nd.ast.args) == 2 and src(nd.ast.args[0]) == uvar:
                            names2 = [src(e) for e in (nd.ast.args[1].elts if isinstance(nd.ast.args[1], ast.Tuple) else [nd.ast.args[1]])]
                            if any(nm in ctx.prog.classes for nm in names2):
                                is_obj = True
                    if not is_obj:
                        continue
                    seen_obj = True
                    for nd, _lab in path:
                        if nd.kind == "stmt" and isinstance(nd.ast, ast.Assign):
                            for t in nd.ast.targets:
                                if isinstance(t, ast.Attribute) and src(t.value) == uvar:
                                    got2.add(t.attr.lstrip("_"))
                if seen_obj:
                    stores[q] = got2
                    at[q] = uanchor
    rep.instance()
    if len(stores) < 2:
        rep.note(f"{rid} the two rule-list builders are not both present as object-adopting loops (merged?) - not judged")
        return
    (qa, sa_), (qb, sb_) = sorted(stores.items())
    if sa_ == sb_:
        rep.ok(f"{qa} / {qb}", f"an adopted entry gets {sorted(sa_)} in both", where=where(ctx.func(qa), at[qa]))
    else:
        for q, mine, theirs, oq in ((qa, sa_, sb_, qb), (qb, sb_, sa_, qa)):
            miss = sorted(theirs - mine)
            if miss:
                rep.violation(q, f"{snippet(getattr(at[q], 'test', at[q]), 50)}: sets {sorted(mine)}", f"an entry adopted by this builder does not get {miss} of its container (the sibling builder {oq} sets it): it keeps the setting it was made with, and the next re-render, regroup or platform change of the ACL reads the entry with a setting that is not the ACL's", where(ctx.func(q), at[q]), inp="Acl('ip access-list extended A', items=[Ace('permit host 10.0.0.1', type='standard')]); acl.group() / acl.platform = 'nxos'")


def copies_can_be_equal(ctx: Ctx, rep: Report, rid: str = "R16.26") -> None:
    """"copy() gives an equal object" needs an equality that looks at the object, not at its identity: every exported
    class (one with data() and copy()) defines `__eq__` itself or inherits it from a class of the package - a class that
    falls back to object.__eq__ has `x.copy() == x` False for every x."""
    rep.rule(rid)
    n = 0
    for cn in DATA_CLASSES:
        cls = ctx.prog.classes.get(cn)
        if cls is None or cls.lookup_method("copy") is None:
            continue
        n += 1
        rep.instance()
        eq = cls.lookup_method("__eq__")
        if eq is not None:
            rep.ok(f"{cn}.__eq__", f"defined in {eq.cls.name if eq.cls else '?'}", nontrivial=False, where=where(eq))
        else:
            cp = cls.lookup_method("copy")
            rep.violation(f"{cn}", "no __eq__ in the class or its bases", f"{cn} has copy() and data() but compares by identity (object.__eq__): `x.copy() == x` and `{cn}(**x.data()) == x` are False for every x, although text and data are identical", where(cp) if cp is not None else "", inp=f"w = {cn}('10.0.0.0 0.0.0.255'); w.copy() == w  # False")
    rep.floor(8, "exported classes with copy()") if n else None


def block_identity_key_is_unique(ctx: Ctx, rep: Report, rid: str = "R16.25") -> None:
    """The identity (uuid, note, number) that `Acl.group` carries over is found again by something only ONE block has (its
    first entry): block names are not unique - every block made by `AceGroup(text)` and the block of the entries in front
    of the first heading are all named "" - so a table keyed by the name gives the note and number of one unnamed block to
    another one."""
    rep.rule(rid)
    from .c15 import _group_func as _gf

    f = _gf(ctx)  # helpers that return (flat list, identity table) are read as part of group()
    env = {}
    for x in own_nodes(f.node):
        if isinstance(x, (ast.Assign, ast.AnnAssign)) and x.value is not None:
            t = x.targets[0] if isinstance(x, ast.Assign) else x.target
            if isinstance(t, ast.Name):
                env.setdefault(t.id, x.value)
    n = 0
    for x in own_nodes(f.node):
        key = None
        if isinstance(x, ast.Call) and isinstance(x.func, ast.Attribute) and x.func.attr == "setdefault" and len(x.args) == 2 and any(isinstance(z, ast.Attribute) and z.attr == "uuid" for z in ast.walk(x.args[1])):
            key = x.args[0]
        elif isinstance(x, ast.Assign) and isinstance(x.targets[0], ast.Subscript) and any(isinstance(z, ast.Attribute) and z.attr == "uuid" for z in ast.walk(x.value)):
            key = x.targets[0].slice
        if key is None:
            continue
        n += 1
        rep.instance()
        k = env.get(key.id, key) if isinstance(key, ast.Name) else key
        by_name = any(isinstance(z, ast.Attribute) and z.attr.lstrip("_") == "name" for z in ast.walk(k)) or any(isinstance(z, ast.Call) and isinstance(z.func, ast.Attribute) and "remark" in z.func.attr for z in ast.walk(k))
        # ... and that something is taken from THIS block: the key mentions the block variable, or a local computed from it
        blockvars = {src(z.value) for z in ast.walk(x) if isinstance(z, ast.Attribute) and z.attr == "uuid" and isinstance(z.value, ast.Name)}
        def from_block(e: ast.AST, depth: int = 0) -> bool:
            for z in ast.walk(e):
                if isinstance(z, ast.Name):
                    if z.id in blockvars:
                        return True
                    if depth < 3 and z.id in env and z.id not in blockvars and from_block(env[z.id], depth + 1):
                        return True
            return False
        if not by_name and blockvars and not from_block(k):
            rep.violation("Acl.group", snippet(x, 60), f"the key the identity of a block is filed under (`{snippet(k, 40)}`) is not computed from that block: every block is filed under the same entry (the first entry of the whole list), so one block receives uuid, note and number of another", where(f, x), inp="grouped ACL with two blocks; acl.resequence(); acl.port_nr = True; acl.sort()")
            continue
        if by_name:
            rep.violation("Acl.group", snippet(x, 60), "the identity of an existing block is filed under the block's NAME, and unnamed blocks share the name '': the block of the entries in front of the first heading receives uuid, note and number of an `AceGroup(text)` block (and that block gets none)", where(f, x), inp="acl = Acl(two plain entries); acl.append(AceGroup('remark ===== web =====\\npermit tcp any any eq 80')); acl.resequence(); acl.items[-1].note = 'web'; acl.group('===== ')")
        else:
            rep.ok(f"Acl.group: {snippet(x, 50)}", f"identity filed under `{snippet(k, 40)}` (not a name)", where=where(f, x))
    if n == 0:
        rep.note(f"{rid} no identity table in Acl.group - not judged (R16.18 decides whether identity is kept at all)")


def blocks_get_acl_settings(ctx: Ctx, rep: Report, rid: str = "R16.24") -> None:
    """The blocks `Acl.group` builds belong to the ACL like the entries it adopts: every setting the items builder writes
    onto an adopted entry (platform, version, type) is given to the AceGroup constructor as well.  A block built without
    one of them takes the default and stamps IT on its entries (AceGroup.items): after grouping, the entries of an
    `ios 15.2` ACL have version 0 and render `eq msrpc`, a name that version does not have."""
    rep.rule(rid)
    from .c15 import _group_func as _gf

    f = _gf(ctx)  # helpers that return (flat list, identity table) are read as part of group()
    ag = ctx.cls("AceGroup")
    ctors = [x for x in own_nodes(f.node) if isinstance(x, ast.Call) and isinstance(x.func, ast.Name) and ctx.prog.resolve_name(f.module, x.func.id) is ag]
    st = ctx.prog.find_func("Acl.items.setter")
    stamped: Set[str] = set()
    if st is not None:
        for lp in [x for x in own_nodes(st.node) if isinstance(x, ast.For) and isinstance(x.target, ast.Name)]:
            for y in ast.walk(lp):
                if isinstance(y, ast.Assign):
                    for t in y.targets:
                        if isinstance(t, ast.Attribute) and src(t.value) == lp.target.id and isinstance(y.value, ast.Attribute) and src(y.value.value) == "self":
                            stamped.add(t.attr.lstrip("_"))
    if st is not None and not stamped:
        # the per-item conversion lives in a helper (`[self._init_item(x) for x in items]`, a drained generator, map())
        from .common import per_item_unit

        unit = per_item_unit(ctx, st)
        if unit is not None:
            _uf, uvar, upaths, _ua, _uh = unit
            for path in upaths:
                for nd, _lab in path:
                    if nd.kind == "stmt" and isinstance(nd.ast, ast.Assign):
                        for t in nd.ast.targets:
                            if isinstance(t, ast.Attribute) and src(t.value) == uvar and isinstance(nd.ast.value, ast.Attribute) and src(nd.ast.value.value) == "self":
                                stamped.add(t.attr.lstrip("_"))
    rep.instance()
    if not ctors or not stamped:
        rep.note(f"{rid} block construction or the stamping of adopted entries not recognised - not judged")
        return
    from .common import expanded_keywords

    for c in ctors:
        kws = set(expanded_keywords(f, c))  # `AceGroup(**common_params, name=...)` with `common_params = dict(platform=...)`
        miss = sorted(stamped - kws)
        if miss and not any(k.arg is None and "self" in src(k.value) for k in c.keywords):
            rep.violation("Acl.group", snippet(c, 60), f"the block is built without the ACL's {miss}, which the ACL writes onto every entry it adopts: the block takes the default and stamps it on its entries - grouped entries of an ACL with version 15.x have version 0 and are re-rendered from the wrong name table (`eq msrpc` on ios 15.2)", where(f, c), inp="acl = Acl(text_with_eq_135, platform='ios', version='15.2', group_by='=== '); a = acl.items[0].items[1]; a.port_nr = True; a.port_nr = False; a.line")
        else:
            rep.ok(f"Acl.group: {snippet(c, 40)}", f"the block receives {sorted(stamped)} of the ACL", where=where(f, c))


def blocks_keep_number(ctx: Ctx, rep: Report, rid: str = "R16.23") -> None:
    """A block that `Acl.group` rebuilds keeps its own sequence number, as it keeps identifier and note (R16.18): the number
    is exported (`data()["sequence"]`) and decides `sort()`; a copy, an import of the exported data and every
    re-initialising switch end in `group()`, so a block rebuilt without its number makes `acl.copy().data() != acl.data()`
    and lets `sort()` fall back to comparing text ('100 ...' < '80 ...') after `resequence()`."""
    rep.rule(rid)
    from .c15 import _group_func as _gf

    f = _gf(ctx)  # helpers that return (flat list, identity table) are read as part of group()
    ag = ctx.cls("AceGroup")
    ctors = [x for x in own_nodes(f.node) if isinstance(x, ast.Call) and isinstance(x.func, ast.Name) and ctx.prog.resolve_name(f.module, x.func.id) is ag]
    rep.instance()
    rep.require(bool(ctors), "Acl.group no longer builds AceGroup blocks")
    # the existing block is the variable whose identifier is collected (R16.18)
    blocks = {src(x.value) for x in own_nodes(f.node) if isinstance(x, ast.Attribute) and x.attr == "uuid" and isinstance(x.ctx, ast.Load) and src(x.value) != "self"}
    reads_seq = [x for x in own_nodes(f.node) if isinstance(x, ast.Attribute) and x.attr.lstrip("_") == "sequence" and isinstance(x.ctx, ast.Load) and src(x.value) in blocks]
    for c in ctors:
        kws = {k.arg: k.value for k in c.keywords}
        explicit = "sequence" in kws
        spread = any(k is None for k in kws)
        if reads_seq and (explicit or spread):
            rep.ok(f"Acl.group: {snippet(c, 40)}", f"the rebuilt block receives the number read from the block it replaces ({snippet(reads_seq[0], 30)})", where=where(f, c))
        else:
            rep.violation("Acl.group", snippet(c, 60), "a block that is rebuilt loses its sequence number (the identifier and the note of the old block are handed over, the number is not): after resequence() a copy, an import of data() or any re-initialising switch gives blocks numbered 0 - `acl.copy().data() != acl.data()`, and sort() compares the text of the blocks ('100 remark' < '80 remark')", where(f, c), inp="acl = Acl(text, group_by='=== '); acl.resequence(80, 20); acl.copy().data() != acl.data(); acl.port_nr = True; acl.sort()")


def dicts_rebuilt_whole(ctx: Ctx, rep: Report, rid: str = "R16.19") -> None:
    """A member that is handed over as exported data (a dict) is rebuilt from ALL of it: the construction in the dict
    branch of an items builder receives `**<the item>` itself (a hand-picked subset of keys drops what it does not list:
    the members of a nested group, the note, the sequence number)."""
    rep.rule(rid)
    n = 0
    for q in ("AceGroup.items.setter", "Acl.items.setter", "AddrGroup.items.setter", "AddressBase._init_items"):
        f = ctx.prog.find_func(q)
        if f is None:
            continue
        for lp in [x for x in own_nodes(f.node) if isinstance(x, ast.For) and isinstance(x.target, ast.Name)]:
            var = lp.target.id
            for br in [x for x in ast.walk(lp) if isinstance(x, ast.If) and isinstance(x.test, ast.Call) and src(x.test.func) == "isinstance" and len(x.test.args) == 2 and src(x.test.args[0]) == var and "dict" in src(x.test.args[1])]:
                ctors = [c for b in br.body for c in ast.walk(b) if isinstance(c, ast.Call) and any(k.arg is None for k in c.keywords)]
                for c in ctors:
                    n += 1
                    rep.instance()
                    spreads = [k.value for k in c.keywords if k.arg is None]
                    if all(isinstance(v, ast.Name) and v.id == var for v in spreads):
                        rep.ok(f"{q}: {snippet(c, 40)}", f"rebuilt from **{var}, the whole exported dict", where=where(f, c))
                    else:
                        rep.violation(q, snippet(c, 70), f"the member is rebuilt from a part of its exported data, not from **{var}: what the part leaves out (members of a nested group, note, number) is lost on every copy, re-initialisation and platform change", where(f, c), inp="an address group that has a member which is itself a group; platform change")
    rep.floor(2, "dict branches of the items builders") if n else None


def member_dicts_stamped_like_members(ctx: Ctx, rep: Report, rid: str = "R16.29") -> None:
    """An address container treats a member handed over as exported data like the member itself: the keys it overwrites
    in the dict (`item["platform"] = ...`) are the settings it stamps on a ready-made member (`item.platform = ...`).  A
    key overwritten in the dict branch only (`item["max_ncwb"] = self.max_ncwb`) replaces what the member exported by
    the container's value: `copy()` - which rebuilds the members from their dicts - gives a member that differs from
    the original, or refuses it (a member built with a larger wildcard-bit limit than its container)."""
    from .common import per_item_unit

    rep.rule(rid)
    n = 0
    for q in ("AddressBase._init_items", "AddrGroup.items.setter"):
        f0 = ctx.prog.find_func(q)
        if f0 is None:
            continue
        unit = per_item_unit(ctx, f0)
        if unit is None:
            rep.note(f"{rid} {q}: per-item conversion not recognised - not judged")
            continue
        f, var, paths, anchor, _is_helper = unit
        obj_attrs: Set[str] = set()
        dict_keys: Dict[str, ast.AST] = {}
        seen_obj = seen_dict = False
        for path in paths:
            atoms = [(src(nd.ast), lab == "T") for nd, lab in path if nd.kind == "cond" and lab in ("T", "F")]
            kind = None
            for a, tr in atoms:
                if tr and a.startswith("isinstance(") and var in a:
                    kind = "dict" if "dict" in a else "str" if ", str)" in a else "object"
            for nd, _lab in path:
                if nd.kind != "stmt" or not isinstance(nd.ast, ast.Assign):
                    continue
                for t in nd.ast.targets:
                    if kind == "object" and isinstance(t, ast.Attribute) and src(t.value) == var:
                        obj_attrs.add(t.attr.lstrip("_"))
                        seen_obj = True
                    if kind == "dict" and isinstance(t, ast.Subscript) and src(t.value) == var and isinstance(t.slice, ast.Constant) and isinstance(t.slice.value, str):
                        dict_keys[t.slice.value] = nd.ast
                        seen_dict = True
            seen_obj |= kind == "object"
            seen_dict |= kind == "dict"
        if not (seen_obj and seen_dict):
            rep.note(f"{rid} {q}: no isinstance-selected object and dict branches found - not judged")
            continue
        n += 1
        rep.instance()
        extra = sorted(k for k in dict_keys if k.lstrip("_") not in obj_attrs)
        if extra:
            rep.violation(q, snippet(dict_keys[extra[0]], 60), f"the dict branch overwrites {extra} in the member's exported data, which the container does not stamp on a ready-made member ({sorted(obj_attrs)}): a member rebuilt from its own data (copy(), platform change of the entry) no longer carries the value it exported", where(f, dict_keys[extra[0]]), inp="m = Address('10.0.0.0 0.255.255.128', max_ncwb=30); a = Address('object-group G', items=[m]); Ace(..).copy() -> NetmaskValueError")
        else:
            rep.ok(q, f"dict members get {sorted(dict_keys)}, ready-made members {sorted(obj_attrs)}", where=where(f, anchor))
    if n:
        rep.floor(1, "address containers with an object and a dict branch")


def exporter_reads_own_settings(ctx: Ctx, rep: Report, rid: str = "R16.20") -> None:
    """A constructor option that the object keeps in an attribute of the same name is exported from THAT attribute: the
    value `data()` gives for key k mentions `self.k` / `self._k` (an option re-derived from somewhere else - the limit of
    the nested wildcard, a default when there is none - is another value for objects that have no such part)."""
    rep.rule(rid)
    n = 0
    for cn in DATA_CLASSES:
        cls = ctx.prog.classes.get(cn)
        if cls is None:
            continue
        ex = exported(ctx, cls)
        df = cls.lookup_method("data")
        attrs = set()
        for c in cls.mro:
            for g in c.all_funcs():
                for x in own_nodes(g.node):
                    if isinstance(x, ast.Attribute) and isinstance(x.ctx, ast.Store) and src(x.value) == "self":
                        attrs.add(x.attr)
        from .common import single_env

        env = single_env(df.node) if df is not None else {}
        for k in ("max_ncwb", "platform", "version", "note", "protocol_nr", "port_nr", "group_by", "indent", "name", "type"):
            if k not in ex or not ({k, "_" + k} & attrs):
                continue
            n += 1
            rep.instance()
            v = ex[k]
            if isinstance(v, ast.Name) and v.id in env:
                v = env[v.id]
            reads = {x.attr for x in ast.walk(v) if isinstance(x, ast.Attribute) and src(x.value) == "self"}
            if {k, "_" + k} & reads:
                rep.ok(f"{cn}.data(): {k}", f"exports self.{k}", nontrivial=False, where=where(df))
            else:
                rep.violation(df.qualname if df else cn, f"{k}={snippet(ex[k], 50)}", f"{cn}.data() exports {k!r} from something other than the attribute the constructor stores it in: for objects where the two differ (an address of type group has no wildcard) copy() and every re-initialisation change the setting", where(df, ex[k]) if df else "", inp=f"{cn}(..., {k}=<non-default>).copy().{k}")
    rep.floor(10, "exported settings that the object stores") if n else None


def dict_builders_pass_everything(ctx: Ctx, rep: Report, rid: str = "R16.14", factories: bool = False) -> None:
    """A builder that turns an exported dict into an object (`_dict_to_*`, taking **kwargs) hands the whole dict to the
    constructor (or to a sibling builder) on every return: a builder that passes the text alone drops note and uuid."""
    rep.rule(rid)
    base = ctx.cls("Base")
    n = 0
    for f in ctx.prog.funcs:
        if f.node.args.kwarg is None or f.cls is None:
            continue
        if factories:
            # class-level factories: Cls.fxxx(text, **kwargs) -> Cls
            def builds(v: Optional[ast.AST]) -> bool:
                if not isinstance(v, ast.Call):
                    return False
                if src(v.func) == "cls" or (isinstance(v.func, ast.Attribute) and src(v.func.value) in ("cls", f.cls.name)):
                    return True
                c_ = ctx.prog.resolve_name(f.module, v.func.id) if isinstance(v.func, ast.Name) else None
                return isinstance(c_, Class) and c_.is_subclass_of(base)

            if f.kind not in ("classmethod", "staticmethod") or not any(isinstance(r, ast.Return) and builds(r.value) for r in own_nodes(f.node)):
                continue
        elif not f.name.startswith("_dict_to"):
            continue
        kw = f.node.args.kwarg.arg
        n += 1
        for r in own_nodes(f.node):
            if not isinstance(r, ast.Return) or r.value is None or (isinstance(r.value, ast.Constant) and r.value.value is None):
                continue
            rep.instance()
            v = r.value
            whole = isinstance(v, ast.Call) and any(k.arg is None and isinstance(k.value, ast.Name) and k.value.id == kw for k in v.keywords)
            target_ok = False
            if isinstance(v, ast.Call):
                if isinstance(v.func, ast.Name):
                    c = ctx.prog.resolve_name(f.module, v.func.id)
                    target_ok = isinstance(c, Class) and c.is_subclass_of(base)
                    if not target_ok:
                        # class_ = Remark if action == "remark" else Ace; return class_(**kwargs)
                        from .common import single_env

                        d = single_env(f.node).get(v.func.id)
                        alts = [d.body, d.orelse] if isinstance(d, ast.IfExp) else [d] if isinstance(d, ast.Name) else []
                        cs = [ctx.prog.resolve_name(f.module, a.id) for a in alts if isinstance(a, ast.Name)]
                        target_ok = bool(cs) and len(cs) == len(alts) and all(isinstance(c_, Class) and c_.is_subclass_of(base) for c_ in cs)
                elif isinstance(v.func, ast.Attribute) and src(v.func.value) == "self" and v.func.attr.startswith("_dict_to"):
                    target_ok = True
                elif factories and (src(v.func) == "cls" or (isinstance(v.func, ast.Attribute) and src(v.func.value) in ("cls", f.cls.name))):
                    target_ok = True  # cls(...) / cls.fother(...)
            if whole and target_ok:
                rep.ok(f"{f.qualname}: {snippet(v, 40)}", f"receives **{kw}", where=where(f, r))
            else:
                if factories:
                    rep.violation(f.qualname, snippet(r), f"the factory does not hand its keyword arguments (**{kw}) to the object it builds on this path: the caller's settings (max_ncwb, platform, ...) are silently replaced by the defaults", where(f, r), inp="Wildcard.fsubnet('0.0.0.0 0.0.0.0', max_ncwb=2).max_ncwb == 16")
                else:
                    rep.violation(f.qualname, snippet(r), f"the object is not built from the whole exported dict (**{kw}): whatever the text does not carry - note, uuid - is dropped on copy() and on every re-initialising switch of the container", where(f, r), inp="acl with a Remark carrying a note; acl.copy()")
    if factories:
        rep.floor(1, "class-level factories taking **kwargs") if n else rep.note(f"{rid} no class-level factory takes **kwargs")
    else:
        rep.floor(2, "dict -> object builders") if n else rep.note(f"{rid} no _dict_to_* builder in the package")


def empty_group_dispatch(ctx: Ctx, rep: Report, rid: str = "R16.12") -> None:
    """The exported dict of a group is told from the exported dict of an ACE by the *presence* of its item list, not by
    its truth: an emptied group exports items == [] and must come back as a group (copy(), re-initialisation)."""
    from ..pathsem import feasible

    rep.rule(rid)
    f = ctx.func("AceGroup._dict_to_aceg")
    rep.instance()
    kw = f.node.args.kwarg.arg if f.node.args.kwarg else None
    rep.require(kw is not None, "AceGroup._dict_to_aceg lost its **kwargs parameter")
    ex = set(exported(ctx, ctx.cls("AceGroup")))
    witness = {k: "" for k in ex}
    witness["items"] = []
    verdict = None
    for p in function_paths(ctx.cfg(f)):
        if p.raises:
            continue
        fz = feasible(p, ctx.folder, f, {kw: dict(witness)})
        if fz is not True:
            if fz is None:
                verdict = verdict or ("unknown", p)
            continue
        r = deep_resolve(p.ret, p.env) if p.ret is not None else None
        builds_group = isinstance(r, ast.Call) and src(r.func) in ("AceGroup", "self.__class__", "type(self)")
        verdict = ("group", p) if builds_group else ("other", p)
        break
    if verdict is None or verdict[0] == "unknown":
        rep.note(f"{rid} the group/ACE discriminator of _dict_to_aceg is not foldable for the empty-group witness (not judged)")
        rep.ok("AceGroup._dict_to_aceg: empty group", "discriminator not foldable (not judged)", nontrivial=False, where=where(f))
    elif verdict[0] == "group":
        rep.ok("AceGroup._dict_to_aceg: empty group", "data with items == [] is rebuilt as a group", where=where(f))
    else:
        atoms = "; ".join(f"{snippet(t, 34)}={'T' if tr else 'F'}" for t, tr in verdict[1].atoms)
        rep.violation("AceGroup._dict_to_aceg", f"items == [] takes the path [{atoms}]", "the exported data of an emptied group is handed to the ACE builder: Acl.copy() / Acl(**acl.data()) raise (or build a wrong item) when the ACL holds an empty group", where(f), inp="acl with group_by; acl.items[0].items = []; acl.copy()")


def items_before_line(ctx: Ctx, rep: Report, rid: str = "R16.11") -> None:
    """A container rebuilt from its own data() (copy, re-initialisation) must take its content from `items` (the exported
    member objects: group members, identifiers, notes) and parse `line` only when no items were given: the text is a lossy
    view (address-group members are not in it)."""
    rep.rule(rid)
    n = 0
    for cn in ("AceGroup", "Acl", "AddrGroup"):
        cls = ctx.cls(cn)
        ex = exported(ctx, cls)
        init = cls.methods.get("__init__")
        if init is None or not {"line", "items"} <= set(ex):
            continue
        n += 1
        rep.instance()
        cfg = ctx.cfg(init)

        def stores(node: Node, attr: str) -> bool:
            if node.kind == "stmt" and isinstance(node.ast, ast.Assign):
                return any(isinstance(t, ast.Attribute) and src(t.value) == "self" and t.attr == attr for t in node.ast.targets)
            return False

        bad = None
        saw_line = False
        for p in function_paths(cfg):
            if p.raises:
                continue
            line_nodes = [nd for nd, _ in p.nodes if stores(nd, "line")]
            if not line_nodes:
                continue
            saw_line = True
            # items must have been found absent/empty on this path
            items_false = False
            for t, truth in p.atoms:
                rt = deep_resolve(t, p.env)
                if not truth and ("'items'" in src(rt) or '"items"' in src(rt) or src(t) == "items"):
                    items_false = True
            if not items_false:
                bad = (p, line_nodes[0])
                break
        if bad is not None:
            p, ln = bad
            atoms = "; ".join(f"{snippet(t, 30)}={'T' if tr else 'F'}" for t, tr in p.atoms) or "unconditional"
            rep.violation(init.qualname, f"{snippet(ln.ast)} on path [{atoms}]", f"{cn} parses the text although items may have been given: a copy built from data() (which carries both) loses what only the item objects hold (address-group members, nested identifiers and notes)", where(init, ln.ast), inp=f"{cn} with an ACE whose address group has members; .copy()")
        elif saw_line:
            rep.ok(f"{init.qualname}: line parsed only without items", "every path that assigns self.line has found `items` empty", where=where(init))
        else:
            rep.violation(init.qualname, "self.line = ...", "the constructor never parses the line", where(init))
    rep.floor(3, "containers that export both line and items")


def falsy_notes_survive(ctx: Ctx, rep: Report, rid: str = "R16.30") -> None:
    """The note is the user's object and may be anything, `0`, `[]`, `{}` and `False` included (`Base._init_note` refuses
    nothing; only `None` means "no note").  Code that carries a note over (copy, rebuild from data, regroup) therefore
    never decides by the truthiness of the note: `if note := data.get("note"):` or a `{k: v ... if v}` filter over an
    identity record drops exactly the falsy notes, and the copy differs from its source."""
    rep.rule(rid)
    n = 0
    every = [f for c in ctx.prog.classes.values() for f in c.all_funcs()] + [f for m in ctx.prog.modules.values() for f in m.functions.values()]
    for f in every:
        nodes = list(own_nodes(f.node))
        touches_note = any((isinstance(x, ast.Constant) and x.value == "note") or (isinstance(x, ast.Attribute) and x.attr in ("note", "_note")) or (isinstance(x, ast.keyword) and x.arg == "note") for x in nodes)
        if not touches_note:
            continue

        def reads_note(e: ast.AST) -> bool:
            if isinstance(e, ast.NamedExpr):
                return reads_note(e.value)
            if isinstance(e, ast.Call) and isinstance(e.func, ast.Attribute) and e.func.attr in ("get", "pop") and e.args and isinstance(e.args[0], ast.Constant) and e.args[0].value == "note":
                return True
            if isinstance(e, ast.Subscript) and isinstance(e.slice, ast.Constant) and e.slice.value == "note":
                return True
            if isinstance(e, ast.Attribute) and e.attr in ("note", "_note"):
                return True
            return False

        bound = set()
        for x in nodes:
            if isinstance(x, ast.Assign) and len(x.targets) == 1 and isinstance(x.targets[0], ast.Name) and reads_note(x.value):
                bound.add(x.targets[0].id)
            if isinstance(x, ast.NamedExpr) and reads_note(x.value):
                bound.add(x.target.id)

        def truth_of_note(t: ast.AST) -> bool:
            if isinstance(t, ast.UnaryOp) and isinstance(t.op, ast.Not):
                return truth_of_note(t.operand)
            if isinstance(t, ast.BoolOp):
                return any(truth_of_note(v) for v in t.values)
            return reads_note(t) or (isinstance(t, ast.Name) and t.id in bound)

        for x in nodes:
            if isinstance(x, (ast.If, ast.IfExp)) and truth_of_note(x.test):
                body = x.body if isinstance(x, ast.If) else [x.body, x.orelse]
                carries = any((isinstance(y, ast.Attribute) and y.attr in ("note", "_note") and isinstance(y.ctx, ast.Store)) or (isinstance(y, ast.keyword) and y.arg == "note") or (isinstance(y, ast.Subscript) and isinstance(y.ctx, ast.Store) and isinstance(y.slice, ast.Constant) and y.slice.value == "note") for b in (body if isinstance(body, list) else [body]) for y in ast.walk(b))
                if isinstance(x, ast.IfExp):
                    par = getattr(x, "_parent", None)
                    carries = carries or (isinstance(par, ast.keyword) and par.arg == "note") or (isinstance(par, ast.Assign) and any(isinstance(t, ast.Attribute) and t.attr in ("note", "_note") for t in par.targets))
                if carries:
                    n += 1
                    rep.instance()
                    rep.violation(f.qualname, snippet(x.test, 60), "a note is carried over only when it is truthy: the user's note `0`, `[]`, `{}` or `False` is dropped by the copy / rebuild / regroup, which then differs from its source in data() and no longer holds the user's object", where(f, x), inp="ace.srcaddr.note = 0; ace.copy().data() != ace.data()")
            if isinstance(x, ast.DictComp) and len(x.generators) == 1:
                g = x.generators[0]
                if isinstance(g.target, ast.Tuple) and len(g.target.elts) == 2 and isinstance(g.target.elts[1], ast.Name):
                    v = g.target.elts[1].id
                    if any((isinstance(c, ast.Name) and c.id == v) for c in g.ifs):
                        n += 1
                        rep.instance()
                        rep.violation(f.qualname, snippet(x, 70), "a record that holds a note (this function reads or passes one) is filtered by the truthiness of its values: a falsy user note (`0`, `[]`, `{}`) is dropped and the rebuilt object comes back with the default note", where(f, x), inp="acl.items[0].note = 0; acl.port_nr = True; acl.items[0].note == ''")
    rep.instance()
    rep.ok("package", f"no note is carried over under a truthiness test ({n} offending constructs)", where="cisco_acl/")



def run(ctx: Ctx, rep: Report, tier: str) -> None:
    items_before_line(ctx, rep)
    falsy_notes_survive(ctx, rep)
    empty_group_dispatch(ctx, rep)
    nested_data_plumbing(ctx, rep)
    from .c15 import adoption_rule
    from .c19 import r19_2, r19_3

    r19_2(ctx, rep, rid="R16.6")
    r19_3(ctx, rep, rid="R16.6")
    adoption_rule(ctx, rep, rid="R16.6")
    r16_8(ctx, rep)
    settings_propagation(ctx, rep)
    dict_builders_pass_everything(ctx, rep)
    objects_adopted_once(ctx, rep)
    adopted_objects_get_settings(ctx, rep)
    blocks_keep_number(ctx, rep)
    blocks_get_acl_settings(ctx, rep)
    block_identity_key_is_unique(ctx, rep)
    copies_can_be_equal(ctx, rep)
    dicts_rebuilt_whole(ctx, rep)
    member_dicts_stamped_like_members(ctx, rep)
    blocks_keep_identity(ctx, rep)
    exporter_reads_own_settings(ctx, rep)
    # R16.21 premise: the exported line is read back by the grammar it was written for - every address spelling whole, the
    # largest sequence number included (C01 R01.16)
    from .c01 import address_spellings_whole

    address_spellings_whole(ctx, rep, rid="R16.21")
    # R16.17 the list operations of a container work on the list in place (C15 R15.10): an operation that goes through the
    # items setter re-groups a grouped ACL and so replaces its blocks
    from .c15 import list_api_forwarding, r15_4

    sub1510 = Report("C16")
    list_api_forwarding(ctx, sub1510)
    r15_4(ctx, sub1510)
    rep.absorb(sub1510, "R16.17")
    # R16.15 premise: the exported line is read back to the same data: every selectable port name is in the splitter's
    # vocabulary (C09 R09.5)
    from .c09 import splitter_vocabulary

    sub9 = Report("C16")
    splitter_vocabulary(ctx, sub9, "R09.5")
    rep.absorb(sub9, "R16.15")
    # R16.27 the port split carries every block over as the object it is (C19 R19.4): a split that walks a flattened
    # copy of the member list hands Acl.group() bare entries, and every block is rebuilt without uuid, note and number
    from .c19 import splice_rule

    sub194 = Report("C16")
    splice_rule(ctx, sub194, "AceGroup.ungroup_ports")
    splice_rule(ctx, sub194, "Acl.ungroup_ports")
    rep.absorb(sub194, "R16.27")
    # R16.28 what equality compares is current: a memo kept by an object (the network list, a remembered hash) is reset
    # by every writer of what it was computed from (C05 R05.1), else a copy of a changed object differs from it
    from .c05 import memo_rules

    sub51 = Report("C16")
    memo_rules(ctx, sub51, rid="R05.1")
    rep.absorb(sub51, "R16.28")
    from .c01 import field_isolation

    field_isolation(ctx, rep, "R16.10")
    r16_1(ctx, rep)
    r16_2(ctx, rep)
    r16_3(ctx, rep)
    r16_4(ctx, rep)
    r16_5(ctx, rep)
    r16_7(ctx, rep)


# what the later rounds (seeding rounds 2-5, refactor twins, defect hunt) added to what the check decides
LATER_ROUNDS = "rebuilt blocks keep uuid, note, number and receive the ACL's version, block identity is filed under a unique key, every exported class with copy() has an equality, adopted entries get the same settings from both rule-list builders, the port split keeps block objects, memos are reset by every writer, members handed over as dictionaries are stamped like ready-made members, notes are never carried over by truthiness"
EXPLANATION = EXPLANATION.replace(" Does not decide", " Later rounds added: " + LATER_ROUNDS + ". Does not decide", 1) if " Does not decide" in EXPLANATION else EXPLANATION + " Later rounds added: " + LATER_ROUNDS + "."
