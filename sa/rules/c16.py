"""C16 — not implemented yet (fail closed)."""
from ..model import AnalysisError
PROPERTY = "C16"
LEVEL = "other"
EXPLANATION = "not implemented"
def run(ctx, rep, tier):
    raise AnalysisError("rules for C16 are not implemented yet")
